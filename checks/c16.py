"""C16: file names and response files reach commands intact."""
import json
import os
import subprocess
import sys

import nxcheck
import templates
import vbuild
from vcheck import Check, NCPU

RULE = ("(a) every name of 1-2 bytes over all byte values except NUL and newline (64 770 names + 255) and every 3-byte name "
        "over 24 shell-special bytes, as $in, $out and $in_newline of a real Edge (100 names per command, so each name occurs "
        "at first/middle/last positions across batches), evaluated by ninja's own EvaluateCommand and handed to the real "
        "/bin/sh -c: the helper must receive exactly the names, one word each; names made only of [A-Za-z0-9_+-./] must "
        "appear verbatim. (b) response files: engine A runs the rspfile templates under every schedule and fault: content "
        "at command start equals the declared rspfile_content, file removed after success, kept after failure. (c) the "
        "name as the first word of the command line ('command = $in $out'), every 1-2 byte name over {- + e c x a . _}, run by "
        "the unmodified ninja executable through its own /bin/sh spawn: a script of that name must be what runs")


def first_word(c, only=None):
    """`command = $in $out` with every 1-2 byte name over {- + e c x a . _}: /bin/sh must take the name as the command
    word (a script of that name in the working directory, found through PATH, records $0 and $1), never as its own options."""
    import itertools
    import shutil
    import tempfile
    ninja = vbuild.real_ninja()
    alpha = "-+ecxa._"
    names = [a for a in alpha] + [a + b for a, b in itertools.product(alpha, repeat=2)]
    names = [n for n in names if n not in (".", "..") and (only is None or n == only)]
    root = tempfile.mkdtemp(prefix="c16fw.", dir="/dev/shm")
    runs = bad = 0
    try:
        for n in names:
            d = os.path.join(root, "w")
            shutil.rmtree(d, ignore_errors=True)
            os.mkdir(d)
            with open(os.path.join(d, n), "w") as f:
                f.write('#!/bin/sh\nprintf "%s|%s" "$0" "$1" > marker\n: > "$1"\n')
            os.chmod(os.path.join(d, n), 0o755)
            with open(os.path.join(d, "build.ninja"), "w") as f:
                f.write("rule run\n  command = $in $out\nbuild out: run %s\n" % n)
            env = dict(os.environ, PATH=d + ":" + os.environ.get("PATH", ""))
            r = subprocess.run([ninja, "-C", d], stdout=subprocess.PIPE, stderr=subprocess.STDOUT, env=env, text=True)
            runs += 1
            got = None
            try:
                got = open(os.path.join(d, "marker")).read()
            except OSError:
                pass
            want = "%s|out" % os.path.join(d, n)
            if got not in (want, "%s|out" % n, "./%s|out" % n):
                facts = {"first_word": True, "name_starts_with_dash_or_plus": n[0] in "-+"}
                known = None
                for f in c.findings:
                    m = f.get("match", {})
                    if m.get("clause") == "first-word" and all(facts.get(k) == v for k, v in m.get("facts", {}).items()):
                        known = f
                if known:
                    c.known(known["id"], "%s [%s] e.g. name %r" % (known["what"], known["id"], n))
                    continue
                bad += 1
                if bad <= 3:
                    c.violation("C16/first-word: with 'command = $in $out' and input %r the shell did not run a command of that "
                                "name with the output as its argument (marker %r); ninja said: %s" % (n, got, r.stdout[-300:]),
                                {"name_hex": n.encode().hex(), "var": "in", "why": "first word", "engine": "rb-first-word"})
    finally:
        shutil.rmtree(root, ignore_errors=True)
    return {"first_word_names": len(names), "first_word_real_ninja_runs": runs}


def main(argv):
    c = Check("C16", "model_checking", argv)
    d, objs = vbuild.ninja_objects("plain")
    lib = [o for o in objs if os.path.basename(o) not in ("subprocess-posix.o",)]
    helper = vbuild.harness("printargs", ["src/ix/printargs.c"], [], flags=["-O2", "-w"])
    exe = vbuild.harness("ix_shell", ["src/ix/shell.cc"], objs, deps=["src/common/ixutil.h"],
                         flags=["-O2", "-std=c++17", "-w", "-DNDEBUG", "-fno-access-control"])
    if c.replay:
        r = json.load(open(c.replay))
        if r.get("engine") == "nx":
            nxcheck.replay(c, ["C16"])
        if r.get("engine") == "rb-first-word":
            c.findings = []
            first_word(c, only=bytes.fromhex(r["name_hex"]).decode())
            for what, _ in c.violations:
                print(what)
            sys.exit(1 if c.violations else 0)
        rc = subprocess.call([exe, "helper=" + helper, "replay=" + r["name_hex"]])
        sys.exit(1 if rc == 1 else (0 if rc == 0 else 2))
    cmds = [[exe, "helper=" + helper, "shard=%d" % i, "nshards=%d" % NCPU, "three=1"] for i in range(NCPU)]
    res = c.run_many(cmds)
    tot = {"names": 0, "shell_runs": 0, "verbatim": 0, "quoted": 0}
    samples = []
    for (rc, val, err), cmd in zip(res, cmds):
        if rc != 0 or val is None:
            c.violation("ix_shell shard died rc=%s %s" % (rc, err[-800:]), {"cmd": cmd, "name_hex": ""})
            continue
        for k in tot:
            tot[k] += val[k]
        samples += [bytes.fromhex(s).decode("latin-1") for s in val["samples"][:1]]
        if val["violations"]:
            c.violation("C16/shell-word: $%s with name %r: %s" % (val["first_var"], bytes.fromhex(val["first_bad"]), val["first_why"]),
                        {"name_hex": val["first_bad"], "var": val["first_var"], "why": val["first_why"]})
    # (c) the name as the FIRST word of the command line, through the unmodified executable and its own spawn path
    fw = first_word(c)
    # (b) rspfile lifecycle through engine A
    T = [t for t in templates.templates(c.tier) if "rspfile" in t["tags"]]
    agg = nxcheck.run(c, T, ["C16"], tag="rsp")
    cov = {
        "states": agg["states"] + tot["names"], "transitions": agg["transitions"] + 3 * tot["names"],
        "traces_validated_against_impl": agg["schedules"] + tot["shell_runs"],
        "evaluations": 3 * tot["names"] + agg["invocations"], "distinct_nontrivial": tot["quoted"] // 3,
        "rule": RULE, "names": tot["names"], "shell_runs": tot["shell_runs"],
        "names_needing_quoting": tot["quoted"] // 3, "names_passed_verbatim": tot["verbatim"] // 3,
        "rspfile_scenarios": agg["scenarios"], "rspfile_invocations": agg["invocations"], "rspfile_schedules": agg["schedules"],
        "samples": samples[:4] + agg["samples"][:2],
    }
    cov.update(fw)
    c.finish(cov, assumptions=["/bin/sh of this sandbox (dash) is the reference shell",
                               "names containing NUL or newline are outside the property"], exhaustive=True)
