"""C14: path canonicalisation, bounded-exhaustive against a component-stack reference."""
import os
import vbuild
from vcheck import Check, NCPU, sum_key


def build():
    d, objs = vbuild.ninja_objects("plain")
    util = [o for o in objs if os.path.basename(o) in ("util.o", "string_piece_util.o", "edit_distance.o", "metrics.o")]
    exe = vbuild.harness("ix_canon", ["src/ix/canon.cc"], util, deps=["src/common/ixutil.h"])
    dA, objsA = vbuild.ninja_objects("asan", flags=["-O1", "-g", "-fsanitize=address,undefined",
                                                      "-fno-sanitize-recover=all", "-fno-omit-frame-pointer",
                                                      "-DUSE_PPOLL=1", "-std=c++17", "-w",
                                                      "-D" + vbuild.GUARD + "=1"])
    utilA = [o for o in objsA if os.path.basename(o) in ("util.o", "string_piece_util.o", "edit_distance.o", "metrics.o")]
    exeA = vbuild.harness("ix_canon_asan", ["src/ix/canon.cc"], utilA, deps=["src/common/ixutil.h"],
                          flags=["-O1", "-g", "-fsanitize=address,undefined", "-fno-sanitize-recover=all",
                                 "-std=c++17", "-w"])
    return exe, exeA


def main(argv):
    c = Check("C14", "model_checking", argv)
    exe, exeA = build()
    if c.replay:
        import json, subprocess
        r = json.load(open(c.replay))
        rc = subprocess.call([exe, "replay=" + r["input_hex"]])
        rc2 = subprocess.call([exe, "replay=" + r["input_hex"]])
        raise SystemExit(1 if (rc or rc2) else 0)
    # (alphabet hex, maxlen, asan maxlen)
    if c.tier == "quick":
        runs = [("61622e2f", 11, 8), ("2e2f615cff20", 7, 5)]
    else:
        runs = [("61622e2f", 14, 11), ("2e2f615cff20", 10, 7)]
    total = {"evaluations": 0, "changed": 0, "fixpoints": 0, "dotdot_kept": 0, "became_dot": 0}
    samples = []
    families = []
    for alpha, maxlen, asanlen in runs:
        for binary, ml, tag in ((exe, maxlen, "plain"), (exeA, asanlen, "asan+ubsan")):
            cmds = [[binary, "alpha=" + alpha, "maxlen=%d" % ml, "shard=%d" % i, "nshards=%d" % NCPU]
                    for i in range(NCPU)]
            env = dict(os.environ, ASAN_OPTIONS="detect_leaks=0:abort_on_error=0", UBSAN_OPTIONS="print_stacktrace=1")
            res = c.run_many(cmds, env=env)
            ev = 0
            for (rc, val, err), cmd in zip(res, cmds):
                if rc != 0 or val is None:
                    # sanitizer report or crash: that is a verdict for this property
                    c.violation("harness shard died (%s): rc=%s %s" % (tag, rc, err[-1500:]),
                                {"cmd": cmd, "stderr": err[-4000:], "input_hex": ""})
                    continue
                ev += val["evaluations"]
                if tag == "plain":
                    for k in total:
                        total[k] += val[k]
                    samples.extend(val["samples"][:1])
                if val["violations"]:
                    c.violation("CanonicalizePath(%r): %s" % (bytes.fromhex(val["first_bad"]), val["first_why"]),
                                {"input_hex": val["first_bad"], "why": val["first_why"], "build": tag})
            families.append({"alphabet_hex": alpha, "max_len": ml, "build": tag, "inputs": ev})
    # ---- wherever ninja takes a path (engine A, metamorphic) -----------------------------------
    import nxcheck
    import templates_c14
    agg = nxcheck.run(c, templates_c14.templates(c.tier), ["C14"], seconds=600, tag="c14")
    families.append({"family": "spelling twins: manifest / depfile targets and dependencies / showIncludes / dyndep / "
                               "command-line targets / tool arguments (engine A)", "scenarios": agg["scenarios"],
                     "states": agg["states"], "transitions": agg["transitions"], "inputs": agg["invocations"],
                     "incomplete_scenarios": agg["incomplete_scenarios"]})
    cov = {
        "evaluations": sum(f["inputs"] for f in families),
        "distinct_nontrivial": total["changed"],
        "states": total["fixpoints"],
        "transitions": total["evaluations"],
        "traces_validated_against_impl": total["evaluations"],
        "rule": "every string over the alphabet up to max_len (odometer, sharded); each is one distinct input; "
                "non-trivial = canonicalisation changes the string. states = distinct canonical forms (fixpoints), "
                "transitions = input->canonical-form mappings checked against the reference on the real routine. "
                "Engine A: projects whose manifest, depfiles (all outputs as targets), /showIncludes lines, dyndep files, "
                "command-line targets and tool arguments use './x', 'zz/../x', doubled slashes and inner './' run in lock "
                "step with their canonical twin through every history of depth <= 2/3 (same commands, same exit status, "
                "clean final state); an invocation with oddly spelled arguments is compared with the same one spelled canonically",
        "families": families,
        "kept_dotdot_results": total["dotdot_kept"],
        "collapsed_to_dot": total["became_dot"],
        "samples": samples[:6],
    }
    c.finish(cov, assumptions=[
        "POSIX build (slash_bits always 0); bytes other than '.' and '/' are opaque to the routine",
        "reference = component stack normaliser in src/ix/canon.cc (RefCanon)",
    ], exhaustive=True)
