"""C07: interrupting or killing ninja never poisons the next build."""
import nxprops
import rbchecks
import templates_c07


RULE = ("engine A: for the crash templates every ninja invocation is run under every single-completion schedule and, for each, "
        "killed at every mutating libc operation (file create/append/mkdir/remove/rename/truncate; stream writes with and "
        "without a torn part), each orphaned command then either completing or not; interrupts are offered as an alternative "
        "at every wait, each killed command with and without partially written outputs; every resulting world is expanded "
        "by further edits and builds: the next invocation must start normally (non-zero exit only with a failed command), "
        "and after exit 0 the clean-build and convergence oracles must hold; interrupted builds must exit 130, remove the "
        "lock file, modified outputs of killed commands (always for depfile statements) and their depfiles")

RB_RULE = ("; engine B: the unmodified ninja executable with gated helper commands run through /bin/sh as compound commands: "
           "SIGINT, SIGTERM, SIGHUP and SIGKILL are delivered at each of the first three waits of a fresh and of an "
           "incremental build (to the ninja process; with console commands also to its process group, as a terminal does), with "
           "the oldest running command either untouched or having already overwritten its outputs (not for SIGKILL: the property "
           "assumes atomic replacement there), and while ninja is outside ppoll() with a descriptor ready when it returns: "
           "exit 130, lock file gone, no command process survives, overwritten outputs removed; the next build succeeds, "
           "equals a clean build and converges; a command that is slow to die, the signal sent a second time; a console command "
           "that catches the signal and exits 0 while ninja is stopped, so that its SIGCHLD and ninja's own signal are both "
           "pending at ninja's next step: exit 130 and the next build runs the command again")


def fams(tier):
    T = templates_c07.templates(tier)
    return [("crash+interrupt templates", T, None, None)]


def main(argv):
    nxprops.run_check("C07", argv, ["C07"], RULE + RB_RULE, level="fault_enumeration", fam_fn=fams,
                      process_level=rbchecks.c07_process_level,
                      extra_assumptions=["process death is modelled at the granularity of libc calls that change the file "
                                         "system; a SIGKILLed tree leaves each running command either complete or without effect",
                                         "real signals are delivered at gate points (when ninja is blocked waiting), not at arbitrary instants"])
