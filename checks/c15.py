"""C15: depfiles written by compilers are read back as the same file names."""
import json
import os
import subprocess
import sys

import vbuild
from vcheck import Check, NCPU

RULE = ("every name of length <= 4 (quick) / 5 (thorough) over {a, space, backslash, #, $, :, %, ~, *, ;, 0xC3} that the compilers' "
        "quoting can represent unambiguously, encoded with the reference encoder (GCC mkdeps.c / clang DependencyFile.cpp "
        "rules, with and without escaped colons), as the single dependency, as the target, between other dependencies, as "
        "a second target, and every ordered pair of names of length <= 3, each in 7 layouts (one line, continuation per "
        "name, one rule per dependency, trailing whitespace, CRLF, duplicated dependency, CRLF continuations); parsed by "
        "the real DepfileParser: must be accepted with outs_/ins_ exactly the names, each dependency once. Rejection: "
        "every small name without ':' and every dependency re-used as a target with dependencies; all rule structures of up to 3 (thorough 4) "
        "rules over four names against a reference reader (which rules make a file invalid, which names end up where). Names with one or more "
        "backslashes directly before '#' are representable (the compilers add one backslash, the scanner removes one). Second "
        "pass: the same enumeration over {a, space, backslash, c} for every other character c of , = + @ - _ ( ) [ ] { } ! & ' \" . / 0 Z")


def main(argv):
    c = Check("C15", "model_checking", argv)
    d, objs = vbuild.ninja_objects("plain")
    need = [o for o in objs if os.path.basename(o) in ("depfile_parser.o", "util.o", "string_piece_util.o", "edit_distance.o", "metrics.o")]
    exe = vbuild.harness("ix_depfile", ["src/ix/depfile.cc"], need, deps=["src/common/ixutil.h"])
    if c.replay:
        r = json.load(open(c.replay))
        args = [exe, "replay=" + r["depfile_hex"]]
        if r.get("expect_reject"):
            args.append("expect_reject=1")
        else:
            args += ["outs=" + r.get("outs_hex", ""), "ins=" + r.get("ins_hex", "")]
        rc = subprocess.call(args)
        sys.exit(1 if rc == 1 else (0 if rc == 0 else 2))
    maxlen, pairlen = (4, 3) if c.tier == "quick" else (5, 3)
    cmds = [[exe, "maxlen=%d" % maxlen, "pairlen=%d" % pairlen, "shard=%d" % i, "nshards=%d" % NCPU] for i in range(NCPU)]
    # second pass: every other printable character that compilers write as it is and file names do contain, each with the
    # letter, the space and the backslash (what escaping rules interact with)
    others = ",=+@-_()[]{}!&'\"./0Z"
    for ch in others:
        alpha = ("a \\" + ch).encode("latin-1").hex()
        cmds.append([exe, "alpha=" + alpha, "maxlen=%d" % maxlen, "pairlen=2", "shard=0", "nshards=1"])
    # rule structures: every depfile of up to 3 (thorough: 4) rules over four names, one target and 0-2 dependencies each
    nrules = 3 if c.tier == "quick" else 4
    for i in range(NCPU):
        cmds.append([exe, "structures=%d" % nrules, "shard=%d" % i, "nshards=%d" % NCPU])
    res = c.run_many(cmds)
    tot = {"cases": 0, "files": 0, "rejected_ok": 0}
    structures = {"depfiles": 0, "accepted": 0, "rejected": 0}
    names = 0
    extra_names = 0
    samples = []
    for (rc, val, err), cmd in zip(res, cmds):
        if rc != 0 or val is None:
            c.violation("ix_depfile shard died rc=%s %s" % (rc, err[-800:]), {"cmd": cmd, "depfile_hex": ""})
            continue
        for k in tot:
            tot[k] += val[k]
        if "structures=" in " ".join(cmd):
            structures["depfiles"] += val["cases"]
            structures["accepted"] += val["accepted_ok"]
            structures["rejected"] += val["rejected_ok"]
            val.setdefault("samples", [])
            val.setdefault("representable_names", 0)
        names = max(names, val["representable_names"]) if "alpha=" not in " ".join(cmd) else names
        if "alpha=" in " ".join(cmd):
            extra_names += val["representable_names"]
        samples += val["samples"][:1]
        if val.get("backslash_dollar_failures"):
            f = [x for x in c.findings if x["id"] == "F16-C15"]
            if f:
                c.known("F16-C15", "%s [F16-C15] e.g. depfile %r (%d such depfiles)" % (f[0]["what"], bytes.fromhex(val["bsd_bad"]), val["backslash_dollar_failures"]))
            else:
                c.violation("C15: depfile %r: %s" % (bytes.fromhex(val["bsd_bad"]), val["bsd_why"]), {"depfile_hex": val["bsd_bad"]})
        if val.get("separator_character_failures"):
            f = [x for x in c.findings if x["id"] == "F32-C15"]
            if f:
                c.known("F32-C15", "%s [F32-C15] e.g. depfile %r (%d such depfiles)" % (f[0]["what"], bytes.fromhex(val["sep_bad"]), val["separator_character_failures"]))
            else:
                c.violation("C15: depfile %r: %s" % (bytes.fromhex(val["sep_bad"]), val["sep_why"]), {"depfile_hex": val["sep_bad"]})
        if val["violations"]:
            why = val["first_why"]
            outs_hex = ins_hex = ""
            if " |outs=" in why:
                why, rest = why.split(" |outs=", 1)
                outs_hex, ins_hex = rest.split(" |ins=")
            c.violation("C15: depfile %r: %s" % (bytes.fromhex(val["first_bad"]), why),
                        {"depfile_hex": val["first_bad"], "why": why, "outs_hex": outs_hex.strip(), "ins_hex": ins_hex.strip(),
                         "expect_reject": "was accepted" in why})
    cov = {
        "states": names, "transitions": tot["files"], "traces_validated_against_impl": tot["files"],
        "evaluations": tot["files"], "distinct_nontrivial": tot["cases"],
        "rule": RULE, "representable_names": names, "names_of_the_second_pass_over_other_characters": extra_names, "name_placements": tot["cases"], "depfiles_parsed": tot["files"],
        "rejections_confirmed": tot["rejected_ok"],
        "rule_structures": dict(structures, rule="every depfile of 1..%d rules over the names a b c d, one target and 0-2 dependencies per rule; "
                                "reference: invalid iff a rule's target was named as a dependency earlier and the rule has dependencies; "
                                "otherwise targets / dependencies in order of first appearance, each once" % nrules), "samples": samples[:4] or ["T.o: a\\ b\n"],
    }
    c.finish(cov, assumptions=["reference encoder = GCC/Clang Makefile quoting as implemented in src/ix/depfile.cc (Encode)",
                               "names that the dialect cannot represent unambiguously (empty, ending in ':' or '\\\\', containing "
                               "'\\\\:' '\\\\#' or ': ') are outside the property"], exhaustive=True)
