"""C04: a command starts only after everything it needs is up to date and in place."""
import nxprops

RULE = ("same exploration core as C01 (all schedules, -j1/2/3, pools); at every command start: every producer of a declared "
        "input or declared read (through phony aliases, incl. dyndep file) that runs in this invocation has finished with "
        "status 0 before; directories of outputs/depfile exist on the simulated disk; response file holds the declared content")


def fams(tier):
    # the same clauses while ninja is a client of a jobserver pool (seam S6a): tokens decide what may start when
    import templates_js
    out = nxprops.families(tier)
    out.append(("jobserver pool x other client (engine A)", templates_js.templates(tier), None, None))
    return out


def main(argv):
    nxprops.run_check("C04", argv, ["C04"], RULE, fam_fn=fams)
