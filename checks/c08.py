"""C08: the build log survives torn writes, restarts and compaction."""
import json
import subprocess
import sys

import nxbuild
from vcheck import Check, NCPU, sum_key

RULE = ("explicit-state search: breadth-first over sequences of log operations (sessions of 0-2 RecordCommand calls over "
        "single/multi-output/space-containing/300KiB names x 2 command hashes x mtimes, explicit and automatic recompaction "
        "with dead sets, restat of all/one output, bursts crossing the compaction threshold, unsupported version headers), "
        "states deduplicated by log bytes; for every reached state every tear offset of the file (cap for the 300 KiB "
        "record: all offsets within 64 bytes of a line/field/buffer boundary and every 4096th) and after each tear every "
        "continuation of length <= 2 (load, empty session, appending sessions, recompaction, restat). Oracles on the real "
        "BuildLog after every step: Load never errors and equals the independent reader's last-wins fold over complete "
        "lines; an acknowledged record is what the next load returns; other entries are unchanged unless dead or replaced "
        "by a record that looks out of date; recompaction drops exactly the dead set; restat changes only mtimes. "
        "Process level (engine A, real ninja main in process): histories of depth <= 3/4 over {edit, touch, delete outputs, "
        "drop a statement from the manifest, 400 more records of one output (long history), builds (full, single target, "
        "-n, failing), -t restat (all / one / two outputs), -t recompact, -t cleandead, -t query, -t deps} from a built "
        "tree, from a tree with a long history, and over logs of versions 4/6/8/70: an unsupported version is discarded "
        "with the warning and without an error by every invocation that opens the log; -t restat changes only the "
        "recorded mtimes (to the files' current ones, 0 when missing); every other invocation keeps the record of every "
        "output that is in the manifest or on disk and whose command it did not run")


def main(argv):
    c = Check("C08", "model_checking", argv)
    exe = nxbuild.lx_binary("lx_buildlog", "src/lx/lx_buildlog.cc")
    if c.replay:
        r = json.load(open(c.replay))
        if "trail" not in r:
            # a process-level finding (engine A): scenario + history
            import nxcheck
            nxcheck.replay(c, ["C08"])
        rc = subprocess.call([exe, "replay=" + "|".join(r["trail"])] + r.get("args", []))
        sys.exit(1 if rc == 1 else (0 if rc == 0 else 2))
    runs = []
    if c.tier == "quick":
        runs.append(("depth2", ["depth=2", "cont=2"]))
        runs.append(("longname", ["depth=1", "cont=1", "long=1"]))
    else:
        runs.append(("depth3", ["depth=3", "cont=2", "thorough=1"]))
        runs.append(("longname", ["depth=2", "cont=1", "long=1"]))
    total = {"states": 0, "transitions": 0, "tears": 0, "continuations": 0, "ops": 0, "loads": 0, "crash_points": 0}
    samples = []
    fams = []
    for name, args in runs:
        cmds = [[exe, "shard=%d" % i, "nshards=%d" % NCPU] + args for i in range(NCPU)]
        res = c.run_many(cmds)
        fam = {"family": name, "args": args}
        first = True
        for (rc, val, err), cmd in zip(res, cmds):
            if rc != 0 or val is None:
                c.violation("lx_buildlog shard died rc=%s: %s" % (rc, err[-1500:]), {"cmd": cmd, "stderr": err[-3000:], "trail": []})
                continue
            if first:
                total["states"] += val["states"]
                total["transitions"] += val["transitions"]
                fam["states"] = val["states"]
                fam["transitions"] = val["transitions"]
                first = False
            for k in ("tears", "continuations", "ops", "loads", "crash_points"):
                total[k] += val[k]
                fam[k] = fam.get(k, 0) + val[k]
            samples += val["samples"][:1]
            seen = set()
            for v in val["violations"]:
                if v["clause"] in seen:
                    continue
                seen.add(v["clause"])
                c.violation("C08/%s: %s  ops: %s" % (v["clause"], v["detail"][:300], " | ".join(v["trail"])),
                            {"engine": "lx_buildlog", "trail": v["trail"], "clause": v["clause"], "detail": v["detail"],
                             "args": [a for a in args if a.startswith("long=") or a.startswith("thorough=")]})
        fams.append(fam)
    # ---- process level (engine A): the real ninja invocations on an existing log ----------------
    import nxcheck
    import templates_c08
    c.violations_lx = list(c.violations)
    agg = nxcheck.run(c, templates_c08.templates(c.tier), ["C08"], seconds=600, tag="c08")
    fams.append({"family": "process level: -t restat / -t recompact / automatic recompaction / unsupported versions (engine A)",
                 "scenarios": agg["scenarios"], "states": agg["states"], "transitions": agg["transitions"],
                 "invocations": agg["invocations"], "incomplete_scenarios": agg["incomplete_scenarios"]})
    total["states"] += agg["states"]
    total["transitions"] += agg["transitions"]
    total["ops"] += agg["invocations"]
    # keep at most a handful of distinct reports
    uniq = {}
    for what, p in c.violations:
        uniq.setdefault(what.split(":")[0], (what, p))
    c.violations = list(uniq.values())[:6]
    cov = {
        "states": total["states"], "transitions": total["transitions"] + total["tears"] + total["continuations"],
        "traces_validated_against_impl": total["ops"],
        "evaluations": total["ops"], "distinct_nontrivial": total["tears"],
        "rule": RULE, "clean_states": total["states"], "tear_points": total["tears"],
        "continuation_steps_after_tears": total["continuations"], "maintenance_crash_points": total["crash_points"], "loads_compared_with_reference_reader": total["loads"],
        "families": fams,
        "samples": samples[:4] or [["session()", "tear@7", "load"]],
        "explanation": "every operation is executed on the real BuildLog; the reference reader is src/common/logparse.h",
    }
    c.finish(cov, assumptions=[
        "a crash leaves a prefix of the file (append-only writes, line buffered); renames are atomic",
        "lines longer than the 256 KiB reader buffer are never loaded (pinned by BuildLogTest.VeryLongInputLine): the "
        "reference skips them too",
    ], exhaustive=True)
