"""C20: progress and command output are reported once, whole and consistent."""
import nxprops
import templates_c20

RULE = ("engine A with the transcript of ninja's stdout/stderr captured per invocation (dumb terminal): templates with "
        "parallel statements printing every kind of output (one line, no trailing newline, 5 KB, NUL bytes, ANSI colour, bare "
        "ESC, several lines, nothing), failing statements, restat pruning, dyndep additions, console-pool statements mixed "
        "with ordinary ones, manifest regeneration; -j1/2/3, -k0/-k1, default format, NINJA_STATUS=%s/%f/%t/%r/%u|, --status, "
        "-v; every schedule incl. simultaneous completions. A transcript parser checks per command: visible output appears "
        "exactly once, contiguous, directly after its status line (failed: after FAILED [code] outputs + full command line); "
        "console commands: nothing between status line and their own output; counters: finished <= total, started <= total, "
        "finished <= started, running = started - finished, remaining = total - started, after exit 0 finished = total; in "
        "an invocation that was not interrupted no started command ends unreported or is left running (also when another "
        "command cannot be started or a result cannot be processed)")


def fams(tier):
    return [("output templates", templates_c20.templates(tier), None, None)]


def main(argv):
    import rbchecks
    nxprops.run_check("C20", argv, ["C20"], RULE + "; engine B: a command whose background process writes to the inherited pipe after the "
                      "shell has exited (real pipes: everything it wrote is shown once, as one block); a command that writes 1 .. 60000 bytes in "
                      "one go and exits while ninja is stopped (SIGSTOP/SIGCONT: pipe full and hung up at ninja's next poll; sizes around the "
                      "4096-byte read buffer): all of it is shown once", fam_fn=fams,
                      process_level=rbchecks.c20_process_level,
                      extra_assumptions=["dumb (non-tty) terminal only in this engine; commands' output is delivered at "
                                         "completion (pieces over time through real pipes are outside engine A)"])
