"""C02: convergence - a build that succeeded leaves nothing to do."""
import nxprops

RULE = ("same exploration as C01; after every successful invocation (every schedule) the identical invocation is repeated "
        "immediately on the resulting world: zero commands, 'no work to do', exit 0, world unchanged")


def main(argv):
    nxprops.run_check("C02", argv, ["C02"], RULE)
