"""C03: minimality - only commands affected by a change are re-run."""
import nxprops

RULE = ("from every converged world (a successful, content-correct full build that the re-run oracle confirms as a no-op) "
        "every change set of size 1 and 2 over {edit/touch source or discovered header, delete output / depfile / log record, "
        "manifest variant with changed command line or rspfile content} is applied, then every ninja invocation of the "
        "alphabet (all target subsets listed, -j values) is run under every schedule; the set of started commands must equal "
        "the make-semantics set computed on the true graph (directly affected statements + non-order-only dependents of "
        "outputs that are actually rewritten; restat statements rewrite only on content change; generator statements ignore "
        "command-line changes)")


def main(argv):
    nxprops.run_check("C03", argv, ["C03"], RULE)
