"""C17: dependency cycles are always diagnosed, and only real ones."""
import family_cycles
import nxprops

RULE = ("engine A: (a) every manifest of 3 statements in which each statement takes <= 1 (all four kinds) or <= 2 (kinds explicit+validation; "
        "thorough also implicit+order-only and explicit+order-only) inputs among the three outputs and a source, each input being explicit / implicit / order-only "
        "/ validation, for every single target and the default; (b) templates: self loop, 2- and 3-cycles through each "
        "input kind, multi-output cycles, cycles inside and outside the requested closure, validation back-references "
        "(acyclic), cycles inside a validation's closure, phony cycles, cycles closed by depfile / deps=gcc / deps=msvc "
        "information recorded by an earlier build (with the discovering statement clean and dirty), dyndep-closed cycles "
        "with the dyndep file present at start or produced mid-build (all schedules). Oracle R-cycle on the effective graph: "
        "cyclic => 'dependency cycle: ' error whose hops are input relations, first = last, no command on the cycle starts, "
        "exit != 0; acyclic => no cycle error; never a hang or crash")


def fams(tier):
    fam = [("cycle templates", family_cycles.templates(tier), None, None)]
    fam.append(("cycles(3;1;ex+im+oo+val)", list(family_cycles.generated(1)), None, None))
    fam.append(("cycles(3;2;ex+val)", list(family_cycles.generated(2, kinds=("ex", "val"))), None, None))
    if tier != "quick":
        fam.append(("cycles(3;2;im+oo)", list(family_cycles.generated(2, kinds=("im", "oo"))), None, None))
        fam.append(("cycles(3;2;ex+oo)", list(family_cycles.generated(2, kinds=("ex", "oo"))), None, None))
    return fam


def main(argv):
    nxprops.run_check("C17", argv, ["C17"], RULE, fam_fn=fams)
