"""C19: dry runs and query tools observe without disturbing, and tell the truth."""
import nxprops
import templates_tools

RULE = ("engine A: from every world reached within the history depth of the tool templates, -n (default and per target, -j1/-j2, "
        "-v) and each read-only tool (commands, inputs, multi-inputs, query, targets all/depth/rule, rules, graph, compdb, "
        "compdb-targets, deps, missingdeps) is run through the real front end: no command may start, the world (files and the "
        "parsed meaning of both logs) must be unchanged, the next real build must be identical to the one from the untouched "
        "world, the -n listing must equal the real build's command set (superset when restat prunes) in dependency order, "
        "-t commands must list the from-scratch closure in dependency order, compdb output must be strict JSON (also with "
        "every byte value a manifest can carry in commands and descriptions)")


def fams(tier):
    return [("tool templates", templates_tools.readonly_scenarios(tier), None, None)]


def main(argv):
    nxprops.run_check("C19", argv, ["C19"], RULE, fam_fn=fams)
