"""C11: dyndep information behaves as if it had been written in the manifest."""
import nxprops
import templates_c11

RULE = ("engine A: (valid side, metamorphic twin) dyndep templates -- file existing as a source, produced by a clean or dirty "
        "statement, adding implicit inputs, implicit outputs, restat; shared by two statements; chained two levels -- driven "
        "through every history of depth <= 6/7 over {edit inputs, touch/delete the dyndep file and its source, delete "
        "outputs} and ninja (default and single target) under every schedule, in lock step with the twin whose manifest has "
        "the same information written in: same started sets and success, every statement starts after the producers of its "
        "dyndep-supplied inputs, final state equals the clean build. (invalid side) every dyndep file obtained from a valid "
        "one by removing the version line, omitting / duplicating / adding statements, naming an output twice, claiming "
        "another statement's output, an unsupported version, an empty file, and truncation at every byte that a reference "
        "reader (templates_c11.ref_parse) classifies as not a valid complete description; each both pre-existing and produced "
        "mid-build: the build must fail")


def fams(tier):
    import scen
    valid = templates_c11.valid_templates(tier)
    # seam S8: the twin templates once more with ninja's Edge / Node objects at descending addresses (the sets that
    # Plan::DyndepsLoaded walks are ordered by address); at a smaller history depth
    desc = scen.descending_copies(valid, tags_any=("dyndep",))
    for sc in desc:
        sc["depth"] = min(sc["depth"], 4 if tier == "quick" else 5)
    return [("dyndep twin templates", valid, None, None),
            ("dyndep twin templates, descending heap order (S8)", desc, None, None),
            ("invalid dyndep files", templates_c11.invalid_templates(tier), None, None)]


def main(argv):
    nxprops.run_check("C11", argv, ["C11"], RULE, fam_fn=fams)
