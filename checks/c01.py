"""C01: a successful incremental build equals a clean build."""
import nxprops

RULE = ("breadth-first search over worlds (disk + both logs, deduplicated by contents and rank-normalised timestamps); "
        "transitions = edits/touches/deletions/manifest variants/ninja invocations (with -j/-k, failing commands with and "
        "without touched outputs); every invocation under every completion schedule incl. simultaneous completions; after "
        "every exit 0 the closure of the targets is compared with the clean-build oracle R-content. A (world, op) point is "
        "non-trivial when its schedules/outcomes differ (distinct_nontrivial counts those points)")


def main(argv):
    nxprops.run_check("C01", argv, ["C01"], RULE)
