"""C09: the deps log survives torn writes, restarts and compaction."""
import json
import subprocess
import sys

import nxbuild
from vcheck import Check, NCPU

RULE = ("explicit-state search: breadth-first over sequences of deps-log operations (sessions of 0-2 RecordDeps calls over 2 "
        "outputs x dependency lists covering every path padding case, mtimes needing the high word, a path at the record "
        "size limit; explicit recompaction with each live set; bursts of 1002 records crossing the automatic recompaction "
        "threshold), states deduplicated by file bytes; for every reached state every tear offset (cap for files > 8 KiB: "
        "first/last 64 bytes and every 4096th), every garbage tail of 1-2 words over a 20-word alphabet plus byte tails of "
        "length 1-3, and after each every continuation of length <= 2 (3 in thorough). Oracles on the real DepsLog: Load "
        "never errors, GetDeps of every node equals the independent reader's last-wins fold over the complete records before "
        "the first malformed byte, the file is cut exactly there, ids stay dense, a completed session leaves a well-formed "
        "file whose reload equals the in-memory state at close, recompaction drops exactly the dead outputs; the process is "
        "killed at every file operation of every recompaction (a write may land partly): the live records are still there. "
        "Process level (engine A, real ninja main): histories of depth <= 3/4 over {edits, delete an output, 1100 more records "
        "of one output (long history), a statement stops using deps / leaves the manifest, builds (full, single target, "
        "failing), -t recompact, -t deps, -t cleandead, -t restat}, and a statement with deps whose implicit output is "
        "supplied by dyndep information: every invocation keeps, unchanged, the record of every output that still has a "
        "statement using deps and whose command it did not run")


def main(argv):
    c = Check("C09", "model_checking", argv)
    exe = nxbuild.lx_binary("lx_depslog", "src/lx/lx_depslog.cc")
    if c.replay:
        r = json.load(open(c.replay))
        if "trail" not in r:
            # a process-level finding (engine A): scenario + history
            import nxcheck
            nxcheck.replay(c, ["C09"])
        rc = subprocess.call([exe, "replay=" + "|".join(r["trail"])] + r.get("args", []))
        sys.exit(1 if rc == 1 else (0 if rc == 0 else 2))
    if c.tier == "quick":
        runs = [("depth3", ["depth=3", "cont=2", "garbage=2"]), ("maxrecord", ["depth=1", "cont=1", "garbage=1", "long=1"])]
    else:
        runs = [("depth3", ["depth=3", "cont=3", "garbage=2", "thorough=1"]), ("depth4", ["depth=4", "cont=2", "garbage=1"]), ("maxrecord", ["depth=2", "cont=2", "garbage=1", "long=1"])]
    # a dependency list of 131066..131074 entries (the record size limit is 3 words + 131068 ids)
    runs.append(("maxdeps", ["maxdeps=1"]))
    total = {"states": 0, "transitions": 0, "tears": 0, "continuations": 0, "ops": 0, "loads": 0, "garbage_tails": 0, "crash_points": 0}
    samples, fams = [], []
    for name, args in runs:
        cmds = [[exe, "shard=%d" % i, "nshards=%d" % NCPU] + args for i in range(NCPU)]
        # every shard holds the whole state space of its run (3.7 GB at depth 3, 4.7 GB at depth 4 in the thorough tier):
        # six at a time stay well inside the machine's memory, sixteen do not
        res = c.run_many(cmds, jobs=6 if (c.tier != "quick" and name in ("depth3", "depth4")) else None)
        fam = {"family": name, "args": args}
        first = True
        for (rc, val, err), cmd in zip(res, cmds):
            if rc != 0 or val is None:
                c.violation("C09/crash: lx_depslog shard died rc=%s (crash inside DepsLog on damaged input?): %s" % (rc, err[-800:]),
                            {"cmd": cmd, "stderr": err[-3000:], "trail": [], "args": args})
                continue
            if first:
                total["states"] += val["states"]; total["transitions"] += val["transitions"]
                fam["states"] = val["states"]; fam["transitions"] = val["transitions"]
                first = False
            for k in ("tears", "continuations", "ops", "loads", "garbage_tails", "crash_points"):
                total[k] += val[k]; fam[k] = fam.get(k, 0) + val[k]
            samples += val["samples"][:1]
            seen = set()
            for v in val["violations"]:
                if v["clause"] in seen:
                    continue
                seen.add(v["clause"])
                c.violation("C09/%s: %s  ops: %s" % (v["clause"], v["detail"][:300], " | ".join(t[:60] for t in v["trail"])),
                            {"engine": "lx_depslog", "trail": v["trail"], "clause": v["clause"], "detail": v["detail"],
                             "args": [a for a in args if a.startswith(("long=", "thorough="))]})
        fams.append(fam)
    # ---- process level (engine A): real ninja invocations on an existing deps log ----------------
    import nxcheck
    import templates_c09
    agg = nxcheck.run(c, templates_c09.templates(c.tier), ["C09"], seconds=600, tag="c09")
    fams.append({"family": "process level: builds / -t recompact / -t deps / automatic recompaction after a long history (engine A)",
                 "scenarios": agg["scenarios"], "states": agg["states"], "transitions": agg["transitions"],
                 "invocations": agg["invocations"], "incomplete_scenarios": agg["incomplete_scenarios"]})
    total["states"] += agg["states"]
    total["transitions"] += agg["transitions"]
    total["ops"] += agg["invocations"]
    uniq = {}
    for what, p in c.violations:
        uniq.setdefault(what.split(":")[0], (what, p))
    c.violations = list(uniq.values())[:6]
    cov = {
        "states": total["states"],
        "transitions": total["transitions"] + total["tears"] + total["garbage_tails"] + total["continuations"],
        "traces_validated_against_impl": total["ops"],
        "evaluations": total["ops"], "distinct_nontrivial": total["tears"] + total["garbage_tails"],
        "rule": RULE, "clean_states": total["states"], "tear_points": total["tears"], "garbage_tails": total["garbage_tails"],
        "recompaction_crash_points": total["crash_points"],
        "continuation_steps": total["continuations"], "loads_compared_with_reference_reader": total["loads"],
        "families": fams, "samples": samples[:4] or [["session()", "tear@13", "load"]],
        "explanation": "every operation is executed on the real DepsLog; the reference reader is src/common/logparse.h",
    }
    c.finish(cov, assumptions=[
        "a crash leaves a prefix of the file (append-only, one fflush per record); renames are atomic",
        "after arbitrary damage the reference decides which records of the valid prefix must survive; how much of the "
        "damaged part ninja keeps is only checked for tears of files it wrote itself",
    ], exhaustive=True)
