"""C05: failures are contained, reported, never recorded as success."""
import nxprops

RULE = ("same exploration core as C01 with failing commands (each statement, pairs, exit codes, with/without overwritten "
        "outputs, -k1/-k2/-k0) under every schedule: nothing downstream of a failure starts, exit status is that of a failed "
        "command, no start after a wait that began with k failures, parsed log entries of failed outputs unchanged, successes "
        "recorded, independent work still started (vs fault-free baseline), and the failed command is retried by the next "
        "build while the fault persists")


def main(argv):
    nxprops.run_check("C05", argv, ["C05"], RULE)
