"""C05: failures are contained, reported, never recorded as success."""
import nxprops
import rbchecks

RULE = ("same exploration core as C01 with failing commands (each statement, pairs, exit codes, with/without overwritten "
        "outputs, -k1/-k2/-k0) under every schedule: nothing downstream of a failure starts, exit status is that of a failed "
        "command, no start after a wait that began with k failures, parsed log entries of failed outputs unchanged, successes "
        "recorded, independent work still started (vs fault-free baseline), and the failed command is retried by the next "
        "build while the fault persists")

RB_RULE = ("; engine B: the unmodified ninja executable with a real command that is terminated by a signal of its own "
           "(SIGKILL, SIGSEGV, SIGABRT, SIGPIPE; thorough: ten signals) or exits with 1/2/127/255 (thorough: twelve codes), "
           "with and without having overwritten its output, -k1/-k0, run as 'sh -c \"exec cmd\"' (ninja's child itself is "
           "killed: WIFSIGNALED), 'sh -c cmd' and 'sh -c \"cmd && true\"' (the shell reports 128+n): ninja exits non-zero, prints FAILED:, starts nothing "
           "downstream, with -k0 still starts independent work, the next build retries the command, the one after is a no-op")


def fams(tier):
    # the same clauses while ninja is a client of a jobserver pool (seam S6a): tokens decide what may start when
    import templates_js
    out = nxprops.families(tier)
    out.append(("jobserver pool x other client (engine A)", templates_js.templates(tier), None, None))
    return out


def main(argv):
    nxprops.run_check("C05", argv, ["C05"], RULE + RB_RULE, fam_fn=fams, process_level=rbchecks.c05_process_level)
