"""C12: manifest text means what the manual says."""
import json
import multiprocessing
import os
import subprocess
import sys

import family_manifest as fm
import refmanifest
import vbuild
from vcheck import Check, NCPU

RULE = ("four complete families of manifests -- (a) scoping: one variable (and a reserved rule-variable name) bound or not at "
        "5 positions across a parent and an included/subninja'd file with literal / self-referencing / other-referencing "
        "values, used in paths, build bindings and rule variables, rules defined in the sub file; (b) statement forms: "
        "every combination of explicit/implicit outputs, explicit/implicit/order-only inputs, validations and pool/dyndep/"
        "deps/restat/generator/depfile/rspfile bindings, error forms, the legacy self-referencing phony with the self "
        "reference in every position and kind; (c) lexical: every string of <= 3 (quick) / 4 (thorough) tokens over a 22 "
        "token alphabet of escapes and separators in output, input and value position; (d) every single-token deletion, "
        "duplication and replacement (30 tokens) of 15 base manifests -- are evaluated by the reference evaluator "
        "lib/refmanifest.py (written from the manual) and parsed by the real ManifestParser; the canonical graph dump "
        "(pools, defaults, per statement: rule, outputs, input kinds, validations, pool, evaluated command, description, "
        "depfile, rspfile, rspfile_content, deps, dyndep, restat, generator) must be equal, rejections must agree and carry "
        "file:line. Where the manual is silent (scope of values inside a build block, scope of build-line paths) every "
        "reading is accepted and counted")


def _expect(item):
    cid, files = item[:2]
    opts = item[2] if len(item) > 2 else {}
    d = {"id": cid, "family": cid.split("#")[0], "files": files,
         "expect": refmanifest.expectations(files, phonycycle_err=bool(opts.get("phonycycle_err")))}
    d.update(opts)      # options of the parser (-w phonycycle=err), passed to the harness with the case
    return d


def main(argv):
    c = Check("C12", "model_checking", argv)
    d, objs = vbuild.ninja_objects("plain")
    exe = vbuild.harness("ix_manifest", ["src/ix/manifest.cc"], objs, deps=["src/common/ixutil.h", "src/common/vjson.h"],
                         flags=["-O2", "-std=c++17", "-w", "-DNDEBUG", "-fno-access-control"], libs=["-ldl"])
    if c.replay:
        rc = subprocess.call([exe, "replay=" + c.replay])
        sys.exit(1 if rc == 1 else (0 if rc == 0 else 2))
    fams = [("scoping", list(fm.scoping()) + list(fm.scoping2()) + list(fm.path_scope()) + list(fm.version_scope()) + list(fm.rule_shadowing())), ("forms", list(fm.forms()) + list(fm.phonycycle_err())),
            ("lexical", list(fm.lexical(3 if c.tier == "quick" else 4))),
            ("mutations", list(fm.mutations(fm.mutation_bases())))]
    os.makedirs(os.path.join(vbuild.BUILD, "scen"), exist_ok=True)
    total = {"cases": 0, "accepted": 0, "rejected": 0, "fatal": 0, "unconstrained_cases": 0, "error_line_agrees": 0, "error_line_differs": 0}
    faminfo = []
    samples = []
    with multiprocessing.Pool(NCPU) as pool:
        for name, items in fams:
            cases = pool.map(_expect, items, chunksize=256)
            path = os.path.join(vbuild.BUILD, "scen", "c12-%s-%d.jsonl" % (name, os.getpid()))
            with open(path, "w") as f:
                for cs in cases:
                    f.write(json.dumps(cs, ensure_ascii=True) + "\n")
            cmds = [[exe, "cases=" + path, "shard=%d" % i, "nshards=%d" % NCPU] for i in range(NCPU)]
            res = c.run_many(cmds)
            fi = {"family": name, "cases": 0, "accepted": 0, "rejected": 0, "violations": 0}
            for (rc, val, err), cmd in zip(res, cmds):
                if rc != 0 or val is None:
                    c.violation("ix_manifest shard died rc=%s: %s" % (rc, err[-800:]), {"cmd": cmd})
                    continue
                for k in total:
                    total[k] += val[k]
                for k in ("cases", "accepted", "rejected"):
                    fi[k] += val[k]
                for v in val["violations"]:
                    fi["violations"] += 1
                    case = cases[v["index"]]
                    known = None
                    for f in c.findings:
                        m = f.get("match", {})
                        if m.get("family") and m["family"] != case["family"]:
                            continue
                        txt = case["files"].get("build.ninja", "")
                        if m.get("manifest_regex"):
                            import re
                            if not re.search(m["manifest_regex"], txt):
                                continue
                        known = f
                        break
                    if known:
                        c.known(known["id"], "%s [%s] e.g. %s" % (known["what"], known["id"], case["id"]))
                        continue
                    if len(c.violations) < 12:
                        c.violation("C12 %s: ninja %s but the reference says %s\n--- manifest\n%s" % (
                            case["id"], ("builds\n" + v["got"]) if v["got_kind"] == "ok" else ("rejects: " + v["got"]),
                            " | ".join(e[:300] for e in case["expect"]), case["files"]["build.ninja"][:600]), case)
            samples.append(cases[len(cases) // 2]["files"]["build.ninja"])
            faminfo.append(fi)
            os.unlink(path)
    cov = {
        "evaluations": total["cases"], "distinct_nontrivial": total["accepted"],
        "states": total["accepted"], "transitions": total["cases"], "traces_validated_against_impl": total["cases"],
        "rule": RULE, "manifests_accepted": total["accepted"], "manifests_rejected": total["rejected"],
        "cases_with_more_than_one_permitted_reading": total["unconstrained_cases"],
        "rejections_with_same_file_line_as_reference": total["error_line_agrees"],
        "rejections_with_other_file_line": total["error_line_differs"],
        "families": faminfo, "samples": samples[:4],
    }
    c.finish(cov, assumptions=["reference evaluator lib/refmanifest.py written from doc/manual.asciidoc; name character classes "
                               "follow the lexer where the manual does not spell them out",
                               "$^ needs ninja_required_version >= 1.14 declared earlier in the same file; whether the declaration of an "
                               "including file counts is left open by the manual (both readings permitted); a sibling's never counts"],
             exhaustive=True)
