"""C18: cleaning removes only what ninja built, and all of it."""
import nxprops
import templates_tools

RULE = ("engine A: from every world reached within the history depth of the clean templates (built trees, deleted outputs, "
        "edited sources, manifest variants that remove/rename statements) every clean invocation is run: -t clean, -t clean -g, "
        "-t clean <each target / pairs>, -t clean -r <each rule incl. phony>, -t cleandead, each with and without -n; the set "
        "of files that disappear must equal the reference scope R-clean computed on the true graph (outputs incl. dyndep "
        "outputs when known, depfile, rspfile of the statements in scope; cleandead: build-log paths not named anywhere in "
        "the manifest) restricted to existing files; -n removes nothing and lists the same set; no command runs; the build "
        "after a clean exits 0 and satisfies the clean-build oracle")


def fams(tier):
    return [("clean templates", templates_tools.clean_scenarios(tier), None, None)]


def main(argv):
    nxprops.run_check("C18", argv, ["C18"], RULE, fam_fn=fams)
