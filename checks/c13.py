"""C13: no file content can crash, corrupt or hang ninja."""
import json
import os
import subprocess
import sys

import vbuild
from vcheck import Check, NCPU

ASAN = ["-O1", "-g", "-fsanitize=address,undefined", "-fno-sanitize-recover=all", "-fno-omit-frame-pointer",
        "-DUSE_PPOLL=1", "-std=c++17", "-w", "-D" + vbuild.GUARD + "=1"]

# format -> (quick maxlen, thorough maxlen)
FORMATS = {
    "manifest": (4, 5), "manifest_include": (4, 5), "rule_vars": (6, 7), "version_lines": (5, 6), "depfile": (6, 7), "depfile_load": (5, 6), "dyndep": (5, 6), "dyndep_tools": (4, 5), "ninja_log": (6, 7), "ninja_log_records": (5, 6), "ninja_deps": (4, 5),
    "showincludes": (5, 6), "makeflags": (5, 6), "ninja_status": (5, 6), "status_opt": (5, 6), "elide": (7, 8),
    "canonpath": (8, 10),
}

RULE = ("per input format every token string up to the stated length over the format's token alphabet (see src/ix/fuzzall.cc "
        "Formats()) is processed by the real parser/loader in an AddressSanitizer+UBSan build (-fno-sanitize-recover), each "
        "in a forked worker with a watchdog; plus structural stress cases (self-including manifests by include and subninja, "
        "direct and through an intermediate, include nesting depth 1000, rule and file variable cycles, 300 KiB log line, "
        "deps record at and above the size limit, 20000-line continuation, a directory where an included file, a subninja file, "
        "a depfile or a dyndep file is read). Verdict: no sanitizer report, abort, stack "
        "overflow, uncaught exception or timeout; Fatal()/error returns are fine. non-trivial = inputs the parser accepts")


def build():
    d, objs = vbuild.ninja_objects("asan", flags=ASAN)
    exe = vbuild.harness("ix_fuzzall", ["src/common/simfs.cc", "src/ix/fuzzall.cc"], objs,
                         deps=["src/common/ixutil.h", "src/common/simfs.h"],
                         flags=["-O1", "-g", "-fsanitize=address,undefined", "-fno-sanitize-recover=all", "-std=c++17", "-w",
                                "-fno-access-control", "-fno-omit-frame-pointer"], libs=["-ldl"])
    return exe


def main(argv):
    c = Check("C13", "model_checking", argv)
    exe = build()
    env = dict(os.environ, ASAN_OPTIONS="detect_leaks=0:abort_on_error=1:allocator_may_return_null=0:detect_stack_use_after_return=0",
               UBSAN_OPTIONS="print_stacktrace=1:halt_on_error=1")
    if c.replay:
        r = json.load(open(c.replay))
        if r["format"] == "stress":
            out = subprocess.run([exe, "format=stress", "only=%d" % r["case"]], stdout=subprocess.PIPE, env=env, text=True).stdout
            bad = '"crashes":0' not in out
            print(out)
            sys.exit(1 if bad else 0)
        rc = subprocess.call([exe, "format=" + r["format"], "replay=" + r["input_hex"]], env=env)
        rc2 = subprocess.call([exe, "format=" + r["format"], "replay=" + r["input_hex"]], env=env)
        sys.exit(1 if (rc or rc2) else 0)
    ti = 0 if c.tier == "quick" else 1
    c.set_budget(420 if c.tier == "quick" else 3000)
    total = {"inputs": 0, "accepted": 0, "rejected": 0}
    fams = []
    samples = []
    exhaustive = True
    for fmt, lens in FORMATS.items():
        if c.time_left() < 10:
            fams.append({"format": fmt, "skipped": "deadline"})
            exhaustive = False
            continue
        cmds = [[exe, "format=" + fmt, "maxlen=%d" % lens[ti], "shard=%d" % i, "nshards=%d" % NCPU] for i in range(NCPU)]
        res = c.run_many(cmds, env=env, timeout=max(60, c.time_left()))
        fam = {"format": fmt, "max_tokens": lens[ti], "inputs": 0, "accepted": 0, "rejected": 0, "crashes": 0}
        for (rc, val, err), cmd in zip(res, cmds):
            if rc != 0 or val is None:
                if rc == -999:
                    exhaustive = False
                    fam["timeout"] = True
                    c.notes.append("format %s: a shard hit the time limit; inputs of that shard are not covered" % fmt)
                    continue
                c.harness_error("fuzzall driver failed: %s rc=%s %s" % (" ".join(cmd), rc, err[-1500:]))
            for k in ("inputs", "accepted", "rejected", "crashes"):
                fam[k] += val[k]
            if val.get("stopped_early"):
                exhaustive = False
            if val["crashes"]:
                c.violation("C13: %s input %r crashes / hangs ninja (worker wait status %s); %d such inputs in this shard"
                            % (fmt, bytes.fromhex(val["first_bad"]), val.get("first_bad_status"), val["crashes"]),
                            {"format": fmt, "input_hex": val["first_bad"], "more": val.get("bad_inputs", [])})
        for k in total:
            total[k] += fam[k]
        fams.append(fam)
    # structural stress
    out = c.run_many([[exe, "format=stress"]], env=env, timeout=600)[0]
    if out[1] is None:
        c.harness_error("stress driver failed: %s" % out[2][-1000:])
    if out[1]["crashes"]:
        for item in out[1]["stress_failures"].split("; "):
            idx = int(item.split(":")[0])
            known = None
            for f in c.findings:
                if f.get("match", {}).get("stress_case") and f["match"]["stress_case"] in item:
                    known = f
            if known:
                c.known(known["id"], "%s [%s] e.g. stress case %s" % (known["what"], known["id"], item))
                continue
            c.violation("C13: structural stress case crashes / hangs ninja: %s" % item, {"format": "stress", "case": idx, "what": item})
    fams.append({"format": "stress", "cases": out[1]["inputs"], "crashes": out[1]["crashes"]})
    uniq = {}
    for what, p in c.violations:
        uniq.setdefault(what[:40], (what, p))
    c.violations = list(uniq.values())[:10]
    cov = {
        "evaluations": total["inputs"] + out[1]["inputs"], "distinct_nontrivial": total["accepted"],
        "states": total["accepted"], "transitions": total["inputs"], "traces_validated_against_impl": total["inputs"],
        "rule": RULE, "inputs_accepted": total["accepted"], "inputs_rejected_with_an_error": total["rejected"],
        "families": fams,
        "samples": [{"format": "manifest", "input": "build o: r i\n$x"}, {"format": "ninja_deps", "input_hex": "0c000080ffffffff"}],
    }
    c.finish(cov, assumptions=["GCC AddressSanitizer+UBSan build at -O1; uninitialised reads are not detected (no MSan run)",
                               "long random/mutated inputs are sampling and not part of this check"], exhaustive=exhaustive)
