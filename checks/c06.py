"""C06: concurrency limits hold, no slot idles, the build always finishes."""
import nxprops

RULE = ("same exploration core as C01 over pool/console/parallel templates and generated graphs, -j1/2/3/4: on every "
        "schedule running <= -j, per-pool <= depth, console <= 1, each statement started at most once per manifest cycle, "
        "never 'stuck', never a hang (wait with nothing running), step horizon never hit, and at every wait no statement "
        "that is started later was already startable with a free slot and pool room")


def main(argv):
    nxprops.run_check("C06", argv, ["C06"], RULE)
