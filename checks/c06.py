"""C06: concurrency limits hold, no slot idles, the build always finishes."""
import nxprops
import rbchecks

RULE = ("same exploration core as C01 over pool/console/parallel templates and generated graphs, -j1/2/3/4: on every "
        "schedule running <= -j, per-pool <= depth, console <= 1, each statement started at most once per manifest cycle, "
        "never 'stuck', never a hang (wait with nothing running), step horizon never hit, and at every wait no statement "
        "that is started later was already startable with a free slot and pool room")

RB_RULE = ("; engine B: the unmodified ninja executable as a client of a real FIFO jobserver holding 1-3 tokens, four independent "
           "statements + link, a depth-1 pool, a statement whose start fails, failing commands (with and without touched "
           "outputs, a child dying of SIGINT), -k1/-k0, default and reversed completion order, SIGINT at each of the first "
           "three waits: the number of tokens in the FIFO after ninja exits must equal the number before, on every path; "
           "a command that closes its output at once and runs for 2.6 s next to three 0.15 s commands under -j2: the short ones "
           "must all end well before it does (the real poll loop and waitpid)")


JS_RULE = ("; engine A under a jobserver (seam S6a): ninja's own client code on a real FIFO owned by the harness, whose other "
           "client takes and returns tokens at every wait of ninja (choice points, bounded number of moves): running <= "
           "tokens held + the implicit slot at every start, pool + other client hold every token again after ninja exits on "
           "every path (success, failures, -k0, start failure, child dying of SIGINT, interrupt at every wait), no startable "
           "statement while the pool is readable and not watched, no livelock (step horizon), an explicit -j leaves the pool alone")


def fams(tier):
    import templates_js
    out = nxprops.families(tier)
    out.append(("jobserver pool x other client (engine A)", templates_js.templates(tier), None, None))
    return out


def main(argv):
    nxprops.run_check("C06", argv, ["C06"], RULE + JS_RULE + RB_RULE, fam_fn=fams, process_level=rbchecks.c06_process_level)
