"""C06: concurrency limits hold, no slot idles, the build always finishes."""
import nxprops
import rbchecks

RULE = ("same exploration core as C01 over pool/console/parallel templates and generated graphs, -j1/2/3/4: on every "
        "schedule running <= -j, per-pool <= depth, console <= 1, each statement started at most once per manifest cycle, "
        "never 'stuck', never a hang (wait with nothing running), step horizon never hit, and at every wait no statement "
        "that is started later was already startable with a free slot and pool room")

RB_RULE = ("; engine B: the unmodified ninja executable as a client of a real FIFO jobserver holding 1-3 tokens, four independent "
           "statements + link, a depth-1 pool, a statement whose start fails, failing commands (with and without touched "
           "outputs, a child dying of SIGINT), -k1/-k0, default and reversed completion order, SIGINT at each of the first "
           "three waits: the number of tokens in the FIFO after ninja exits must equal the number before, on every path; "
           "a command that closes its output at once and runs for 2.6 s next to three 0.15 s commands under -j2: the short ones "
           "must all end well before it does (the real poll loop and waitpid)")


def main(argv):
    nxprops.run_check("C06", argv, ["C06"], RULE + RB_RULE, process_level=rbchecks.c06_process_level)
