// In-memory file system behind libc (seam S2/S4 of DESIGN.md, implemented at libc level so that
// ninja's RealDiskInterface, BuildLog, DepsLog, ReplaceContent and Truncate all stay real).
//
// While `vfs::active` is set, every *relative* path given to fopen/stat/mkdir/remove/unlink/
// rename/truncate/chown refers to the current SimDisk; absolute paths go to the real libc.
#ifndef VERIF_SIMFS_H_
#define VERIF_SIMFS_H_

#include <stdint.h>

#include <map>
#include <string>
#include <vector>

namespace vfs {

struct File {
  std::string data;
  int64_t mtime = 0;  // logical ticks (see TickToNs)
  bool dir = false;
  bool operator==(const File& o) const { return data == o.data && mtime == o.mtime && dir == o.dir; }
};

struct Disk {
  std::map<std::string, File> files;
  int64_t now = 1000;  // logical clock; ticks on every mutation
  int64_t Tick() { return ++now; }

  bool Exists(const std::string& p) const { return files.count(p) != 0; }
  const File* Get(const std::string& p) const {
    auto i = files.find(p);
    return i == files.end() ? nullptr : &i->second;
  }
  /// Write a regular file (as a command or an editor would): parent directory must exist.
  /// Returns false (ENOENT/EISDIR) otherwise.
  bool Write(const std::string& p, const std::string& data);
  bool Remove(const std::string& p);  // file or empty directory
  bool ParentOk(const std::string& p) const;
  void MkdirP(const std::string& dir);
};

/// One logical tick = 1.000003 ms, offset to a realistic epoch, so that code that truncates
/// or mangles timestamps is visible.
int64_t TickToNs(int64_t tick);
int64_t NsToTick(int64_t ns);  // inverse for values produced by TickToNs, else -1

enum OpKind { kOpOpenW, kOpWrite, kOpMkdir, kOpRemove, kOpRename, kOpTruncate, kOpOpenA, kOpClose };

struct OpRecord {
  OpKind kind;
  std::string path;
  std::string path2;
};

/// Global hooks used by the explorers.
extern bool active;              // route relative paths to `disk`
extern Disk* disk;               // current world
extern uint64_t manifest_reads;  // times build.ninja was opened for reading in this invocation (manifest cycles)
extern uint64_t op_count;        // mutating operations so far in this invocation
extern int64_t crash_at;         // simulate process death when op_count reaches this (-1: never)
extern int64_t crash_tear;       // for a write op selected by crash_at: bytes of the buffer that still land (-1 = none)
extern int64_t fail_at;          // the op with this index fails with EIO/ENOSPC instead (-1: never)
extern bool dead;                // set once the simulated process has died: all further writes are dropped
extern std::vector<OpRecord>* op_log;  // optional log of mutating operations
extern void (*on_crash)();       // called (must not return) when crash_at fires

void ResetInvocation();          // op_count=0, dead=false, close leaked streams without flushing when dead
void FlushAllStreams();          // what exit() does for stdio streams that are still open
void CloseLeakedStreams();       // drop FILE objects left open by a finished invocation

}  // namespace vfs

#endif
