// Minimal JSON DOM (parse + serialize) for scenario files, replays and results.
// Strings are byte strings: bytes >= 0x80 and control characters are written as \u00XX and read
// back as single bytes (we never need real Unicode here).
#ifndef VERIF_JSON_H_
#define VERIF_JSON_H_

#include <stdint.h>
#include <stdio.h>
#include <stdlib.h>

#include <map>
#include <string>
#include <vector>

namespace js {

struct J {
  enum T { kNull, kBool, kNum, kStr, kArr, kObj } t = kNull;
  bool b = false;
  double n = 0;
  std::string s;
  std::vector<J> a;
  std::vector<std::pair<std::string, J>> o;  // insertion order kept

  J() {}
  J(bool v) : t(kBool), b(v) {}
  J(int v) : t(kNum), n(v) {}
  J(long v) : t(kNum), n((double)v) {}
  J(long long v) : t(kNum), n((double)v) {}
  J(unsigned long v) : t(kNum), n((double)v) {}
  J(unsigned long long v) : t(kNum), n((double)v) {}
  J(double v) : t(kNum), n(v) {}
  J(const char* v) : t(kStr), s(v) {}
  J(const std::string& v) : t(kStr), s(v) {}
  static J Arr() { J j; j.t = kArr; return j; }
  static J Obj() { J j; j.t = kObj; return j; }

  bool is_null() const { return t == kNull; }
  const J* find(const std::string& k) const {
    for (auto& p : o) if (p.first == k) return &p.second;
    return nullptr;
  }
  const J& operator[](const std::string& k) const {
    static J null;
    const J* p = find(k);
    return p ? *p : null;
  }
  J& set(const std::string& k, const J& v) {
    t = kObj;
    for (auto& p : o) if (p.first == k) { p.second = v; return p.second; }
    o.push_back({k, v});
    return o.back().second;
  }
  J& push(const J& v) { t = kArr; a.push_back(v); return a.back(); }
  std::string str(const std::string& def = "") const { return t == kStr ? s : def; }
  long long num(long long def = 0) const { return t == kNum ? (long long)n : t == kBool ? b : def; }
  bool boolean(bool def = false) const { return t == kBool ? b : t == kNum ? n != 0 : def; }
  std::vector<std::string> strs() const {
    std::vector<std::string> r;
    for (auto& x : a) r.push_back(x.s);
    return r;
  }
};

inline void Esc(const std::string& s, std::string* o) {
  char buf[8];
  *o += '"';
  for (unsigned char c : s) {
    if (c == '"') *o += "\\\"";
    else if (c == '\\') *o += "\\\\";
    else if (c == '\n') *o += "\\n";
    else if (c == '\t') *o += "\\t";
    else if (c < 0x20 || c >= 0x7f) { snprintf(buf, sizeof buf, "\\u%04x", c); *o += buf; }
    else *o += (char)c;
  }
  *o += '"';
}

inline void Dump(const J& j, std::string* o) {
  char buf[40];
  switch (j.t) {
    case J::kNull: *o += "null"; break;
    case J::kBool: *o += j.b ? "true" : "false"; break;
    case J::kNum:
      if (j.n == (double)(long long)j.n) snprintf(buf, sizeof buf, "%lld", (long long)j.n);
      else snprintf(buf, sizeof buf, "%.17g", j.n);
      *o += buf;
      break;
    case J::kStr: Esc(j.s, o); break;
    case J::kArr:
      *o += '[';
      for (size_t i = 0; i < j.a.size(); ++i) { if (i) *o += ','; Dump(j.a[i], o); }
      *o += ']';
      break;
    case J::kObj:
      *o += '{';
      for (size_t i = 0; i < j.o.size(); ++i) {
        if (i) *o += ',';
        Esc(j.o[i].first, o);
        *o += ':';
        Dump(j.o[i].second, o);
      }
      *o += '}';
      break;
  }
}
inline std::string Dump(const J& j) { std::string s; Dump(j, &s); return s; }

struct Parser {
  const char* p;
  const char* e;
  bool ok = true;
  void ws() { while (p < e && (*p == ' ' || *p == '\n' || *p == '\t' || *p == '\r')) ++p; }
  std::string pstr() {
    std::string r;
    ++p;  // opening quote
    while (p < e && *p != '"') {
      if (*p == '\\' && p + 1 < e) {
        ++p;
        switch (*p) {
          case 'n': r += '\n'; break;
          case 't': r += '\t'; break;
          case 'r': r += '\r'; break;
          case 'b': r += '\b'; break;
          case 'f': r += '\f'; break;
          case 'u': {
            unsigned v = 0;
            for (int k = 1; k <= 4 && p + k < e; ++k) {
              char c = p[k];
              v = v * 16 + (c <= '9' ? c - '0' : (c | 32) - 'a' + 10);
            }
            p += 4;
            if (v < 0x100) r += (char)v;
            else if (v < 0x800) { r += (char)(0xC0 | (v >> 6)); r += (char)(0x80 | (v & 0x3F)); }
            else { r += (char)(0xE0 | (v >> 12)); r += (char)(0x80 | ((v >> 6) & 0x3F)); r += (char)(0x80 | (v & 0x3F)); }
            break;
          }
          default: r += *p;
        }
        ++p;
      } else {
        r += *p++;
      }
    }
    if (p < e) ++p; else ok = false;
    return r;
  }
  J val() {
    ws();
    J j;
    if (p >= e) { ok = false; return j; }
    if (*p == '{') {
      j.t = J::kObj;
      ++p;
      ws();
      if (p < e && *p == '}') { ++p; return j; }
      while (ok) {
        ws();
        if (p >= e || *p != '"') { ok = false; break; }
        std::string k = pstr();
        ws();
        if (p >= e || *p != ':') { ok = false; break; }
        ++p;
        J v = val();
        j.o.push_back({k, v});
        ws();
        if (p < e && *p == ',') { ++p; continue; }
        if (p < e && *p == '}') { ++p; break; }
        ok = false;
      }
    } else if (*p == '[') {
      j.t = J::kArr;
      ++p;
      ws();
      if (p < e && *p == ']') { ++p; return j; }
      while (ok) {
        j.a.push_back(val());
        ws();
        if (p < e && *p == ',') { ++p; continue; }
        if (p < e && *p == ']') { ++p; break; }
        ok = false;
      }
    } else if (*p == '"') {
      j.t = J::kStr;
      j.s = pstr();
    } else if (*p == 't') { j.t = J::kBool; j.b = true; p += 4; }
    else if (*p == 'f') { j.t = J::kBool; j.b = false; p += 5; }
    else if (*p == 'n') { p += 4; }
    else {
      char* end;
      j.t = J::kNum;
      j.n = strtod(p, &end);
      if (end == p) ok = false;
      p = end;
    }
    return j;
  }
};

inline bool Parse(const std::string& text, J* out) {
  Parser ps{text.data(), text.data() + text.size()};
  *out = ps.val();
  return ps.ok;
}

}  // namespace js

#endif
