// Shared helpers for the bounded-exhaustive input enumerators (engine D).
#ifndef VERIF_IXUTIL_H_
#define VERIF_IXUTIL_H_

#include <stdint.h>
#include <stdio.h>
#include <stdlib.h>
#include <string.h>

#include <string>
#include <vector>

namespace vx {

inline std::string JsonEscape(const std::string& s) {
  std::string o;
  char buf[8];
  for (unsigned char c : s) {
    if (c == '"') o += "\\\"";
    else if (c == '\\') o += "\\\\";
    else if (c == '\n') o += "\\n";
    else if (c == '\t') o += "\\t";
    else if (c < 0x20 || c >= 0x7f) { snprintf(buf, sizeof buf, "\\u%04x", c); o += buf; }
    else o += (char)c;
  }
  return o;
}

inline std::string Hex(const std::string& s) {
  static const char* d = "0123456789abcdef";
  std::string o;
  for (unsigned char c : s) { o += d[c >> 4]; o += d[c & 15]; }
  return o;
}

inline std::string Unhex(const std::string& s) {
  std::string o;
  auto v = [](char c) { return c <= '9' ? c - '0' : (c | 32) - 'a' + 10; };
  for (size_t i = 0; i + 1 < s.size(); i += 2) o += (char)(v(s[i]) * 16 + v(s[i + 1]));
  return o;
}

/// Command line: key=value pairs.
struct Args {
  std::vector<std::pair<std::string, std::string>> kv;
  Args(int argc, char** argv) {
    for (int i = 1; i < argc; ++i) {
      std::string a = argv[i];
      size_t eq = a.find('=');
      if (eq == std::string::npos) kv.push_back({a, "1"});
      else kv.push_back({a.substr(0, eq), a.substr(eq + 1)});
    }
  }
  std::string Get(const std::string& k, const std::string& def = "") const {
    for (auto& p : kv) if (p.first == k) return p.second;
    return def;
  }
  long GetInt(const std::string& k, long def) const {
    std::string v = Get(k);
    return v.empty() ? def : atol(v.c_str());
  }
  bool Has(const std::string& k) const {
    for (auto& p : kv) if (p.first == k) return true;
    return false;
  }
};

/// Odometer over strings of symbols (indices into an alphabet) of a fixed length.
/// Sharding: index of the case modulo `nshards`.
struct Odometer {
  std::vector<int> d;
  int base;
  Odometer(int len, int base) : d(len, 0), base(base) {}
  bool Next() {
    for (int i = (int)d.size() - 1; i >= 0; --i) {
      if (++d[i] < base) return true;
      d[i] = 0;
    }
    return false;
  }
};

}  // namespace vx

#endif
