// Independent readers of ninja's two log formats (reference models R-buildlog / R-depslog,
// written from the documented formats, not from ninja's loaders).  Used for world keys, for the
// "no record for a failed command" and "tools do not change the meaning of the logs" oracles and
// by the log-store explorer.
#ifndef VERIF_LOGPARSE_H_
#define VERIF_LOGPARSE_H_

#include <stdint.h>
#include <string.h>

#include <map>
#include <set>
#include <string>
#include <vector>

namespace lp {

struct BuildEntry {
  int64_t start = 0, end = 0, mtime = 0;
  std::string hash;  // hex text as in the file
  bool operator==(const BuildEntry& o) const { return mtime == o.mtime && hash == o.hash; }
};

struct BuildLogModel {
  bool present = false;
  int version = 0;              // 0 = no/invalid header
  std::map<std::string, BuildEntry> entries;   // last complete line wins
  std::vector<std::string> bad_lines;          // complete lines that do not have 5 fields
  std::string torn_tail;                       // bytes after the last '\n'
  int total_lines = 0;
};

inline bool AllDigits(const std::string& s, bool allow_neg = false) {
  if (s.empty()) return false;
  size_t i = 0;
  if (allow_neg && s[0] == '-') i = 1;
  if (i >= s.size()) return false;
  for (; i < s.size(); ++i) if (s[i] < '0' || s[i] > '9') return false;
  return true;
}

inline BuildLogModel ParseBuildLog(const std::string& data, bool present = true) {
  BuildLogModel m;
  m.present = present;
  size_t pos = 0;
  bool first = true;
  while (pos < data.size()) {
    size_t nl = data.find('\n', pos);
    if (nl == std::string::npos) { m.torn_tail = data.substr(pos); break; }
    std::string line = data.substr(pos, nl - pos);
    pos = nl + 1;
    if (first) {
      first = false;
      const char* sig = "# ninja log v";
      if (line.compare(0, strlen(sig), sig) == 0) {
        m.version = atoi(line.c_str() + strlen(sig));
        continue;
      }
    }
    m.total_lines++;
    // start \t end \t mtime \t output \t hash
    std::vector<std::string> f;
    size_t p = 0;
    for (int k = 0; k < 3; ++k) {
      size_t t = line.find('\t', p);
      if (t == std::string::npos) break;
      f.push_back(line.substr(p, t - p));
      p = t + 1;
    }
    // the output path is written unescaped and may contain TABs itself: the hash is what follows the last one
    size_t lt = line.rfind('\t');
    if (f.size() != 3 || lt == std::string::npos || lt < p) { m.bad_lines.push_back(line); continue; }
    f.push_back(line.substr(p, lt - p));
    p = lt + 1;
    f.push_back(line.substr(p));
    BuildEntry e;
    e.start = atoll(f[0].c_str());
    e.end = atoll(f[1].c_str());
    e.mtime = atoll(f[2].c_str());
    e.hash = f[4];
    m.entries[f[3]] = e;
  }
  return m;
}

struct DepsEntry {
  int64_t mtime = 0;
  std::vector<std::string> deps;
  bool operator==(const DepsEntry& o) const { return mtime == o.mtime && deps == o.deps; }
};

struct DepsLogModel {
  bool present = false;
  bool header_ok = false;
  std::vector<std::string> paths;                 // id -> path
  std::map<std::string, DepsEntry> deps;          // last complete record wins
  size_t good_size = 0;                           // offset of the first malformed/truncated byte
  bool clean = true;                              // whole file parsed
  int records = 0;
};

inline DepsLogModel ParseDepsLog(const std::string& data, bool present = true) {
  DepsLogModel m;
  m.present = present;
  static const char kSig[] = "# ninjadeps\n";
  const size_t sig = sizeof(kSig) - 1;
  if (data.size() < sig + 4 || memcmp(data.data(), kSig, sig) != 0) { m.clean = data.empty(); return m; }
  int32_t ver;
  memcpy(&ver, data.data() + sig, 4);
  if (ver != 4) { m.clean = false; return m; }
  m.header_ok = true;
  size_t pos = sig + 4;
  m.good_size = pos;
  std::set<std::string> seen_paths;
  while (pos < data.size()) {
    if (pos + 4 > data.size()) { m.clean = false; break; }
    uint32_t size;
    memcpy(&size, data.data() + pos, 4);
    bool is_deps = size >> 31;
    size &= 0x7fffffff;
    if (size > (1u << 19) - 1 || pos + 4 + size > data.size()) { m.clean = false; break; }
    const char* rec = data.data() + pos + 4;
    if (is_deps) {
      if (size % 4 || size < 12) { m.clean = false; break; }
      int32_t out_id;
      uint32_t lo, hi;
      memcpy(&out_id, rec, 4);
      memcpy(&lo, rec + 4, 4);
      memcpy(&hi, rec + 8, 4);
      size_t n = size / 4 - 3;
      if (out_id < 0 || (size_t)out_id >= m.paths.size()) { m.clean = false; break; }
      DepsEntry e;
      e.mtime = (int64_t)(((uint64_t)hi << 32) | lo);
      bool bad = false;
      for (size_t i = 0; i < n; ++i) {
        int32_t id;
        memcpy(&id, rec + 12 + 4 * i, 4);
        if (id < 0 || (size_t)id >= m.paths.size()) { bad = true; break; }
        e.deps.push_back(m.paths[id]);
      }
      if (bad) { m.clean = false; break; }
      m.deps[m.paths[out_id]] = e;
    } else {
      if (size % 4 || size < 8) { m.clean = false; break; }
      size_t path_size = size - 4;
      while (path_size > 0 && rec[path_size - 1] == '\0' && size - 4 - path_size < 3) --path_size;
      if (path_size == 0) { m.clean = false; break; }
      uint32_t checksum;
      memcpy(&checksum, rec + size - 4, 4);
      if (checksum != ~(uint32_t)m.paths.size()) { m.clean = false; break; }
      std::string path(rec, path_size);
      if (!seen_paths.insert(path).second) { m.clean = false; break; }   // a path is recorded once: a second id for it is damage
      m.paths.push_back(path);
    }
    m.records++;
    pos += 4 + size;
    m.good_size = pos;
  }
  return m;
}

}  // namespace lp

#endif
