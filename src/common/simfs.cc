// See simfs.h.  libc-level in-memory file system with operation counting, crash and fault
// injection.  Compiled into harness executables; the definitions below take precedence over
// libc's for every call made through the PLT (ninja's objects, libstdc++).
#ifndef _GNU_SOURCE
#define _GNU_SOURCE
#endif
#include "simfs.h"

#include <dlfcn.h>
#include <errno.h>
#include <fcntl.h>
#include <stdarg.h>
#include <stdio.h>
#include <stdlib.h>
#include <string.h>
#include <sys/stat.h>
#include <sys/types.h>
#include <unistd.h>

namespace vfs {

bool active = false;
Disk* disk = nullptr;
uint64_t op_count = 0;
uint64_t manifest_reads = 0;
int64_t crash_at = -1;
int64_t crash_tear = -1;
int64_t fail_at = -1;
bool dead = false;
std::vector<OpRecord>* op_log = nullptr;
void (*on_crash)() = nullptr;

static const int64_t kEpochNs = 1700000000LL * 1000000000LL + 123456789LL;
static const int64_t kTickNs = 1000003LL;

int64_t TickToNs(int64_t tick) { return kEpochNs + tick * kTickNs; }
int64_t NsToTick(int64_t ns) {
  if (ns < kEpochNs) return -1;
  int64_t d = ns - kEpochNs;
  if (d % kTickNs) return -1;
  return d / kTickNs;
}

static std::string Norm(const char* p) {
  std::vector<std::string> st;
  std::string s(p), cur;
  for (size_t i = 0; i <= s.size(); ++i) {
    if (i == s.size() || s[i] == '/') {
      if (cur == "..") {
        if (!st.empty() && st.back() != "..") st.pop_back(); else st.push_back(cur);
      } else if (!cur.empty() && cur != ".") {
        st.push_back(cur);
      }
      cur.clear();
    } else {
      cur += s[i];
    }
  }
  std::string r;
  for (size_t i = 0; i < st.size(); ++i) { if (i) r += '/'; r += st[i]; }
  if (r.empty()) r = ".";
  return r;
}

static std::string Parent(const std::string& p) {
  size_t i = p.rfind('/');
  return i == std::string::npos ? std::string(".") : p.substr(0, i);
}

// 0 = ok (all ancestors are directories), else errno.
static int AncestorsErr(const Disk& d, const std::string& p) {
  std::string par = Parent(p);
  if (par == ".") return 0;
  // every prefix must be a directory
  size_t pos = 0;
  while (true) {
    size_t j = par.find('/', pos);
    std::string pre = j == std::string::npos ? par : par.substr(0, j);
    if (pre != "..") {
      const File* f = d.Get(pre);
      if (!f) return ENOENT;
      if (!f->dir) return ENOTDIR;
    }
    if (j == std::string::npos) break;
    pos = j + 1;
  }
  return 0;
}

bool Disk::ParentOk(const std::string& p) const { return AncestorsErr(*this, Norm(p.c_str())) == 0; }

bool Disk::Write(const std::string& path, const std::string& data) {
  std::string p = Norm(path.c_str());
  if (AncestorsErr(*this, p)) return false;
  auto it = files.find(p);
  if (it != files.end() && it->second.dir) return false;
  File& f = files[p];
  f.data = data;
  f.dir = false;
  f.mtime = Tick();
  return true;
}

bool Disk::Remove(const std::string& path) {
  std::string p = Norm(path.c_str());
  auto it = files.find(p);
  if (it == files.end()) return false;
  if (it->second.dir) {
    auto n = std::next(it);
    if (n != files.end() && n->first.compare(0, p.size() + 1, p + "/") == 0) return false;
  }
  files.erase(it);
  Tick();
  return true;
}

void Disk::MkdirP(const std::string& dir) {
  std::string p = Norm(dir.c_str());
  if (p == ".") return;
  size_t pos = 0;
  while (true) {
    size_t j = p.find('/', pos);
    std::string pre = j == std::string::npos ? p : p.substr(0, j);
    if (!files.count(pre)) { File& f = files[pre]; f.dir = true; f.mtime = Tick(); }
    if (j == std::string::npos) break;
    pos = j + 1;
  }
}

// ---- operation accounting ---------------------------------------------------------------

static void CheckDead() {
  if (dead && on_crash) on_crash();
}

// Returns: 0 proceed, 1 fail this op with EIO, 2 the process dies *at* this op (op not performed,
// except for the torn part of a write which the caller handles).
static int CountOp(OpKind k, const std::string& a, const std::string& b = std::string()) {
  CheckDead();
  int64_t idx = (int64_t)op_count++;
  if (op_log) op_log->push_back({k, a, b});
  if (idx == crash_at) { dead = true; return 2; }
  if (idx == fail_at) return 1;
  return 0;
}

// ---- streams ----------------------------------------------------------------------------------

struct Stream {
  std::string path;
  bool can_write = false, append = false;
  size_t pos = 0;
  int fakefd = 0;
  FILE* fp = nullptr;
  bool open = false;
};

static const int kFakeFdBase = 0x40000000;
static std::vector<Stream*> streams;

static Stream* StreamOfFd(int fd) {
  int i = fd - kFakeFdBase;
  if (fd < kFakeFdBase || i >= (int)streams.size()) return nullptr;
  return streams[i]->open ? streams[i] : nullptr;
}
static Stream* StreamOfFile(FILE* f) {
  for (Stream* s : streams) if (s->open && s->fp == f) return s;
  return nullptr;
}

static ssize_t CookieRead(void* c, char* buf, size_t size) {
  Stream* s = (Stream*)c;
  const File* f = disk->Get(s->path);
  if (!f) return 0;
  if (f->dir) { errno = EISDIR; return -1; }
  if (s->pos >= f->data.size()) return 0;
  size_t n = std::min(size, f->data.size() - s->pos);
  memcpy(buf, f->data.data() + s->pos, n);
  s->pos += n;
  return (ssize_t)n;
}

static ssize_t CookieWrite(void* c, const char* buf, size_t size) {
  Stream* s = (Stream*)c;
  if (dead) return (ssize_t)size;  // the process is gone; nothing reaches the disk
  int64_t idx = (int64_t)op_count++;
  if (op_log) op_log->push_back({kOpWrite, s->path, std::string()});
  size_t landed = size;
  if (idx == crash_at) {
    dead = true;
    landed = crash_tear < 0 ? 0 : std::min<size_t>(size, (size_t)crash_tear);
  } else if (idx == fail_at) {
    errno = ENOSPC;
    return 0;  // fopencookie: 0 signals a write error
  }
  auto it = disk->files.find(s->path);
  if (it == disk->files.end()) {
    // File was unlinked/renamed while open: writes go to the orphaned inode, i.e. nowhere visible.
    return (ssize_t)size;
  }
  File& f = it->second;
  if (s->append) s->pos = f.data.size();
  if (s->pos > f.data.size()) f.data.resize(s->pos, '\0');
  f.data.replace(s->pos, std::min(landed, f.data.size() - s->pos), buf, landed);
  s->pos += landed;
  f.mtime = disk->Tick();
  return (ssize_t)size;
}

static int CookieSeek(void* c, off64_t* off, int whence) {
  Stream* s = (Stream*)c;
  const File* f = disk->Get(s->path);
  size_t size = f ? f->data.size() : 0;
  int64_t base = whence == SEEK_SET ? 0 : whence == SEEK_CUR ? (int64_t)s->pos : (int64_t)size;
  int64_t np = base + *off;
  if (np < 0) { errno = EINVAL; return -1; }
  s->pos = (size_t)np;
  *off = np;
  return 0;
}

static int CookieClose(void* c) {
  Stream* s = (Stream*)c;
  s->open = false;
  s->fp = nullptr;
  return 0;
}

static FILE* OpenVirtual(const char* path, const char* mode) {
  CheckDead();
  std::string p = Norm(path);
  bool w = mode[0] == 'w', a = mode[0] == 'a', r = mode[0] == 'r';
  bool plus = strchr(mode, '+') != nullptr;
  int e = AncestorsErr(*disk, p);
  if (e) { errno = e; return nullptr; }
  auto it = disk->files.find(p);
  if (r) {
    if (it == disk->files.end()) { errno = ENOENT; return nullptr; }
    // (the real fopen() opens a directory for reading and the first fread() fails with EISDIR: the same to ninja's ReadFile)
    if (it->second.dir) { errno = EISDIR; return nullptr; }
    if (p == "build.ninja") manifest_reads++;
  } else {
    if (it != disk->files.end() && it->second.dir) { errno = EISDIR; return nullptr; }
    int c = CountOp(w ? kOpOpenW : kOpOpenA, p);
    if (c == 1) { errno = EIO; return nullptr; }
    if (c == 2) { CheckDead(); return nullptr; }
    if (it == disk->files.end()) {
      File& f = disk->files[p];
      f.mtime = disk->Tick();
    } else if (w) {
      it->second.data.clear();
      it->second.mtime = disk->Tick();
    }
  }
  Stream* s = nullptr;
  for (Stream* t : streams) if (!t->open) { s = t; break; }
  if (!s) {
    s = new Stream;
    s->fakefd = kFakeFdBase + (int)streams.size();
    streams.push_back(s);
  }
  s->path = p;
  s->can_write = !r || plus;
  s->append = a;
  s->pos = 0;
  s->open = true;
  cookie_io_functions_t io = {CookieRead, CookieWrite, CookieSeek, CookieClose};
  s->fp = fopencookie(s, mode, io);
  if (!s->fp) { s->open = false; return nullptr; }
  return s->fp;
}

void FlushAllStreams() {
  for (Stream* s : streams)
    if (s->open && s->fp) fflush(s->fp);
}

void CloseLeakedStreams() {
  // After a crash the FILE may have been abandoned in the middle of an operation: pending buffered
  // data must not land (dead is still set by the caller while we close).
  for (Stream* s : streams)
    if (s->open && s->fp) {
      FILE* f = s->fp;
      fclose(f);
      s->open = false;
      s->fp = nullptr;
    }
}

void ResetInvocation() {
  op_count = 0;
  manifest_reads = 0;
  dead = false;
}

}  // namespace vfs

// ---- libc entry points --------------------------------------------------------------------------

using namespace vfs;

template <typename F>
static F Next(const char* name) {
  void* p = dlsym(RTLD_NEXT, name);
  if (!p) { fprintf(stderr, "simfs: dlsym(%s) failed\n", name); abort(); }
  return (F)p;
}

static bool Virtual(const char* path) { return active && path && path[0] != '/'; }

static void FillStat(const File& f, struct stat* st) {
  memset(st, 0, sizeof *st);
  st->st_mode = f.dir ? (S_IFDIR | 0755) : (S_IFREG | 0644);
  st->st_nlink = 1;
  st->st_size = (off_t)f.data.size();
  int64_t ns = f.mtime == -1 ? 0 : TickToNs(f.mtime);   // -1: exactly the epoch (scenario op "epoch")
  st->st_mtim.tv_sec = ns / 1000000000LL;
  st->st_mtim.tv_nsec = ns % 1000000000LL;
  st->st_ctim = st->st_atim = st->st_mtim;
  st->st_blksize = 4096;
}

static int VStat(const char* path, struct stat* st) {
  CheckDead();
  std::string p = Norm(path);
  if (p == ".") { File d; d.dir = true; d.mtime = 1; FillStat(d, st); return 0; }
  int e = AncestorsErr(*disk, p);
  if (e) { errno = e; return -1; }
  const File* f = disk->Get(p);
  if (!f) { errno = ENOENT; return -1; }
  FillStat(*f, st);
  return 0;
}

extern "C" {

FILE* fopen(const char* path, const char* mode) {
  if (Virtual(path)) return OpenVirtual(path, mode);
  static auto real = Next<FILE* (*)(const char*, const char*)>("fopen");
  return real(path, mode);
}

FILE* fopen64(const char* path, const char* mode) {
  if (Virtual(path)) return OpenVirtual(path, mode);
  static auto real = Next<FILE* (*)(const char*, const char*)>("fopen64");
  return real(path, mode);
}

int fileno(FILE* f) {
  if (Stream* s = StreamOfFile(f)) return s->fakefd;
  static auto real = Next<int (*)(FILE*)>("fileno");
  return real(f);
}

int stat(const char* path, struct stat* st) {
  if (Virtual(path)) return VStat(path, st);
  static auto real = Next<int (*)(const char*, struct stat*)>("stat");
  return real(path, st);
}

int stat64(const char* path, struct stat64* st) {
  if (Virtual(path)) return VStat(path, (struct stat*)st);
  static auto real = Next<int (*)(const char*, struct stat64*)>("stat64");
  return real(path, st);
}

int lstat(const char* path, struct stat* st) {
  if (Virtual(path)) return VStat(path, st);
  static auto real = Next<int (*)(const char*, struct stat*)>("lstat");
  return real(path, st);
}

int fstat(int fd, struct stat* st) {
  if (Stream* s = StreamOfFd(fd)) {
    const File* f = disk->Get(s->path);
    File empty;
    FillStat(f ? *f : empty, st);
    return 0;
  }
  static auto real = Next<int (*)(int, struct stat*)>("fstat");
  return real(fd, st);
}

int fstat64(int fd, struct stat64* st) {
  if (StreamOfFd(fd)) return fstat(fd, (struct stat*)st);
  static auto real = Next<int (*)(int, struct stat64*)>("fstat64");
  return real(fd, st);
}

int fcntl(int fd, int cmd, ...) {
  va_list ap;
  va_start(ap, cmd);
  long arg = va_arg(ap, long);
  va_end(ap);
  if (StreamOfFd(fd)) return 0;
  static auto real = Next<int (*)(int, int, ...)>("fcntl");
  return real(fd, cmd, arg);
}

int fcntl64(int fd, int cmd, ...) {
  va_list ap;
  va_start(ap, cmd);
  long arg = va_arg(ap, long);
  va_end(ap);
  if (StreamOfFd(fd)) return 0;
  static auto real = Next<int (*)(int, int, ...)>("fcntl64");
  return real(fd, cmd, arg);
}

int mkdir(const char* path, mode_t mode) {
  if (!Virtual(path)) {
    static auto real = Next<int (*)(const char*, mode_t)>("mkdir");
    return real(path, mode);
  }
  std::string p = Norm(path);
  int e = AncestorsErr(*disk, p);
  if (e) { errno = e; return -1; }
  if (disk->Exists(p) || p == ".") { errno = EEXIST; return -1; }
  int c = CountOp(kOpMkdir, p);
  if (c == 1) { errno = EIO; return -1; }
  if (c == 2) { CheckDead(); return -1; }
  File& f = disk->files[p];
  f.dir = true;
  f.mtime = disk->Tick();
  return 0;
}

static int VRemove(const char* path, bool allow_dir) {
  std::string p = Norm(path);
  int e = AncestorsErr(*disk, p);
  if (e) { errno = e; return -1; }
  auto it = disk->files.find(p);
  if (it == disk->files.end()) { errno = ENOENT; return -1; }
  if (it->second.dir) {
    if (!allow_dir) { errno = EISDIR; return -1; }
    auto n = std::next(it);
    if (n != disk->files.end() && n->first.compare(0, p.size() + 1, p + "/") == 0) {
      errno = ENOTEMPTY;
      return -1;
    }
  }
  int c = CountOp(kOpRemove, p);
  if (c == 1) { errno = EIO; return -1; }
  if (c == 2) { CheckDead(); return -1; }
  disk->files.erase(p);
  disk->Tick();
  return 0;
}

int remove(const char* path) {
  if (Virtual(path)) return VRemove(path, true);
  static auto real = Next<int (*)(const char*)>("remove");
  return real(path);
}

int unlink(const char* path) {
  if (Virtual(path)) return VRemove(path, false);
  static auto real = Next<int (*)(const char*)>("unlink");
  return real(path);
}

int rename(const char* from, const char* to) {
  if (!Virtual(from) && !Virtual(to)) {
    static auto real = Next<int (*)(const char*, const char*)>("rename");
    return real(from, to);
  }
  std::string a = Norm(from), b = Norm(to);
  int e = AncestorsErr(*disk, a);
  if (!e) e = AncestorsErr(*disk, b);
  if (e) { errno = e; return -1; }
  auto it = disk->files.find(a);
  if (it == disk->files.end()) { errno = ENOENT; return -1; }
  auto jt = disk->files.find(b);
  if (jt != disk->files.end() && jt->second.dir != it->second.dir) {
    errno = jt->second.dir ? EISDIR : ENOTDIR;
    return -1;
  }
  int c = CountOp(kOpRename, a, b);
  if (c == 1) { errno = EIO; return -1; }
  if (c == 2) { CheckDead(); return -1; }
  File f = it->second;
  disk->files.erase(it);
  disk->files[b] = f;  // rename keeps the mtime of the source
  disk->Tick();
  return 0;
}

static int VTruncate(const char* path, off_t size) {
  std::string p = Norm(path);
  auto it = disk->files.find(p);
  if (it == disk->files.end()) { errno = ENOENT; return -1; }
  if (it->second.dir) { errno = EISDIR; return -1; }
  int c = CountOp(kOpTruncate, p);
  if (c == 1) { errno = EIO; return -1; }
  if (c == 2) { CheckDead(); return -1; }
  it->second.data.resize((size_t)size, '\0');
  it->second.mtime = disk->Tick();
  return 0;
}

int truncate(const char* path, off_t size) {
  if (Virtual(path)) return VTruncate(path, size);
  static auto real = Next<int (*)(const char*, off_t)>("truncate");
  return real(path, size);
}

int truncate64(const char* path, off64_t size) {
  if (Virtual(path)) return VTruncate(path, (off_t)size);
  static auto real = Next<int (*)(const char*, off64_t)>("truncate64");
  return real(path, size);
}

int chown(const char* path, uid_t u, gid_t g) {
  if (Virtual(path)) { CheckDead(); return disk->Exists(Norm(path)) ? 0 : (errno = ENOENT, -1); }
  static auto real = Next<int (*)(const char*, uid_t, gid_t)>("chown");
  return real(path, u, g);
}

}  // extern "C"
