// Engine C, C09: explicit-state search over operation sequences on the real DepsLog (Load /
// OpenForWrite / RecordDeps / Close / Recompact), every tear offset of every reached file, garbage
// tails over a word alphabet, and continuations.  Reference model: lp::ParseDepsLog.
#include <setjmp.h>
#include <stdio.h>
#include <string.h>

#include <deque>
#include <memory>
#include <set>
#include <unordered_set>

#include "deps_log.h"
#include "graph.h"
#include "ixutil.h"
#include "logparse.h"
#include "simfs.h"
#include "state.h"
#include "vjson.h"

using namespace std;
using js::J;

static const char* kPath = ".ninja_deps";
static vector<string> g_outs = {"o1", "o2x", "o3"};   // o3 is a second output of o1's statement
static vector<string> g_deps = {"d", "de", "dep", "deps"};  // every padding case (len mod 4 = 1,2,3,0)

typedef map<string, lp::DepsEntry> DepsMap;

struct World {
  unique_ptr<State> state;
  World(const set<string>& live) : state(new State) {
    // every live output gets a build statement with deps = gcc (so recompaction keeps it)
    Rule* r = new Rule("cc");
    EvalString cmd; cmd.AddText("cc");
    r->AddBinding("command", cmd);
    EvalString deps; deps.AddText("gcc");
    r->AddBinding("deps", deps);
    state->bindings_.AddRule(std::unique_ptr<const Rule>(r));
    // a second rule without a deps binding: the build statement supplies "deps = gcc" itself
    Rule* r2 = new Rule("cc_nodeps");
    EvalString cmd2; cmd2.AddText("cc");
    r2->AddBinding("command", cmd2);
    state->bindings_.AddRule(std::unique_ptr<const Rule>(r2));
    Edge* o1_edge = nullptr;
    for (auto& o : live) {
      bool build_level = o == "o2x";
      if (o == "o3" && o1_edge) {
        // a statement with two outputs: both have records of their own, both are live as long as the statement uses deps
        string err2;
        state->AddOut(o1_edge, o, 0, &err2);
        continue;
      }
      Edge* e = state->AddEdge(build_level ? r2 : r);
      if (o == "o1") o1_edge = e;
      if (build_level) {
        BindingEnv* env = new BindingEnv(&state->bindings_);
        env->AddBinding("deps", "gcc");
        e->env_ = env;
      }
      string err;
      state->AddOut(e, o, 0, &err);
    }
  }
};

static DepsMap DepsOf(DepsLog& log) {
  DepsMap m;
  for (size_t id = 0; id < log.nodes().size(); ++id) {
    Node* n = log.nodes()[id];
    DepsLog::Deps* d = log.GetDeps(n);
    if (!d) continue;
    lp::DepsEntry e;
    e.mtime = d->mtime;
    for (int i = 0; i < d->node_count; ++i) e.deps.push_back(d->nodes[i]->path());
    m[n->path()] = e;
  }
  return m;
}

static string Dump(const DepsMap& m) {
  string s;
  for (auto& kv : m) {
    s += kv.first + "@" + to_string(kv.second.mtime) + "<";
    for (auto& d : kv.second.deps) s += (d.size() > 12 ? d.substr(0, 6) + "..(" + to_string(d.size()) + ")" : d) + ",";
    s += "> ";
  }
  return s;
}

struct Rec { int out; int64_t mtime; vector<int> deps; };
struct Op {
  enum Kind { kSession, kRecompact, kLoadOnly, kBurst } kind = kSession;
  vector<Rec> recs;
  set<string> live = {"o1", "o2x", "o3"};
  string label;
};

struct Viol { string clause, detail; };

static jmp_buf g_crash_jmp;
static void OnCrashLx() { longjmp(g_crash_jmp, 1); }

struct Harness {
  vector<Viol> viols;
  uint64_t ops = 0, loads = 0;
  string long_path;

  void Bad(const string& c, const string& d) { if (viols.size() < 10) viols.push_back({c, d}); }
  string Bytes(const vfs::Disk& d) { const vfs::File* f = d.Get(kPath); return f ? f->data : string(); }
  string DepName(int i) const { return i == 99 ? long_path : g_deps[i]; }

  /// O1 + O4.  `strict_tail`: the bytes come from real writes + a tear, so the reference decides
  /// exactly where the first malformed byte is.
  bool CheckLoad(vfs::Disk* d, DepsMap* out, const string& when, bool strict = true) {
    vfs::disk = d;
    bool existed = d->Get(kPath) != nullptr;
    string bytes = Bytes(*d);
    lp::DepsLogModel model = lp::ParseDepsLog(bytes);
    World w({"o1", "o2x", "o3"});
    DepsLog log;
    string err;
    LoadStatus st = log.Load(kPath, w.state.get(), &err);
    loads++;
    if (st == LOAD_ERROR) { Bad("load-error", when + ": Load returned LOAD_ERROR: " + err); return false; }
    DepsMap got = DepsOf(log);
    for (size_t i = 0; i < log.nodes().size(); ++i)
      if (!log.nodes()[i] || log.nodes()[i]->id() != (int)i) Bad("ids-inconsistent", when + ": nodes_[i]->id() != i");
    if (out) *out = got;
    if (!existed) {
      if (st != LOAD_NOT_FOUND) Bad("load-missing", when + ": missing file not reported as not found");
      return true;
    }
    if (!model.header_ok) {
      if (!got.empty()) Bad("entries-from-bad-header", when + ": entries loaded from a file without a valid header");
      if (d->Get(kPath) && !bytes.empty() && strict)
        Bad("bad-header-file-kept", when + ": file without a valid header was not discarded");
      return true;
    }
    DepsMap want(model.deps.begin(), model.deps.end());
    if (strict) {
      if (got != want)
        Bad("load-differs-from-model", when + ": loaded {" + Dump(got) + "} but the complete records say {" + Dump(want) + "}");
      size_t size_after = Bytes(*d).size();
      if (!model.clean && size_after != model.good_size)
        Bad("torn-tail-not-cut-off", when + ": file is " + to_string(size_after) + " bytes after recovery, the last complete record ends at " +
                                         to_string(model.good_size));
      if (model.clean && size_after != bytes.size()) Bad("clean-file-truncated", when + ": a fully valid file was truncated");
    } else {
      // damage of unknown shape: every record of the valid prefix that the reference accepts must
      // survive unless a later accepted record replaces it; nothing may be lost.
      for (auto& kv : want) {
        auto it = got.find(kv.first);
        if (it == got.end()) Bad("record-before-damage-lost", when + ": deps of '" + kv.first + "' lost");
      }
    }
    return true;
  }

  uint64_t crash_points = 0;
  bool sweep_crashes = true;

  /// The process dies at every mutating file operation of a recompaction (a write may land partly):
  /// whatever is on disk afterwards must still give every live output the dependencies most
  /// recently recorded for it, and must invent nothing.
  void RecompactCrashSweep(const vfs::Disk& d0, const Op& op, const DepsMap& before, const string& when) {
    vector<vfs::OpRecord> oplog;
    {
      vfs::Disk c = d0;
      vfs::disk = &c;
      vfs::ResetInvocation();
      vfs::op_log = &oplog;
      World w(op.live);
      DepsLog log;
      string err;
      if (log.Load(kPath, w.state.get(), &err) != LOAD_ERROR && c.Get(kPath)) log.Recompact(kPath, &err);
      vfs::op_log = nullptr;
    }
    for (size_t k = 0; k < oplog.size(); ++k) {
      for (int tear : {-1, 5}) {
        if (tear >= 0 && oplog[k].kind != vfs::kOpWrite) continue;
        vfs::Disk c = d0;
        vfs::disk = &c;
        vfs::ResetInvocation();
        vfs::crash_at = (int64_t)k;
        vfs::crash_tear = tear;
        vfs::on_crash = OnCrashLx;
        if (!setjmp(g_crash_jmp)) {
          // heap objects: a simulated death must not run destructors that would flush to the disk
          World* w = new World(op.live);
          DepsLog* log = new DepsLog;
          string err;
          if (log->Load(kPath, w->state.get(), &err) != LOAD_ERROR) log->Recompact(kPath, &err);
          vfs::dead = true;
        }
        vfs::dead = true;
        vfs::CloseLeakedStreams();
        vfs::ResetInvocation();
        vfs::crash_at = -1;
        vfs::crash_tear = -1;
        vfs::on_crash = nullptr;
        crash_points++;
        string at = when + " killed at file operation " + to_string(k) + "/" + to_string(oplog.size()) +
                    (tear >= 0 ? " (5 bytes of the write land)" : "");
        DepsMap got;
        vfs::Disk probe = c;
        CheckLoad(&probe, &got, at, false);
        for (auto& kv : before) {
          if (!op.live.count(kv.first)) continue;
          auto it = got.find(kv.first);
          if (it == got.end()) { Bad("recompaction-crash-loses-records", at + ": the deps of '" + kv.first + "' are gone; on disk: " + Files(c)); break; }
          if (!(it->second == kv.second)) { Bad("recompaction-crash-changes-records", at + ": deps of '" + kv.first + "' changed"); break; }
        }
        for (auto& kv : got) {
          auto it = before.find(kv.first);
          if (it == before.end() || !(it->second == kv.second)) { Bad("recompaction-crash-invents-records", at + ": '" + kv.first + "'"); break; }
        }
        // Life goes on after the crash: a session records newer deps, then a recompaction succeeds.  A
        // temporary file left behind by the killed recompaction must not leak into it.
        if (c.Get(string(kPath) + ".recompact") && tear < 0) {
          bool saved = sweep_crashes;
          sweep_crashes = false;
          vfs::Disk c2 = c;
          Op sess;
          sess.recs = {{0, 8, {1}}};
          sess.label = "session(o1@8<de>)";
          Op rec;
          rec.kind = Op::kRecompact;
          rec.label = "recompact(live={o1,o2x})";
          Apply(sess, &c2, at + " then " + sess.label);
          Apply(rec, &c2, at + " then " + sess.label + " then " + rec.label);
          sweep_crashes = saved;
          ops -= 2;
        }
      }
    }
    vfs::disk = nullptr;
  }
  static string Files(const vfs::Disk& d) {
    string s;
    for (auto& kv : d.files) s += kv.first + "(" + to_string(kv.second.data.size()) + ") ";
    return s;
  }

  void Apply(const Op& op, vfs::Disk* d, const string& when) {
    ops++;
    vfs::disk = d;
    if (op.kind == Op::kLoadOnly) { CheckLoad(d, nullptr, when); return; }
    DepsMap before;
    {
      vfs::Disk probe = *d;
      CheckLoad(&probe, &before, when + " (pre-load)");
      vfs::disk = d;
    }
    if (op.kind == Op::kRecompact) {
      if (!d->Get(kPath)) return;
      if (sweep_crashes) { RecompactCrashSweep(*d, op, before, when); vfs::disk = d; }
      World w(op.live);
      DepsLog log;
      string err;
      if (log.Load(kPath, w.state.get(), &err) == LOAD_ERROR) { Bad("load-error", when); return; }
      if (!d->Get(kPath)) return;
      if (!log.Recompact(kPath, &err)) { Bad("recompact-failed", when + ": " + err); return; }
      DepsMap mem = DepsOf(log);
      DepsMap after;
      vfs::Disk probe = *d;
      if (!CheckLoad(&probe, &after, when + " (re-load)")) return;
      vfs::disk = d;
      DepsMap expect;
      for (auto& kv : before) if (op.live.count(kv.first)) expect[kv.first] = kv.second;
      if (after != expect)
        Bad("recompact-changed-entries", when + ": after recompaction {" + Dump(after) + "} expected {" + Dump(expect) + "}");
      if (mem != after) Bad("memory-vs-reload", when + ": in-memory state after recompaction differs from the reloaded file");
      if (d->Get(string(kPath) + ".recompact")) Bad("temp-file-left", when + ": temp file left behind");
      lp::DepsLogModel m2 = lp::ParseDepsLog(Bytes(*d));
      if (!m2.clean) Bad("recompact-wrote-damaged-file", when);
      return;
    }
    // session / burst
    World w(op.live);
    DepsLog log;
    string err;
    if (log.Load(kPath, w.state.get(), &err) == LOAD_ERROR) { Bad("load-error", when + ": " + err); return; }
    if (!log.OpenForWrite(kPath, &err)) { Bad("open-for-write", when + ": " + err); return; }
    DepsMap expect = before;
    vector<Rec> recs = op.recs;
    if (op.kind == Op::kBurst)
      for (int i = 0; i < 1002; ++i) recs.push_back({0, 1000 + i, {i & 1}});
    set<string> written;
    for (auto& r : recs) {
      Node* out = w.state->GetNode(g_outs[r.out], 0);
      vector<Node*> nodes;
      lp::DepsEntry e;
      e.mtime = r.mtime;
      for (int di : r.deps) { nodes.push_back(w.state->GetNode(DepName(di), 0)); e.deps.push_back(DepName(di)); }
      if (!log.RecordDeps(out, r.mtime, nodes)) { Bad("record-failed", when + ": RecordDeps failed"); return; }
      expect[g_outs[r.out]] = e;
      written.insert(g_outs[r.out]);
    }
    DepsMap mem = DepsOf(log);
    log.Close();
    DepsMap after;
    vfs::Disk probe = *d;
    if (!CheckLoad(&probe, &after, when + " (re-load)")) return;
    vfs::disk = d;
    // automatic recompaction (burst) may drop outputs that are not live -- only those
    for (auto it = expect.begin(); it != expect.end();)
      if (!op.live.count(it->first) && !written.count(it->first) && !after.count(it->first)) it = expect.erase(it); else ++it;
    if (after != expect) {
      string lost;
      for (auto& kv : expect) {
        auto it = after.find(kv.first);
        if (it == after.end() || !(it->second == kv.second)) lost += kv.first + " ";
      }
      Bad(lost.empty() ? "unexpected-entries-after-session" : "acknowledged-or-kept-record-lost",
          when + ": after the session the next load sees {" + Dump(after) + "} expected {" + Dump(expect) + "}");
    }
    if (mem != after) Bad("memory-vs-reload", when + ": in-memory state at close {" + Dump(mem) + "} != reloaded {" + Dump(after) + "}");
    lp::DepsLogModel m2 = lp::ParseDepsLog(Bytes(*d));
    if (d->Get(kPath) && !m2.clean) Bad("session-left-damaged-file", when + ": the file is not well-formed after a completed session");
  }
};

static vector<Op> MainAlphabet(bool thorough, bool with_long) {
  vector<Op> a;
  auto sess = [&](vector<Rec> r, string label) { Op o; o.recs = r; o.label = label; a.push_back(o); };
  sess({}, "session()");
  sess({{0, 5, {0}}}, "session(o1@5<d>)");
  sess({{0, 6, {1, 2}}}, "session(o1@6<de,dep>)");
  sess({{0, 6, {1, 3}}}, "session(o1@6<de,deps>)");
  sess({{0, 5, {}}}, "session(o1@5<>)");
  sess({{0, 6, {2, 2}}}, "session(o1@6<dep,dep>)");   // one file named twice in a list (two spellings of a header in a depfile)
  sess({{1, 0x100000007LL, {3, 0}}}, "session(o2x@2^32+7<deps,d>)");
  sess({{1, 5, {2}}}, "session(o2x@5<dep>)");
  sess({{0, 7, {3}}, {1, 7, {0}}}, "session(o1@7<deps> ; o2x@7<d>)");
  sess({{0, 6, {1}}, {2, 6, {1, 0}}}, "session(o1@6<de> ; o3@6<de,d>)");   // both outputs of the two-output statement
  if (thorough) {
    sess({{0, 5, {0, 1, 2, 3}}}, "session(o1@5<d,de,dep,deps>)");
    sess({{0, 5, {0}}, {0, 5, {0}}}, "session(o1@5<d> twice)");
    sess({{1, -1, {1}}}, "session(o2x@-1<de>)");
  }
  if (with_long) sess({{0, 9, {99}}}, "session(o1@9<path at the record size limit>)");
  { Op o; o.kind = Op::kRecompact; o.label = "recompact(live={o1,o2x})"; a.push_back(o); }
  { Op o; o.kind = Op::kRecompact; o.live = {"o1", "o3"}; o.label = "recompact(live={o1,o3})"; a.push_back(o); }
  { Op o; o.kind = Op::kRecompact; o.live = {}; o.label = "recompact(live={})"; a.push_back(o); }
  { Op o; o.kind = Op::kBurst; o.label = "burst(1002 x o1)"; a.push_back(o); }
  { Op o; o.kind = Op::kBurst; o.live = {"o1", "o3"}; o.label = "burst(1002 x o1; live={o1,o3})"; a.push_back(o); }
  return a;
}

static vector<Op> ContAlphabet() {
  vector<Op> a;
  { Op o; o.kind = Op::kLoadOnly; o.label = "load"; a.push_back(o); }
  { Op o; o.label = "session()"; a.push_back(o); }
  { Op o; o.recs = {{0, 8, {1}}}; o.label = "session(o1@8<de>)"; a.push_back(o); }
  { Op o; o.recs = {{1, 8, {0, 3}}}; o.label = "session(o2x@8<d,deps>)"; a.push_back(o); }
  { Op o; o.kind = Op::kRecompact; o.label = "recompact(live={o1,o2x})"; a.push_back(o); }
  return a;
}

int main(int argc, char** argv) {
  vx::Args args(argc, argv);
  int depth = (int)args.GetInt("depth", 2);
  bool thorough = args.GetInt("thorough", 0) != 0;
  bool with_long = args.GetInt("long", 0) != 0;
  int cont_depth = (int)args.GetInt("cont", 2);
  int garbage_words = (int)args.GetInt("garbage", 2);
  long shard = args.GetInt("shard", 0), nshards = args.GetInt("nshards", 1);
  vfs::active = true;
  Harness H;
  H.long_path = string((1 << 19) - 1 - 4 - 3, 'P');  // path record of the maximal size
  vector<Op> alpha = MainAlphabet(thorough, with_long), cont = ContAlphabet();
  if (args.GetInt("maxdeps", 0) != 0) {
    // A dependency *list* at the record size limit (2^19 - 1 bytes = 3 words + 131068 ids): for every length around it,
    // either RecordDeps refuses (and nothing malformed is written) or the record comes back on the next load; the
    // records of the same session before and after it survive in both cases.
    J mv = J::Arr();
    uint64_t n_cases = 0;
    if (shard == 0)
    for (int n = 131066; n <= 131074; ++n) {
      vfs::Disk d;
      vfs::disk = &d;
      bool ok_big = false;
      {
        World w({"o1", "o2x", "o3"});
        DepsLog log;
        string err;
        log.OpenForWrite(kPath, &err);
        vector<Node*> nodes;
        for (int i = 0; i < n; ++i) nodes.push_back(w.state->GetNode("d" + to_string(i), 0));
        Node* o1 = w.state->GetNode("o1", 0);
        Node* o2 = w.state->GetNode("o2x", 0);
        vector<Node*> one(1, nodes[0]), two(1, nodes[1]);
        bool a = log.RecordDeps(o2, 1, one);
        ok_big = log.RecordDeps(o1, 5, nodes);
        bool b = log.RecordDeps(o2, 7, two);
        log.Close();
        if (!a || !b) H.Bad("maxdeps-small-record-refused", "n=" + to_string(n) + ": an ordinary record was refused");
      }
      DepsMap got;
      H.CheckLoad(&d, &got, "list of " + to_string(n) + " dependencies", true);
      ++n_cases;
      auto i2 = got.find("o2x");
      if (i2 == got.end() || i2->second.mtime != 7 || i2->second.deps != vector<string>(1, "d1"))
        H.Bad("acknowledged-record-lost", "list of " + to_string(n) + " dependencies for o1 (RecordDeps returned " + (ok_big ? "true" : "false") +
              "): the record of o2x written afterwards in the same session is not returned by the next load");
      auto i1 = got.find("o1");
      if (ok_big && (i1 == got.end() || (int)i1->second.deps.size() != n))
        H.Bad("acknowledged-record-lost", "RecordDeps accepted a list of " + to_string(n) + " dependencies but the next load returns " +
              (i1 == got.end() ? string("no record") : to_string(i1->second.deps.size()) + " dependencies") + " for o1");
      if (!ok_big && i1 != got.end()) H.Bad("refused-record-present", "RecordDeps refused " + to_string(n) + " dependencies but a record for o1 is in the log");
    }
    for (auto& v : H.viols) { J o = J::Obj(); o.set("clause", v.clause); o.set("detail", v.detail.substr(0, 700)); o.set("trail", J::Arr()); mv.push(o); }
    J out = J::Obj();
    out.set("states", (long long)n_cases); out.set("transitions", (long long)n_cases); out.set("tears", 0LL); out.set("continuations", 0LL);
    out.set("ops", (long long)(3 * n_cases)); out.set("loads", (long long)H.loads); out.set("garbage_tails", 0LL); out.set("crash_points", 0LL);
    out.set("violations", mv); out.set("samples", J::Arr());
    printf("%s\n", js::Dump(out).c_str());
    return 0;
  }
  J viols = J::Arr();
  J samples = J::Arr();
  uint64_t states = 0, transitions = 0, tears = 0, conts = 0, garbage = 0;

  auto report = [&](const vector<string>& trail) {
    for (auto& v : H.viols) {
      if (viols.a.size() >= 40) break;
      J o = J::Obj();
      o.set("clause", v.clause);
      o.set("detail", v.detail.substr(0, 700));
      J t = J::Arr();
      for (auto& s : trail) t.push(s);
      o.set("trail", t);
      viols.push(o);
    }
    H.viols.clear();
  };

  auto apply_label = [&](const string& lab, vfs::Disk* d) -> bool {
    if (lab.compare(0, 5, "tear@") == 0) {
      auto it = d->files.find(kPath);
      if (it != d->files.end()) it->second.data.resize(atol(lab.c_str() + 5));
      { vfs::Disk probe = *d; H.CheckLoad(&probe, nullptr, "load after " + lab); }
      return true;
    }
    if (lab.compare(0, 8, "garbage:") == 0) {
      auto it = d->files.find(kPath);
      if (it != d->files.end()) it->second.data += vx::Unhex(lab.substr(8));
      { vfs::Disk probe = *d; H.CheckLoad(&probe, nullptr, "load after " + lab, false); }
      return true;
    }
    for (auto* al : {&alpha, &cont})
      for (auto& op : *al)
        if (op.label == lab) { H.Apply(op, d, lab); return true; }
    return false;
  };

  if (args.Has("replay")) {
    string r = args.Get("replay");
    vfs::Disk d;
    size_t i = 0;
    while (i <= r.size()) {
      size_t j = r.find('|', i);
      if (j == string::npos) j = r.size();
      string lab = r.substr(i, j - i);
      i = j + 1;
      if (lab.empty()) continue;
      if (!apply_label(lab, &d)) { fprintf(stderr, "unknown op %s\n", lab.c_str()); return 2; }
      const vfs::File* f = d.Get(kPath);
      printf("after %-44s deps log=%zu bytes, violations so far %zu\n", lab.substr(0, 44).c_str(), f ? f->data.size() : 0, H.viols.size());
    }
    for (auto& v : H.viols) printf("VIOLATION %s: %s\n", v.clause.c_str(), v.detail.substr(0, 500).c_str());
    return H.viols.empty() ? 0 : 1;
  }

  // word alphabet for garbage tails
  vector<uint32_t> words = {0, 1, 4, 8, 12, 16, 0x80000000u, 0x80000004u, 0x80000008u, 0x8000000cu, 0x80000010u,
                            0x7fffffffu, 0xffffffffu, ~0u, ~1u, ~2u, ~7u, 2, 3, 0xfffffffeu};
  struct Node { vfs::Disk disk; vector<string> trail; int depth; };
  deque<Node> frontier;
  unordered_set<string> seen;
  { Node n; n.depth = 0; frontier.push_back(n); seen.insert("\x01none"); }
  uint64_t state_index = 0;
  while (!frontier.empty()) {
    Node n = frontier.front();
    frontier.pop_front();
    states++;
    bool mine = (long)(state_index++ % nshards) == shard;
    const vfs::File* f = n.disk.Get(kPath);
    size_t size = f ? f->data.size() : 0;
    if (mine && size) {
      for (size_t o = 0; o < size; ++o) {
        if (size > 8192) {
          bool near = o < 64 || o + 64 >= size;
          // record boundaries of the big file are found with the reference parser
          if (!near && o % 4096) continue;
        }
        tears++;
        Node t = n;
        t.disk.files[kPath].data.resize(o);
        t.trail.push_back("tear@" + to_string(o));
        { vfs::Disk probe = t.disk; H.CheckLoad(&probe, nullptr, "load after tear@" + to_string(o)); }
        report(t.trail);
        for (auto& c1 : cont) {
          H.sweep_crashes = true;
          Node t1 = t;
          t1.trail.push_back(c1.label);
          H.Apply(c1, &t1.disk, c1.label);
          conts++;
          report(t1.trail);
          if (cont_depth >= 2)
            for (auto& c2 : cont) {
              H.sweep_crashes = false;   // crash sweeps: clean states and the first step after a tear
              Node t2 = t1;
              t2.trail.push_back(c2.label);
              H.Apply(c2, &t2.disk, c2.label);
              conts++;
              report(t2.trail);
              if (cont_depth >= 3 && c2.kind != Op::kRecompact)
                for (auto& c3 : cont) {
                  if (c3.kind == Op::kRecompact) continue;
                  Node t3 = t2;
                  t3.trail.push_back(c3.label);
                  H.Apply(c3, &t3.disk, c3.label);
                  conts++;
                  report(t3.trail);
                }
            }
        }
        if (samples.a.size() < 3 && o == size / 2) {
          J s = J::Arr();
          for (auto& x : t.trail) s.push(x);
          samples.push(s);
        }
      }
      // garbage tails behind the valid file: word sequences and short byte tails
      if (size <= 8192) {
        vector<string> tails;
        for (uint32_t w1 : words) {
          string a((const char*)&w1, 4);
          tails.push_back(a);
          if (garbage_words >= 2)
            for (uint32_t w2 : words) tails.push_back(a + string((const char*)&w2, 4));
        }
        for (int b = 0; b < 3; ++b) {
          static const char* bt[] = {"\x00", "\xff\xff", "\x01\x00\x00"};
          tails.push_back(string(bt[b], b + 1));
        }
        {
          // complete, plausible records with exactly one damaged field (what an interleaved write
          // from a second process, or a flipped word, looks like)
          lp::DepsLogModel cur = lp::ParseDepsLog(f->data);
          uint32_t next_id = (uint32_t)cur.paths.size();
          auto W = [](uint32_t w) { return string((const char*)&w, 4); };
          tails.push_back(W(8) + "newp" + W(~(next_id + 1)));          // path record, checksum of the wrong id
          tails.push_back(W(8) + "newp" + W(~next_id) + W(8) + "new2" + W(~next_id));  // second one repeats the id
          tails.push_back(W(8) + "new\0" + W(next_id));               // checksum not complemented
          if (next_id > 0) {
            tails.push_back(W(0x80000010u) + W(0) + W(9) + W(0) + W(next_id));       // deps record naming an unknown id
            tails.push_back(W(0x80000010u) + W(next_id + 3) + W(9) + W(0) + W(0));   // unknown output id
            tails.push_back(W(0x80000010u) + W(next_id) + W(9) + W(0) + W(0));       // the first id that does not exist yet
            tails.push_back(W(0x8000000cu) + W(next_id) + W(9) + W(0));              // the same without dependencies
            tails.push_back(W(0x8000000eu) + W(0) + W(9) + W(0) + string("\0\0", 2)); // size not a multiple of 4
            tails.push_back(W(8) + cur.paths[0].substr(0, 4) + string(4 - std::min<size_t>(4, cur.paths[0].size()), '\0') + W(~next_id));  // duplicate path
          }
        }
        for (auto& tail : tails) {
          garbage++;
          Node t = n;
          t.disk.files[kPath].data += tail;
          t.trail.push_back("garbage:" + vx::Hex(tail));
          { vfs::Disk probe = t.disk; H.CheckLoad(&probe, nullptr, "load after garbage", false); }
          report(t.trail);
          for (auto& c1 : cont) {
            Node t1 = t;
            t1.trail.push_back(c1.label);
            H.Apply(c1, &t1.disk, c1.label);
            conts++;
            report(t1.trail);
          }
        }
      }
    }
    if (n.depth >= depth) continue;
    for (auto& op : alpha) {
      Node m = n;
      m.trail.push_back(op.label);
      m.depth = n.depth + 1;
      H.sweep_crashes = true;
      H.Apply(op, &m.disk, op.label);
      transitions++;
      if (shard == 0) report(m.trail); else H.viols.clear();
      const vfs::File* g = m.disk.Get(kPath);
      string key = g ? g->data : string("\x01none");
      if (!seen.insert(key).second) continue;
      frontier.push_back(m);
    }
  }
  J out = J::Obj();
  out.set("states", states);
  out.set("transitions", transitions);
  out.set("tears", tears);
  out.set("garbage_tails", garbage);
  out.set("crash_points", H.crash_points);
  out.set("continuations", conts);
  out.set("ops", H.ops);
  out.set("loads", H.loads);
  out.set("violations", viols);
  out.set("samples", samples);
  printf("%s\n", js::Dump(out).c_str());
  return 0;
}
