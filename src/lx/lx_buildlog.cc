// Engine C, C08: explicit-state search over operation sequences on the real BuildLog
// (Load / OpenForWrite / RecordCommand / Close / Recompact / Restat / version handling), with the
// log held in the in-memory file system, every tear offset of every reached file, and
// continuations after the tear.  Reference model: lp::ParseBuildLog (independent reader).
#include <setjmp.h>
#include <stdio.h>
#include <string.h>

#include <deque>
#include <functional>
#include <memory>
#include <set>
#include <tuple>
#include <unordered_set>

#include "build_log.h"
#include "disk_interface.h"
#include "graph.h"
#include "ixutil.h"
#include "logparse.h"
#include "simfs.h"
#include "state.h"
#include "vjson.h"

using namespace std;
using js::J;

static const char* kPath = ".ninja_log";
static const size_t kReaderBuffer = 256 << 10;  // lines at least this long are skipped (BuildLogTest.VeryLongInputLine)

// ---- edges to record ---------------------------------------------------------------------------
struct EdgeDef {
  string name;
  vector<string> outs;
};
static vector<EdgeDef> g_edges;
static BindingEnv g_env;
static Rule* g_rules[2];
static vector<unique_ptr<Edge>> g_edge_objs;  // index = edge*2 + cmd
static vector<unique_ptr<Node>> g_nodes;

static void SetupEdges(bool with_long) {
  g_edges.push_back({"E1", {"a"}});
  g_edges.push_back({"E2", {"b", "c c"}});
  if (with_long) g_edges.push_back({"E3", {string(300 << 10, 'L')}});
  // a name longer than any fixed line buffer a writer might use, far below the reader's limit: written and read back like any other
  if (with_long) g_edges.push_back({"E4", {string(1500, 'M')}});
  for (int c = 0; c < 2; ++c) {
    g_rules[c] = new Rule(c ? "r2" : "r1");
    EvalString cmd;
    cmd.AddText(c ? "command-two" : "command-one");
    g_rules[c]->AddBinding("command", cmd);
  }
  for (auto& e : g_edges)
    for (int c = 0; c < 2; ++c) {
      Edge* ed = new Edge();
      ed->rule_ = g_rules[c];
      ed->env_ = &g_env;
      ed->pool_ = &State::kDefaultPool;
      for (auto& o : e.outs) {
        g_nodes.emplace_back(new Node(o, 0));
        ed->outputs_.push_back(g_nodes.back().get());
      }
      g_edge_objs.emplace_back(ed);
    }
}

struct DeadSet : public BuildLogUser {
  set<string> dead;
  bool IsPathDead(StringPiece s) const override { return dead.count(s.AsString()) > 0; }
};

// ---- operations ----------------------------------------------------------------------------------
struct Rec { int edge, cmd; int64_t mtime; };
struct Op {
  enum Kind { kSession, kRecompact, kRestat, kLoadOnly, kBurst, kSetHeader } kind = kSession;
  vector<Rec> recs;           // kSession
  set<string> dead;           // kSession (auto recompaction) / kRecompact
  vector<string> restat;      // kRestat: outputs (empty = all)
  string header;              // kSetHeader: replace the first line
  string label;
};

struct Entry { int64_t mtime; uint64_t hash; bool operator==(const Entry& o) const { return mtime == o.mtime && hash == o.hash; } };
typedef map<string, Entry> Entries;

static Entries EntriesOf(const BuildLog& log) {
  Entries e;
  for (auto& kv : log.entries()) e[kv.first.AsString()] = {kv.second->mtime, kv.second->command_hash};
  return e;
}

/// R-buildlog on bytes -> what a load must yield.  Returns false in *usable when the file must be
/// discarded (bad / missing version header).
static Entries ModelOf(const string& bytes, bool* usable) {
  lp::BuildLogModel m = lp::ParseBuildLog(bytes);
  *usable = m.version == 7;
  Entries e;
  if (!*usable) return e;
  // Re-walk the complete lines to honour the reader's buffer limit.
  size_t pos = 0;
  bool first = true;
  while (pos < bytes.size()) {
    size_t nl = bytes.find('\n', pos);
    if (nl == string::npos) break;
    string line = bytes.substr(pos, nl - pos);
    pos = nl + 1;
    if (first) { first = false; continue; }
    if (line.size() + 1 >= kReaderBuffer) continue;
    vector<string> f;
    size_t p = 0;
    for (int k = 0; k < 4; ++k) {
      size_t t = line.find('\t', p);
      if (t == string::npos) break;
      f.push_back(line.substr(p, t - p));
      p = t + 1;
    }
    if (f.size() != 4) continue;
    e[f[3]] = {strtoll(f[2].c_str(), NULL, 10), (uint64_t)strtoull(line.c_str() + p, NULL, 16)};
  }
  return e;
}

struct Viol { string clause, detail; };

static jmp_buf g_crash_jmp;
static void OnCrashLx() { longjmp(g_crash_jmp, 1); }

struct Ctx {
  vfs::Disk disk;
  vector<string> trail;       // labels of operations so far (for the replay)
};

static string Dump(const Entries& e) {
  string s;
  for (auto& kv : e) {
    char b[64];
    snprintf(b, sizeof b, "@%lld#%llx ", (long long)kv.second.mtime, (unsigned long long)kv.second.hash);
    s += (kv.first.size() > 20 ? kv.first.substr(0, 8) + "..(" + to_string(kv.first.size()) + ")" : kv.first) + b;
  }
  return s;
}

static bool g_stop_on_first = false;

typedef set<tuple<string, int64_t, uint64_t>> Attempted;

struct Harness {
  vector<Viol> viols;
  uint64_t ops = 0, loads = 0;
  Attempted* attempted = nullptr;   // records written so far on the current path

  void Bad(const string& clause, const string& detail) {
    if (viols.size() < 10) viols.push_back({clause, detail});
  }

  string Bytes(const vfs::Disk& d) { const vfs::File* f = d.Get(kPath); return f ? f->data : string(); }

  /// O1: loading never fails and yields the model of the bytes.  Returns loaded entries.
  bool CheckLoad(vfs::Disk* d, Entries* out, const string& when) {
    vfs::disk = d;
    bool existed = d->Get(kPath) != nullptr;
    string bytes = Bytes(*d);
    bool usable;
    Entries model = ModelOf(bytes, &usable);
    BuildLog log;
    string err;
    LoadStatus st = log.Load(kPath, &err);
    loads++;
    if (st == LOAD_ERROR) { Bad("load-error", when + ": Load returned LOAD_ERROR: " + err); return false; }
    Entries got = EntriesOf(log);
    if (!existed) {
      if (st != LOAD_NOT_FOUND || !got.empty()) Bad("load-missing", when + ": missing file not reported as LOAD_NOT_FOUND");
    } else if (bytes.empty()) {
      if (!got.empty()) Bad("load-empty", when + ": entries from an empty file");
    } else if (!usable && bytes.find('\n') == string::npos &&
               string("# ninja log v7\n").compare(0, bytes.size(), bytes) == 0) {
      // Only a torn prefix of a valid header reached the disk: no record exists; keeping the
      // file (as an empty log) and discarding it are both fine.
      if (!got.empty()) Bad("entries-from-torn-header", when + ": entries loaded from a torn header");
    } else if (!usable) {
      // unsupported / damaged header: discarded, reported as not found, file removed
      if (st != LOAD_NOT_FOUND || !got.empty())
        Bad("bad-version-not-discarded", when + ": log with an unsupported header was not discarded (status " + to_string(st) + ")");
      if (d->Get(kPath)) Bad("bad-version-file-kept", when + ": log with an unsupported header was not removed");
    } else if (got != model) {
      Bad("load-differs-from-model", when + ": loaded {" + Dump(got) + "} but the complete lines say {" + Dump(model) + "}");
    }
    if (out) *out = got;
    return true;
  }

  /// Applies op to the disk, checking the per-operation oracles.
  uint64_t crash_points = 0;
  bool sweep_crashes = true;

  /// The process dies at every mutating file operation of a recompaction / restat (a write may land
  /// partly): whatever is on disk afterwards must still hold, for every output that is not dead, the
  /// record it had before or the one the operation was about to write -- never nothing.
  void MaintenanceCrashSweep(const vfs::Disk& d0, const Op& op, const Entries& before, const Entries& target,
                             const string& when) {
    auto run = [&](bool heap) {
      BuildLog* log = new BuildLog;
      string err;
      if (log->Load(kPath, &err) != LOAD_ERROR && vfs::disk->Get(kPath)) {
        if (op.kind == Op::kRecompact) {
          DeadSet user;
          user.dead = op.dead;
          log->Recompact(kPath, user, &err);
        } else {
          RealDiskInterface di;
          vector<char*> argv;
          vector<string> store = op.restat;
          for (auto& x : store) argv.push_back(&x[0]);
          log->Restat(kPath, di, (int)argv.size(), argv.data(), &err);
        }
      }
      if (!heap) delete log;
    };
    vector<vfs::OpRecord> oplog;
    {
      vfs::Disk c = d0;
      vfs::disk = &c;
      vfs::ResetInvocation();
      vfs::op_log = &oplog;
      run(false);
      vfs::op_log = nullptr;
    }
    for (size_t k = 0; k < oplog.size(); ++k) {
      for (int tear : {-1, 7}) {
        if (tear >= 0 && oplog[k].kind != vfs::kOpWrite) continue;
        vfs::Disk c = d0;
        vfs::disk = &c;
        vfs::ResetInvocation();
        vfs::crash_at = (int64_t)k;
        vfs::crash_tear = tear;
        vfs::on_crash = OnCrashLx;
        if (!setjmp(g_crash_jmp)) run(true);   // objects leak on purpose: a dead process runs no destructors
        vfs::dead = true;
        vfs::CloseLeakedStreams();
        vfs::ResetInvocation();
        vfs::crash_at = -1;
        vfs::crash_tear = -1;
        vfs::on_crash = nullptr;
        crash_points++;
        string at = when + " killed at file operation " + to_string(k) + "/" + to_string(oplog.size()) +
                    (tear >= 0 ? " (7 bytes of the write land)" : "");
        Entries got;
        vfs::Disk probe = c;
        CheckLoad(&probe, &got, at);
        for (auto& kv : before) {
          if (op.kind == Op::kRecompact && op.dead.count(kv.first)) continue;
          if (kv.first.size() + 40 >= kReaderBuffer) continue;
          auto it = got.find(kv.first);
          auto tg = target.find(kv.first);
          if (it == got.end()) {
            string files;
            for (auto& f : c.files) files += f.first + "(" + to_string(f.second.data.size()) + ") ";
            Bad("maintenance-crash-loses-records", at + ": the record of '" + kv.first + "' is gone; on disk: " + files);
            break;
          }
          if (!(it->second == kv.second) && !(tg != target.end() && it->second == tg->second)) {
            Bad("maintenance-crash-changes-records", at + ": the record of '" + kv.first + "' is neither the old nor the new one");
            break;
          }
        }
      }
    }
    vfs::disk = nullptr;
  }

  void Apply(const Op& op, vfs::Disk* d, const string& when) {
    ops++;
    vfs::disk = d;
    switch (op.kind) {
      case Op::kLoadOnly: {
        CheckLoad(d, nullptr, when);
        break;
      }
      case Op::kSetHeader: {
        auto it = d->files.find(kPath);
        if (it == d->files.end()) return;
        size_t nl = it->second.data.find('\n');
        if (nl == string::npos) return;
        it->second.data = op.header + it->second.data.substr(nl + 1);
        CheckLoad(d, nullptr, when);
        break;
      }
      case Op::kSession:
      case Op::kBurst: {
        Entries before;
        {
          vfs::Disk probe = *d;  // what a load sees (the real session below loads again)
          CheckLoad(&probe, &before, when + " (pre-load)");
          vfs::disk = d;
        }
        BuildLog log;
        string err;
        DeadSet user;
        user.dead = op.dead;
        LoadStatus st = log.Load(kPath, &err);
        if (st == LOAD_ERROR) { Bad("load-error", when + ": " + err); return; }
        if (!log.OpenForWrite(kPath, user, &err)) { Bad("open-for-write", when + ": " + err); return; }
        Entries expect = before;
        // automatic recompaction may drop dead outputs -- and only those
        bool may_recompact = true;
        vector<Rec> recs = op.recs;
        if (op.kind == Op::kBurst)
          for (int i = 0; i < 102; ++i) recs.push_back({0, i & 1, 100 + i});
        for (auto& r : recs) {
          Edge* e = g_edge_objs[r.edge * 2 + r.cmd].get();
          if (!log.RecordCommand(e, 1, 2, r.mtime)) { Bad("record-failed", when + ": RecordCommand failed"); return; }
          uint64_t h = BuildLog::LogEntry::HashCommand(e->EvaluateCommand(true));
          for (auto& o : g_edges[r.edge].outs) {
            expect[o] = {r.mtime, h};
            if (attempted) attempted->insert(make_tuple(o, r.mtime, h));
          }
        }
        Entries mem = EntriesOf(log);
        log.Close();
        // O2: what the next session loads
        Entries after;
        vfs::Disk probe = *d;
        if (!CheckLoad(&probe, &after, when + " (re-load)")) return;
        vfs::disk = d;
        (void)may_recompact;
        set<string> written;
        for (auto& r : recs) for (auto& o : g_edges[r.edge].outs) written.insert(o);
        for (auto& kv : expect) {
          bool dead = op.dead.count(kv.first) && !written.count(kv.first);
          auto it = after.find(kv.first);
          bool long_line = kv.first.size() + 40 >= kReaderBuffer;
          if (long_line) continue;  // documented reader limit: such records are never loaded
          if (it == after.end()) {
            if (!dead)
              Bad(written.count(kv.first) ? "acknowledged-record-lost" : "entry-lost",
                  when + ": '" + kv.first + "' has no entry after the session (expected @" + to_string(kv.second.mtime) + ")");
          } else if (!(it->second == kv.second)) {
            if (!written.count(kv.first)) {
              // A torn record that becomes a complete line may override an older entry: harmless when
              // it makes the output look out of date (a hash never recorded for it) or when it is
              // exactly a record that had been written for this output (completed before the crash).
              bool real_hash = false;
              for (auto& eo : g_edge_objs)
                if (BuildLog::LogEntry::HashCommand(eo->EvaluateCommand(true)) == it->second.hash) real_hash = true;
              bool attempted_pair = attempted && attempted->count(make_tuple(kv.first, it->second.mtime, it->second.hash));
              if (!real_hash || attempted_pair) continue;
            }
            char b[200];
            snprintf(b, sizeof b, "expected @%lld#%llx, loaded @%lld#%llx", (long long)kv.second.mtime,
                     (unsigned long long)kv.second.hash, (long long)it->second.mtime, (unsigned long long)it->second.hash);
            Bad(written.count(kv.first) ? "acknowledged-record-lost" : "entry-changed",
                when + ": '" + kv.first + "' " + b);
          }
        }
        for (auto& kv : after) {
          if (expect.count(kv.first)) continue;
          bool real_name = false;
          for (auto& e : g_edges) for (auto& o : e.outs) if (o == kv.first) real_name = true;
          if (!real_name) continue;
          bool real_hash = false;
          for (auto& eo : g_edge_objs)
            if (BuildLog::LogEntry::HashCommand(eo->EvaluateCommand(true)) == kv.second.hash) real_hash = true;
          bool attempted_pair = attempted && attempted->count(make_tuple(kv.first, kv.second.mtime, kv.second.hash));
          if (real_hash && !attempted_pair)
            Bad("entry-from-nowhere", when + ": '" + kv.first + "' gained an up-to-date looking entry that was never recorded");
        }
        // in-memory state at close == state after re-load (for names that fit the reader)
        for (auto& kv : mem) {
          if (kv.first.size() + 40 >= kReaderBuffer) continue;
          auto it = after.find(kv.first);
          if (it != after.end() && it->second == kv.second) continue;
          if (it != after.end() && !written.count(kv.first)) {
            // same tolerance as above: a torn record completed into a line of its own
            bool real_hash = false;
            for (auto& eo : g_edge_objs)
              if (BuildLog::LogEntry::HashCommand(eo->EvaluateCommand(true)) == it->second.hash) real_hash = true;
            bool attempted_pair = attempted && attempted->count(make_tuple(kv.first, it->second.mtime, it->second.hash));
            if (!real_hash || attempted_pair) continue;
          }
          Bad("memory-vs-reload", when + ": in-memory entry of '" + kv.first + "' differs from what the next load sees");
        }
        break;
      }
      case Op::kRecompact: {
        Entries before;
        {
          vfs::Disk probe = *d;
          CheckLoad(&probe, &before, when + " (pre-load)");
          vfs::disk = d;
        }
        if (!d->Get(kPath)) return;
        if (sweep_crashes) { MaintenanceCrashSweep(*d, op, before, before, when); vfs::disk = d; }
        BuildLog log;
        string err;
        if (log.Load(kPath, &err) == LOAD_ERROR) { Bad("load-error", when); return; }
        if (!d->Get(kPath)) return;  // discarded by the version rule
        DeadSet user;
        user.dead = op.dead;
        if (!log.Recompact(kPath, user, &err)) { Bad("recompact-failed", when + ": " + err); return; }
        Entries after;
        vfs::Disk probe = *d;
        if (!CheckLoad(&probe, &after, when + " (re-load)")) return;
        vfs::disk = d;
        Entries expect;
        for (auto& kv : before) if (!op.dead.count(kv.first)) expect[kv.first] = kv.second;
        for (auto it = expect.begin(); it != expect.end();)
          if (it->first.size() + 40 >= kReaderBuffer) it = expect.erase(it); else ++it;
        if (after != expect)
          Bad("recompact-changed-entries", when + ": after recompaction {" + Dump(after) + "} expected {" + Dump(expect) + "}");
        if (d->Get(string(kPath) + ".recompact")) Bad("temp-file-left", when + ": .recompact temp file left behind");
        break;
      }
      case Op::kRestat: {
        Entries before;
        {
          vfs::Disk probe = *d;
          CheckLoad(&probe, &before, when + " (pre-load)");
          vfs::disk = d;
        }
        if (!d->Get(kPath)) return;
        if (sweep_crashes) {
          Entries target = before;
          for (auto& kv : target) {
            bool sel = op.restat.empty() || find(op.restat.begin(), op.restat.end(), kv.first) != op.restat.end();
            if (!sel) continue;
            const vfs::File* f = d->Get(kv.first);
            kv.second.mtime = f ? vfs::TickToNs(f->mtime) : 0;
          }
          MaintenanceCrashSweep(*d, op, before, target, when);
          vfs::disk = d;
        }
        BuildLog log;
        string err;
        if (log.Load(kPath, &err) == LOAD_ERROR) { Bad("load-error", when); return; }
        if (!d->Get(kPath)) return;
        RealDiskInterface di;
        vector<char*> argv;
        vector<string> store = op.restat;
        for (auto& s : store) argv.push_back(&s[0]);
        if (!log.Restat(kPath, di, (int)argv.size(), argv.data(), &err)) { Bad("restat-failed", when + ": " + err); return; }
        Entries after;
        vfs::Disk probe = *d;
        if (!CheckLoad(&probe, &after, when + " (re-load)")) return;
        vfs::disk = d;
        Entries expect = before;
        for (auto& kv : expect) {
          bool sel = op.restat.empty() || find(op.restat.begin(), op.restat.end(), kv.first) != op.restat.end();
          if (!sel) continue;
          const vfs::File* f = d->Get(kv.first);
          kv.second.mtime = f ? vfs::TickToNs(f->mtime) : 0;
        }
        for (auto it = expect.begin(); it != expect.end();)
          if (it->first.size() + 40 >= kReaderBuffer) it = expect.erase(it); else ++it;
        if (attempted)
          for (auto& kv : expect) attempted->insert(make_tuple(kv.first, kv.second.mtime, kv.second.hash));
        if (after != expect)
          Bad("restat-changed-more-than-mtimes", when + ": after restat {" + Dump(after) + "} expected {" + Dump(expect) + "}");
        break;
      }
    }
  }
};

static vector<Op> MainAlphabet(bool with_long, bool thorough) {
  vector<Op> a;
  auto sess = [&](vector<Rec> r, string label, set<string> dead = {}) {
    Op o; o.kind = Op::kSession; o.recs = r; o.label = label; o.dead = dead; a.push_back(o);
  };
  sess({}, "session()");
  for (int e = 0; e < 2; ++e)
    for (int c = 0; c < 2; ++c)
      for (int64_t m : {11, 22}) {
        if (!thorough && m == 22 && c == 1) continue;
        sess({{e, c, m}}, "session(" + g_edges[e].name + ",cmd" + to_string(c + 1) + ",mtime" + to_string(m) + ")");
      }
  sess({{0, 0, 11}, {1, 1, 22}}, "session(E1,cmd1,mtime11 ; E2,cmd2,mtime22)");
  if (with_long) sess({{2, 0, 11}}, "session(E3-300KiB-name,cmd1,mtime11)");
  if (with_long) sess({{3, 0, 11}, {0, 0, 22}}, "session(E4-1500-char-name,cmd1,mtime11 ; E1,cmd1,mtime22)");
  { Op o; o.kind = Op::kRecompact; o.label = "recompact(dead={})"; a.push_back(o); }
  { Op o; o.kind = Op::kRecompact; o.dead = {"a"}; o.label = "recompact(dead={a})"; a.push_back(o); }
  { Op o; o.kind = Op::kRecompact; o.dead = {"b"}; o.label = "recompact(dead={b})"; a.push_back(o); }
  { Op o; o.kind = Op::kRestat; o.label = "restat(all)"; a.push_back(o); }
  { Op o; o.kind = Op::kRestat; o.restat = {"a"}; o.label = "restat(a)"; a.push_back(o); }
  { Op o; o.kind = Op::kBurst; o.label = "burst(102 x E1)"; a.push_back(o); }
  { Op o; o.kind = Op::kBurst; o.dead = {"b"}; o.label = "burst(102 x E1; dead={b})"; a.push_back(o); }
  for (const char* h : {"# ninja log v6\n", "# ninja log v5\n", "# ninja log v8\n", "garbage\n"}) {
    Op o; o.kind = Op::kSetHeader; o.header = h; o.label = string("set-header(") + vx::JsonEscape(h) + ")"; a.push_back(o);
  }
  return a;
}

static vector<Op> ContAlphabet() {
  vector<Op> a;
  { Op o; o.kind = Op::kLoadOnly; o.label = "load"; a.push_back(o); }
  { Op o; o.kind = Op::kSession; o.label = "session()"; a.push_back(o); }
  { Op o; o.kind = Op::kSession; o.recs = {{0, 0, 33}}; o.label = "session(E1,cmd1,mtime33)"; a.push_back(o); }
  { Op o; o.kind = Op::kSession; o.recs = {{0, 1, 33}}; o.label = "session(E1,cmd2,mtime33)"; a.push_back(o); }
  { Op o; o.kind = Op::kSession; o.recs = {{1, 0, 33}}; o.label = "session(E2,cmd1,mtime33)"; a.push_back(o); }
  { Op o; o.kind = Op::kRecompact; o.label = "recompact(dead={})"; a.push_back(o); }
  { Op o; o.kind = Op::kRestat; o.label = "restat(all)"; a.push_back(o); }
  return a;
}

int main(int argc, char** argv) {
  vx::Args args(argc, argv);
  int depth = (int)args.GetInt("depth", 2);
  bool thorough = args.GetInt("thorough", 0) != 0;
  bool with_long = args.GetInt("long", 0) != 0;
  int cont_depth = (int)args.GetInt("cont", 2);
  long shard = args.GetInt("shard", 0), nshards = args.GetInt("nshards", 1);
  SetupEdges(with_long);
  vfs::active = true;
  vector<Op> alpha = MainAlphabet(with_long, thorough), cont = ContAlphabet();

  Harness H;
  J viols = J::Arr();
  uint64_t states = 0, transitions = 0, tears = 0, conts = 0;
  J samples = J::Arr();

  auto report = [&](const vector<string>& trail) {
    for (auto& v : H.viols) {
      if (viols.a.size() >= 30) break;
      J o = J::Obj();
      o.set("clause", v.clause);
      o.set("detail", v.detail.substr(0, 600));
      J t = J::Arr();
      for (auto& s : trail) t.push(s);
      o.set("trail", t);
      viols.push(o);
    }
    H.viols.clear();
  };

  if (args.Has("replay")) {
    // replay=<label;label;...> with labels from the alphabets, "tear@N" for a tear
    string r = args.Get("replay");
    vfs::Disk d;
    d.Write("a", "x"); d.Write("b", "y");
    vector<string> trail;
    Attempted att;
    H.attempted = &att;
    size_t i = 0;
    while (i <= r.size()) {
      size_t j = r.find('|', i);
      if (j == string::npos) j = r.size();
      string lab = r.substr(i, j - i);
      i = j + 1;
      if (lab.empty()) continue;
      trail.push_back(lab);
      if (lab.compare(0, 5, "tear@") == 0) {
        auto it = d.files.find(kPath);
        if (it != d.files.end()) it->second.data.resize(atol(lab.c_str() + 5));
        continue;
      }
      bool found = false;
      for (auto* al : {&alpha, &cont})
        for (auto& op : *al)
          if (!found && op.label == lab) { H.Apply(op, &d, lab); found = true; }
      if (!found) { fprintf(stderr, "unknown op %s\n", lab.c_str()); return 2; }
      const vfs::File* f = d.Get(kPath);
      printf("after %-40s log=%zu bytes, violations so far %zu\n", lab.c_str(), f ? f->data.size() : 0, H.viols.size());
    }
    for (auto& v : H.viols) printf("VIOLATION %s: %s\n", v.clause.c_str(), v.detail.substr(0, 400).c_str());
    return H.viols.empty() ? 0 : 1;
  }

  // BFS over clean states
  struct Node { vfs::Disk disk; vector<string> trail; int depth; Attempted attempted; };
  deque<Node> frontier;
  unordered_set<string> seen;
  {
    Node n;
    n.disk.Write("a", "x");   // files for restat (mtimes 1001, 1002); "c c" stays missing
    n.disk.Write("b", "y");
    n.depth = 0;
    frontier.push_back(n);
    seen.insert(string("\x01none"));
  }
  uint64_t state_index = 0;
  while (!frontier.empty()) {
    Node n = frontier.front();
    frontier.pop_front();
    states++;
    bool mine = (long)(state_index++ % nshards) == shard;
    // tears of this state (sharded) and continuations
    if (mine) {
      const vfs::File* f = n.disk.Get(kPath);
      size_t size = f ? f->data.size() : 0;
      for (size_t o = 0; o < size; ++o) {
        if (size > 4096) {
          // cap for the 300 KiB record: every offset near a field/line/buffer boundary, every 4096th elsewhere
          bool near = false;
          for (size_t b : {(size_t)0, size, (size_t)kReaderBuffer, size - (300 << 10)})
            if (o + 64 >= b && o <= b + 64) near = true;
          size_t nl = f->data.rfind('\n', o);
          if (nl != string::npos && o - nl < 64) near = true;
          size_t nn = f->data.find('\n', o);
          if (nn != string::npos && nn - o < 64) near = true;
          if (!near && o % 4096) continue;
        }
        tears++;
        Node t = n;
        t.disk.files[kPath].data.resize(o);
        t.trail.push_back("tear@" + to_string(o));
        H.attempted = &t.attempted;
        { vfs::Disk probe = t.disk; H.CheckLoad(&probe, nullptr, "load after tear@" + to_string(o)); }
        report(t.trail);
        for (auto& c1 : cont) {
          Node t1 = t;
          t1.trail.push_back(c1.label);
          H.attempted = &t1.attempted;
          H.sweep_crashes = true;
          H.Apply(c1, &t1.disk, c1.label);
          conts++;
          report(t1.trail);
          if (cont_depth >= 2) {
            for (auto& c2 : cont) {
              if (c2.kind == Op::kRestat || c2.kind == Op::kRecompact) continue;
              Node t2 = t1;
              t2.trail.push_back(c2.label);
              H.attempted = &t2.attempted;
              H.sweep_crashes = false;
              H.Apply(c2, &t2.disk, c2.label);
              conts++;
              report(t2.trail);
            }
          }
        }
        if (samples.a.size() < 3 && o == size / 2) {
          J s = J::Arr();
          for (auto& x : t.trail) s.push(x);
          samples.push(s);
        }
      }
    }
    if (n.depth >= depth) continue;
    for (auto& op : alpha) {
      Node m = n;
      m.trail.push_back(op.label);
      m.depth = n.depth + 1;
      H.attempted = &m.attempted;
      // transitions are executed by every shard (cheap) so that all shards see the same state graph,
      // but only shard 0 reports their violations
      H.sweep_crashes = true;
      H.Apply(op, &m.disk, op.label);
      transitions++;
      if (shard == 0) report(m.trail); else H.viols.clear();
      const vfs::File* f = m.disk.Get(kPath);
      string key = f ? f->data : string("\x01none");
      // mtimes of the restat files are constant; key = log bytes
      if (!seen.insert(key).second) continue;
      frontier.push_back(m);
    }
  }
  J out = J::Obj();
  out.set("states", states);
  out.set("transitions", transitions);
  out.set("tears", tears);
  out.set("crash_points", H.crash_points);
  out.set("continuations", conts);
  out.set("ops", H.ops);
  out.set("loads", H.loads);
  out.set("violations", viols);
  out.set("samples", samples);
  printf("%s\n", js::Dump(out).c_str());
  return 0;
}
