// Engine A ("nx"): in-process world explorer.  Shared declarations.
#ifndef VERIF_NX_H_
#define VERIF_NX_H_

#include <stdint.h>

#include <map>
#include <set>
#include <string>
#include <vector>

#include "simfs.h"

namespace nx {

// ---- simulated commands -------------------------------------------------------------------
// A command line is the only thing a simulated process sees (like a real one):
//   sim o=<out>[,<out>..] [r=<read>,..] [h=<hidden read>,..] [d=<depfile>] [msvc=1] [restat=1]
//       [gen=1] [copy=1] [rsp=<file>] [p=<hex text>] [v=<token>]
struct CmdSpec {
  bool valid = false;
  std::string line;
  std::vector<std::string> outs, reads, hidden;
  std::string depfile, rsp, print;
  bool msvc = false, restat = false, gen = false, copy = false, depall = false;
  bool detach = false;       // the tool closes stdout/stderr when done with its work but lives on until ninja waits for it
  std::string msvc_prefix = "Note: including file: ";   // mp=<hex>: the (localized) text the compiler puts before each file
  bool notes_last = false;   // msvc: the /showIncludes notes come after the tool's own output, the last one without a newline
  // how this tool spells names in its depfile / showIncludes output (canonical name -> spelling), and
  // whether it names all of its outputs as depfile targets (dsp=<hex of a=./a;b=x/../b>, dall=1)
  std::map<std::string, std::vector<std::string>> per_out;  // po=<hex of a:s,t;b:u>: output -> the reads its content depends on
  std::map<std::string, std::string> dspell;
  bool dall = false;
  // gcc -MP: every header once more as a target without dependencies, spelled canonically (dmp=1)
  bool dmp = false;
  std::string Spelled(const std::string& n) const { auto i = dspell.find(n); return i == dspell.end() ? n : i->second; }
  std::string id() const { return outs.empty() ? line : outs[0]; }
};
CmdSpec ParseCmd(const std::string& line);

/// Content function shared by the simulator and the clean-build oracle.
/// `reads` = (name, content or "\x01MISSING") in the order declared reads then hidden reads.
std::string ContentOf(const CmdSpec& c, const std::string& out,
                      const std::vector<std::pair<std::string, std::string>>& reads,
                      const std::string& rsp_content);
extern const char kMissing[];
/// A file name as compilers write it into a depfile (spaces and '#' escaped with a backslash, '$' doubled).
std::string DepfileEscape(const std::string& name);
/// The depfile text a command writes.
std::string DepfileText(const CmdSpec& c);

struct Fault {
  int exit_code = 1;      // 1..255; 130 is reported by the real ParseExitStatus as "interrupted"
  bool touch = false;     // overwrite outputs with garbage before failing
  bool by_signal = false; // child killed by SIGINT/SIGTERM/SIGHUP itself -> ExitInterrupted
  bool bad_depfile = false; // the dying tool leaves a depfile that does not parse (a compiler killed half way)
  bool trim_depfile = false;
  bool depfile_dir = false;  // the tool does its work and exits 0, but where its depfile should be there is a directory (depdir) // ... or one that parses but names the target only (truncated before the first dependency)
};

struct Event {
  enum Kind { kStart, kFinish, kKilled, kInterrupt, kWait, kToken, kEdit, kReap };
  Kind kind;
  int cmd = -1;             // index into Run::cmds
  int status = 0;           // kFinish
  int64_t tick = 0;         // disk clock when it happened
  uint64_t op_index = 0;    // vfs::op_count when it happened
  std::vector<int> running; // kWait: commands running when ninja blocked
  // jobserver (seam S6a): kWait: tokens readable in the pool when ninja blocked / whether it watches the pool;
  // kStart: explicit tokens ninja holds (read and not written back) right after the start; kToken: status +1 = the
  // external client returned a token, -1 = it took one
  int avail = -1;
  bool watch = false;
  int held = -1;
};

struct RunCmd {
  CmdSpec spec;
  bool console = false;
  int64_t start_tick = 0, finish_tick = -1;
  int status = -1;                 // exit status once finished
  int told = -1;                   // >= 0: the status ninja is told, where that is not the whole truth (fault depdir: the tool says 0, its dependency output is unreadable)
  bool finished = false, killed = false, wrote = false;
  bool unreaped = false;           // completed, but ninja gave up the build before it looked at the result (Abort)
  std::vector<std::pair<std::string, std::string>> snapshot;  // what it read at start
  std::string rsp_content;         // content of rsp= file at start (kMissing if absent)
  std::vector<std::string> missing_dirs;  // outputs/depfile whose directory did not exist at start
  std::string output;              // what it prints (captured by ninja)
  int cycle = 0;                   // manifest (re)load cycle of the invocation it was started in
  uint64_t manifest_hash = 0;      // Fnv of build.ninja when it started (selects the variant)
};

/// Supplies the environment's answers.  Replays `prefix`, then answers 0 (the default).
struct Chooser {
  std::vector<int> prefix;
  std::vector<int> taken;     // choices made in this run
  std::vector<int> arity;     // number of alternatives at each point
  std::vector<int> cost;      // deviation cost of taking a non-default alternative at that point
  bool diverged = false;
  int Choose(int n, int dev_cost = 1);
};

struct RunConfig {
  std::vector<std::string> args;            // ninja arguments (without argv[0])
  std::map<std::string, Fault> faults;      // by command id (first output)
  std::map<std::string, std::string> env;   // NINJA_STATUS, MAKEFLAGS, TERM ...
  bool allow_interrupt = false;             // offer "interrupt" as an alternative at waits
  bool subsets = true;                      // offer simultaneous completions
  int max_subset_running = 3;               // all subsets only up to this many running commands
  int step_horizon = 400;                   // max waits per invocation
  int64_t crash_at = -1, crash_tear = -1, fail_at = -1;
  // Jobserver pool (seam S6a): a real FIFO owned by the harness.  js_tokens < 0: no jobserver.
  int js_tokens = -1;      // tokens in the pool when ninja starts (the implicit slot is not one of them)
  int js_ext_held = 0;     // tokens another client of the same pool holds at that moment (it may return them)
  int js_ext_max = 0;      // how many tokens that client may hold at most
  int js_moves = 0;        // how many times it may take or return a token during the invocation
  int js_byte = '+';       // the value of the tokens in the pool (the protocol allows any byte; clients write back what they read)
  // Edits applied by the environment while a command runs: (trigger cmd id, path, new content).
  std::vector<std::tuple<std::string, std::string, std::string>> edits_during;
};

struct RunResult {
  int exit_code = -1;
  bool hang = false;          // ninja would block forever
  bool crashed = false;       // injected crash fired
  bool horizon = false;       // step horizon exceeded
  bool fatal_signal = false;  // worker died (filled by supervisor)
  std::string out;            // stdout+stderr transcript
  std::vector<RunCmd> cmds;
  std::vector<Event> events;
  uint64_t ops = 0;           // mutating vfs ops performed
  std::vector<int> choices, arity, cost;
  int max_running = 0;
  int js_total = -1;          // jobserver: tokens in existence (pool + external client) when ninja started
  int js_final = -1;          // ... and when it had gone (pool + external client): every token ninja took must be back
  int js_spins = 0;           // ninja came back into ppoll() on a readable, watched pool without having taken a token or
                              // started anything: it is spinning until a running command ends (observation, not a verdict)
};

/// Jobserver seam (simproc.cc): the pool is a real FIFO that ninja's own PosixJobserverClient opens.
void JsBegin(const RunConfig& cfg);       // create/refill the pool, export MAKEFLAGS
void JsEnd(RunResult* res);               // count the tokens, close the descriptors the invocation left open
bool JsOn();
int JsAvail();
int JsNinjaHolds();

/// Seam S8 (heap order): ninja keeps Edge* / Node* keyed ordered containers (Plan::want_, the dyndep walk sets), so the
/// order in which it visits them follows the addresses malloc happened to return.  When set, Edge and Node objects of an
/// invocation come from an arena that hands out *descending* addresses (glibc's are ascending for such a sequence).
extern bool g_alloc_descending;
extern uint64_t g_desc_allocs;   // objects placed so far

/// Run one ninja invocation (real_main of the tree's ninja.cc) against disk `d`.
RunResult RunNinja(vfs::Disk* d, const RunConfig& cfg, const std::vector<int>& choice_prefix);

/// Per-invocation state shared by the seams.
struct Cur {
  RunResult* res = nullptr;
  const RunConfig* cfg = nullptr;
  Chooser* ch = nullptr;
  int waits = 0;
  bool last_token_wake = false;   // the previous wait ended with "a token is available"
  size_t cmds_at_wake = 0;
  int avail_at_wake = 0;
  std::vector<bool> edit_done;
};
extern Cur g_cur;
void AbortInvocation(int why);  // 1 = hang (ninja would block forever), 2 = step horizon

/// Redirects fd 1/2 to the capture file; the harness' own reports go to fd 100 (old stdout).
void InitCapture();

/// Effects of a command that outlives a crashed ninja and completes on its own.
void CompleteOrphan(vfs::Disk* d, RunResult* res, const RunConfig& cfg, int idx);

uint64_t Fnv(const std::string& s);
std::string Hex64(uint64_t v);

}  // namespace nx

#endif
