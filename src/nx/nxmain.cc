// Seam S3: ninja's own front end (src/ninja.cc, unmodified) included into this TU; real_main()
// is called directly.  exit() is interposed: inside an invocation it flushes stdio like the real
// exit() and longjmps back to RunNinja (no destructors run, exactly as in the real program).
#include <dlfcn.h>
#include <errno.h>
#include <fcntl.h>
#include <limits.h>
#include <setjmp.h>
#include <stdarg.h>
#include <sys/ioctl.h>
#include <stdio.h>
#include <stdlib.h>
#include <string.h>
#include <sys/mman.h>
#include <unistd.h>

#include <algorithm>
#include <cstdlib>
#include <cstring>
#include <string>

#define main ninja_cc_main
#include "ninja.cc"
#undef main

#include "nx.h"
#include "subprocess.h"

namespace nx {

static jmp_buf g_jmp;
static bool g_in_invocation = false;
static int g_exit_code = 0;
static int64_t g_time_ms = 0;
static int g_capture_fd = -1;

enum { kJmpExit = 1, kJmpHang = 2, kJmpHorizon = 3, kJmpCrash = 4 };

void AbortInvocation(int why) {
  longjmp(g_jmp, why == 1 ? kJmpHang : kJmpHorizon);
}

static void OnCrash() { longjmp(g_jmp, kJmpCrash); }

}  // namespace nx

void nx_seam_enter() {
  if (vfs::dead && vfs::on_crash) vfs::on_crash();
}

// Logical clock for the ms columns of the build log (replaces metrics.cc's, which is compiled
// with -DGetTimeMillis=GetTimeMillis__unused).
int64_t GetTimeMillis() {
  nx_seam_enter();
  return ++nx::g_time_ms;
}

extern "C" __attribute__((noreturn)) void exit(int code) noexcept {
  if (nx::g_in_invocation) {
    nx_seam_enter();
    nx::g_exit_code = code;
    fflush(stdout);
    fflush(stderr);
    vfs::FlushAllStreams();
    longjmp(nx::g_jmp, nx::kJmpExit);
  }
  static auto real = (void (*)(int))dlsym(RTLD_NEXT, "exit");
  real(code);
  _exit(code);
}

// Smart-terminal seam (C20): with VERIF_TTY_COLS=<n> in an invocation's environment, ninja's stdout (the capture file)
// claims to be a terminal n columns wide: LinePrinter takes its smart path (\r, ESC[K, elided status lines, colours).
static int g_tty_cols = 0;
extern "C" int isatty(int fd) {
  if (nx::g_in_invocation && g_tty_cols > 0 && (fd == 1 || fd == 2)) return 1;
  static auto real = (int (*)(int))dlsym(RTLD_NEXT, "isatty");
  return real(fd);
}
extern "C" int ioctl(int fd, unsigned long request, ...) {
  va_list ap;
  va_start(ap, request);
  void* arg = va_arg(ap, void*);
  va_end(ap);
  if (nx::g_in_invocation && g_tty_cols > 0 && fd == 1 && request == TIOCGWINSZ) {
    struct winsize* ws = (struct winsize*)arg;
    memset(ws, 0, sizeof *ws);
    ws->ws_col = (unsigned short)g_tty_cols;
    ws->ws_row = 24;
    return 0;
  }
  static auto real = (int (*)(int, unsigned long, void*))dlsym(RTLD_NEXT, "ioctl");
  return real(fd, request, arg);
}

// Working-directory seam (C19): with VERIF_CWD=<path> in an invocation's environment getcwd() answers that path (the
// in-memory disk has no notion of where it is mounted; compdb writes the answer into every entry).
static std::string g_fake_cwd;
extern "C" char* getcwd(char* buf, size_t size) {
  if (nx::g_in_invocation && !g_fake_cwd.empty()) {
    if (!buf) return strdup(g_fake_cwd.c_str());
    if (g_fake_cwd.size() + 1 > size) { errno = ERANGE; return nullptr; }
    memcpy(buf, g_fake_cwd.c_str(), g_fake_cwd.size() + 1);
    return buf;
  }
  static auto real = (char* (*)(char*, size_t))dlsym(RTLD_NEXT, "getcwd");
  return real(buf, size);
}

static double g_fake_load = 0.0;
extern "C" int getloadavg(double loadavg[], int nelem) {
  for (int i = 0; i < nelem; ++i) loadavg[i] = g_fake_load;
  return nelem;
}

// ---- seam S8: the order of Edge / Node addresses -------------------------------------------------------------------
namespace nx {
bool g_alloc_descending = false;
uint64_t g_desc_allocs = 0;
namespace {
// One lazily committed reservation per kind, handed out from the top downwards and never reused: objects of the harness
// that happen to have the same size land here too and may outlive the invocation.  (Workers are recycled by resident size.)
struct DescArena {
  static const size_t kBytes = size_t(8) << 30;
  char* buf = nullptr;
  size_t top = 0;
  void* Take(size_t n) {
    if (!buf) {
      void* m = mmap(nullptr, kBytes, PROT_READ | PROT_WRITE, MAP_PRIVATE | MAP_ANONYMOUS | MAP_NORESERVE, -1, 0);
      if (m == MAP_FAILED) return nullptr;
      buf = (char*)m;
      top = kBytes;
    }
    n = (n + 15) & ~size_t(15);
    if (top < n) return nullptr;
    top -= n;
    return buf + top;
  }
  bool Owns(const void* p) const { return buf && p >= (const void*)buf && p < (const void*)(buf + kBytes); }
};
DescArena g_edge_arena, g_node_arena;
}  // namespace
}  // namespace nx

void* operator new(size_t n) {
  if (nx::g_alloc_descending && nx::g_in_invocation) {
    void* p = nullptr;
    if (n == sizeof(Edge)) p = nx::g_edge_arena.Take(n);
    else if (n == sizeof(Node)) p = nx::g_node_arena.Take(n);
    if (p) { nx::g_desc_allocs++; return p; }
  }
  void* p = malloc(n ? n : 1);
  if (!p) throw std::bad_alloc();
  return p;
}
void operator delete(void* p) noexcept {
  if (nx::g_edge_arena.Owns(p) || nx::g_node_arena.Owns(p)) return;
  free(p);
}
void operator delete(void* p, size_t) noexcept { operator delete(p); }
void* operator new[](size_t n) { return operator new(n == sizeof(Edge) || n == sizeof(Node) ? n + 1 : n); }
void operator delete[](void* p) noexcept { operator delete(p); }
void operator delete[](void* p, size_t) noexcept { operator delete(p); }

namespace nx {

static void ResetNinjaGlobals() {
  // Statics that the real process gets fresh at exec time.
  State::kDefaultPool.current_use_ = 0;
  new (&State::kDefaultPool.delayed_) Pool::DelayedEdges();
  State::kConsolePool.current_use_ = 0;
  new (&State::kConsolePool.delayed_) Pool::DelayedEdges();
  SubprocessSet::interrupted_ = 0;
  g_explaining = false;
  g_keep_depfile = false;
  g_keep_rsp = false;
  g_experimental_statcache = true;
  g_metrics = NULL;
  optind = 0;  // glibc: full re-initialisation of getopt
}

static void SetupCapture() {
  if (g_capture_fd >= 0) return;
  g_capture_fd = memfd_create("nx-out", 0);
  // Keep the real stdout for our own reports on fd 100, stderr on 101.
  dup2(1, 100);
  dup2(2, 101);
  dup2(g_capture_fd, 1);
  dup2(g_capture_fd, 2);
}

static std::string ReadCapture() {
  fflush(stdout);
  fflush(stderr);
  off_t size = lseek(g_capture_fd, 0, SEEK_END);
  std::string s((size_t)size, '\0');
  if (size) pread(g_capture_fd, &s[0], (size_t)size, 0);
  ftruncate(g_capture_fd, 0);
  lseek(g_capture_fd, 0, SEEK_SET);
  return s;
}

void InitCapture() { SetupCapture(); }

RunResult RunNinja(vfs::Disk* d, const RunConfig& cfg, const std::vector<int>& choice_prefix) {
  SetupCapture();
  RunResult res;
  Chooser ch;
  ch.prefix = choice_prefix;
  g_cur.res = &res;
  g_cur.cfg = &cfg;
  g_cur.ch = &ch;
  g_cur.waits = 0;
  g_cur.last_token_wake = false;
  g_cur.edit_done.clear();

  ResetNinjaGlobals();
  clearenv();
  setenv("TERM", "dumb", 1);
  g_fake_load = 0.0;
  g_tty_cols = 0;
  g_fake_cwd.clear();
  for (auto& kv : cfg.env) {
    if (kv.first == "VERIF_LOADAVG") { g_fake_load = atof(kv.second.c_str()); continue; }
    if (kv.first == "VERIF_TTY_COLS") { g_tty_cols = atoi(kv.second.c_str()); continue; }
    if (kv.first == "VERIF_CWD") { g_fake_cwd = kv.second; continue; }
    setenv(kv.first.c_str(), kv.second.c_str(), 1);
  }
  JsBegin(cfg);

  static std::vector<std::string> argstore;
  static std::vector<char*> argv;
  argstore.clear();
  argstore.push_back("ninja");
  for (auto& a : cfg.args) argstore.push_back(a);
  argv.clear();
  for (auto& a : argstore) argv.push_back(&a[0]);
  argv.push_back(nullptr);

  vfs::disk = d;
  vfs::ResetInvocation();
  vfs::crash_at = cfg.crash_at;
  vfs::crash_tear = cfg.crash_tear;
  vfs::fail_at = cfg.fail_at;
  vfs::on_crash = OnCrash;
  g_time_ms = 0;

  volatile int why = setjmp(g_jmp);
  if (why == 0) {
    vfs::active = true;
    g_in_invocation = true;
    real_main((int)argstore.size(), argv.data());
  }
  g_in_invocation = false;
  switch (why) {
    case kJmpExit: res.exit_code = g_exit_code; break;
    case kJmpHang: res.hang = true; break;
    case kJmpHorizon: res.horizon = true; break;
    case kJmpCrash: res.crashed = true; break;
  }
  // Drop whatever the dead/finished process left open.  For a crash, buffered data must not land:
  // vfs::dead is still set.  For a normal exit everything was flushed in exit().
  if (why != kJmpExit) vfs::dead = true;
  vfs::CloseLeakedStreams();
  vfs::active = false;
  res.ops = vfs::op_count;
  vfs::ResetInvocation();
  vfs::crash_at = vfs::fail_at = -1;
  res.out = ReadCapture();
  JsEnd(&res);
  res.choices = ch.taken;
  res.arity = ch.arity;
  res.cost = ch.cost;
  if (ch.diverged) res.exit_code = -777;  // replay divergence: harness error, reported by callers
  g_cur.res = nullptr;
  return res;
}

}  // namespace nx
