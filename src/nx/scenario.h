// Scenario model for engine A: manifest variants with their *true* graph, the operation alphabet
// and the per-scenario exploration parameters.  Produced by lib/scen*.py as JSON lines.
#ifndef VERIF_SCENARIO_H_
#define VERIF_SCENARIO_H_

#include <map>
#include <set>
#include <string>
#include <vector>

#include "vjson.h"
#include "nx.h"

namespace nx {

struct Stmt {
  std::string id;                 // first output
  bool phony = false;
  std::vector<std::string> outs;  // explicit then implicit outputs (declared + dyndep-provided are in spec)
  std::vector<std::string> ex, im, oo, val;  // declared inputs by kind, validations
  std::string cmd, desc;
  CmdSpec spec;                   // parsed from cmd: the command's true behaviour
  std::string rule;               // rule name in the manifest ("phony" for phony statements)
  std::string pool;               // "" = default, "console", or a named pool
  bool restat = false, generator = false;
  std::string deps, depfile, dyndep, rspfile, rspfile_content;
  bool has_rsp = false;
  std::vector<std::string> AllDeclaredInputs() const {
    std::vector<std::string> r = ex;
    r.insert(r.end(), im.begin(), im.end());
    r.insert(r.end(), oo.begin(), oo.end());
    return r;
  }
};

struct Variant {
  std::string name;
  std::map<std::string, std::string> files;   // manifest files (build.ninja, included files)
  std::vector<Stmt> stmts;
  std::vector<std::string> defaults;
  std::map<std::string, int> pools;           // name -> depth
  std::map<std::string, int> producer;        // output path -> stmt index
  uint64_t manifest_hash = 0;                 // Fnv of build.ninja text
};

struct Op {
  enum Kind { kEdit, kTouch, kRm, kVariant, kNinja, kWrite, kMkdir, kRmLogRecord, kDupLogRecord, kDupDepsRecord, kEpoch } kind = kEdit;
  std::string label;
  std::string path;
  std::string content;       // kWrite
  int variant = 0;           // kVariant
  // kNinja:
  std::vector<std::string> flags, targets;
  int j = 1, k = 1;
  bool tool = false;         // "-t xxx" invocation: not a build
  std::string tool_kind;     // clean-all | clean-all-g | clean-targets | clean-rules | cleandead | readonly | commands | compdb
  std::vector<std::string> tool_args;  // targets / rule names for the clean modes
  bool tool_dry = false;     // -n given to a clean tool
  bool dry_run = false;
  RunConfig cfg;             // faults, interrupts, edits during, env
  bool expect_error = false; // the invocation must fail with an error (C11 invalid dyndep files)
  std::vector<std::string> canonical_args;  // C14: the same invocation with every path argument spelled canonically
  bool crash = false;        // additionally enumerate every crash point of every schedule of this invocation
  bool compare_output_with_twin = false;   // C14: a tool's output on the oddly spelled project equals its output on the canonical twin
  bool no_expand = false;    // successor worlds of this op are checked but not expanded further
};

struct Scenario {
  std::string name, family;
  std::map<std::string, std::string> files;   // initial files besides the manifest of variant 0
  std::vector<std::string> dirs;
  std::string builddir;      // value of the manifest's `builddir` binding: where ninja keeps its logs and lock file
  std::vector<Variant> variants;
  std::vector<Variant> twin_variants;        // metamorphic twin (C10/C11): same statements, information declared in the manifest
  std::vector<Op> ops;
  std::vector<int> init;                      // ops applied before exploration starts (default schedule)
  int depth = 2;
  int dev_bound = -1;                         // -1 = all schedules
  bool alloc_descending = false;              // seam S8: Edge/Node objects at descending addresses in every invocation
  std::set<std::string> tags;                 // free-form feature tags (for evidence and predicates)
  js::J raw;
};

bool LoadScenario(const js::J& j, Scenario* s, std::string* err);

}  // namespace nx

#endif
