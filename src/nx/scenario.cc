#include "scenario.h"

using namespace std;

namespace nx {

static Fault LoadFault(const js::J& f) {
  Fault ft;
  ft.exit_code = (int)f["code"].num(1);
  ft.touch = f["touch"].boolean(false);
  ft.by_signal = f["signal"].boolean(false);
  ft.bad_depfile = f["baddep"].boolean(false);
  ft.trim_depfile = f["trimdep"].boolean(false);
  ft.depfile_dir = f["depdir"].boolean(false);
  return ft;
}

bool LoadScenario(const js::J& j, Scenario* s, string* err) {
  s->raw = j;
  s->name = j["name"].str();
  s->family = j["family"].str();
  for (auto& kv : j["files"].o) s->files[kv.first] = kv.second.s;
  s->dirs = j["dirs"].strs();
  s->builddir = j["builddir"].str();
  s->depth = (int)j["depth"].num(2);
  s->dev_bound = (int)j["dev_bound"].num(-1);
  s->alloc_descending = j["alloc_order"].str() == "descending";
  for (auto& t : j["tags"].a) s->tags.insert(t.s);
  for (const char* vkey : {"variants", "twin_variants"})
  for (auto& vj : j[vkey].a) {
    Variant v;
    v.name = vj["name"].str();
    for (auto& kv : vj["files"].o) v.files[kv.first] = kv.second.s;
    if (!v.files.count("build.ninja")) { *err = "variant without build.ninja"; return false; }
    v.manifest_hash = Fnv(v.files["build.ninja"]);
    v.defaults = vj["defaults"].strs();
    for (auto& kv : vj["pools"].o) v.pools[kv.first] = (int)kv.second.num();
    for (auto& sj : vj["stmts"].a) {
      Stmt st;
      st.outs = sj["outs"].strs();
      if (st.outs.empty()) { *err = "stmt without outputs"; return false; }
      st.id = st.outs[0];
      st.phony = sj["phony"].boolean(false);
      st.ex = sj["ex"].strs();
      st.im = sj["im"].strs();
      st.oo = sj["oo"].strs();
      st.val = sj["val"].strs();
      st.cmd = sj["cmd"].str();
      st.desc = sj["desc"].str();
      st.spec = ParseCmd(st.cmd);
      if (!st.phony && !st.spec.valid) { *err = "bad cmd for " + st.id + ": " + st.cmd; return false; }
      st.rule = sj["rule"].str();
      st.pool = sj["pool"].str();
      st.restat = sj["restat"].boolean(false);
      st.generator = sj["generator"].boolean(false);
      st.deps = sj["deps"].str();
      st.depfile = sj["depfile"].str();
      st.dyndep = sj["dyndep"].str();
      st.rspfile = sj["rspfile"].str();
      st.rspfile_content = sj["rspfile_content"].str();
      st.has_rsp = !st.rspfile.empty();
      int idx = (int)v.stmts.size();
      for (auto& o : st.outs) v.producer[o] = idx;
      if (!st.phony && !st.dyndep.empty())
        for (auto& o : st.spec.outs) v.producer[o] = idx;  // dyndep-provided outputs (without a dyndep binding a file the
                                                          // command also writes is nobody's output as far as the manifest says)
      v.stmts.push_back(st);
    }
    (string(vkey) == "variants" ? s->variants : s->twin_variants).push_back(v);
  }
  if (s->variants.empty()) { *err = "no variants"; return false; }
  for (auto& oj : j["ops"].a) {
    Op op;
    string k = oj["op"].str();
    op.label = oj["label"].str(k);
    op.path = oj["path"].str();
    op.content = oj["content"].str();
    op.no_expand = oj["no_expand"].boolean(false);
    op.compare_output_with_twin = oj["compare_output_with_twin"].boolean(false);
    if (k == "edit") op.kind = Op::kEdit;
    else if (k == "touch") op.kind = Op::kTouch;
    else if (k == "rm") op.kind = Op::kRm;
    else if (k == "write") op.kind = Op::kWrite;
    else if (k == "mkdir") op.kind = Op::kMkdir;
    else if (k == "epoch") op.kind = Op::kEpoch;
    else if (k == "rmlog") op.kind = Op::kRmLogRecord;
    else if (k == "duplog") op.kind = Op::kDupLogRecord;
    else if (k == "dupdeps") op.kind = Op::kDupDepsRecord;
    else if (k == "variant") { op.kind = Op::kVariant; op.variant = (int)oj["to"].num(); }
    else if (k == "ninja") {
      op.kind = Op::kNinja;
      op.flags = oj["flags"].strs();
      op.targets = oj["targets"].strs();
      op.j = (int)oj["j"].num(1);
      op.k = (int)oj["k"].num(1);
      op.tool = oj["tool"].boolean(false);
      op.tool_kind = oj["tool_kind"].str();
      op.tool_args = oj["tool_args"].strs();
      op.tool_dry = oj["tool_dry"].boolean(false);
      op.dry_run = oj["dry_run"].boolean(false);
      op.cfg.args = op.flags;
      for (auto& t : op.targets) op.cfg.args.push_back(t);
      // the oracles think in canonical names: a target typed relative to $builddir ("lib" for bd/lib) is given twice
      if (!oj["targets_canonical"].is_null()) op.targets = oj["targets_canonical"].strs();
      for (auto& kv : oj["faults"].o) op.cfg.faults[kv.first] = LoadFault(kv.second);
      for (auto& kv : oj["env"].o) op.cfg.env[kv.first] = kv.second.s;
      op.cfg.allow_interrupt = oj["interrupt"].boolean(false);
      if (!oj["jobserver"].is_null()) {
        const js::J& jj = oj["jobserver"];
        op.cfg.js_tokens = (int)jj["tokens"].num(0);
        op.cfg.js_ext_held = (int)jj["ext_held"].num(0);
        op.cfg.js_ext_max = (int)jj["ext_max"].num(0);
        op.cfg.js_moves = (int)jj["moves"].num(0);
        op.cfg.js_byte = (int)jj["byte"].num('+');
      }
      op.crash = oj["crash"].boolean(false);
      op.expect_error = oj["expect_error"].boolean(false);
      op.canonical_args = oj["canonical_args"].strs();
      op.cfg.subsets = oj["subsets"].boolean(true);
      for (auto& e : oj["edits_during"].a)
        op.cfg.edits_during.push_back(make_tuple(e["when"].str(), e["path"].str(), e["content"].str()));
    } else { *err = "unknown op " + k; return false; }
    s->ops.push_back(op);
  }
  for (auto& i : j["init"].a) s->init.push_back((int)i.num());
  return true;
}

}  // namespace nx
