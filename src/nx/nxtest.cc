// Smoke test / micro-benchmark for the nx seams.
#include <stdio.h>
#include <time.h>
#include "nx.h"
using namespace nx;
static void Report(const char* tag, const RunResult& r) {
  dprintf(100, "== %s exit=%d hang=%d crashed=%d ops=%llu cmds=%zu\n%s", tag, r.exit_code, r.hang, r.crashed,
          (unsigned long long)r.ops, r.cmds.size(), r.out.c_str());
  for (auto& c : r.cmds) dprintf(100, "   cmd %s status=%d wrote=%d\n", c.spec.id().c_str(), c.status, c.wrote);
}
int main() {
  vfs::Disk d;
  d.Write("build.ninja",
          "rule a\n  command = sim o=mid r=src\nrule b\n  command = sim o=out r=mid h=hdr d=out.d\n  depfile = out.d\n  deps = gcc\n"
          "rule c\n  command = sim o=dir/o2 r=src\n"
          "build mid: a src\nbuild out: b mid\nbuild dir/o2: c src\n");
  d.Write("src", "S1\n");
  d.Write("hdr", "H1\n");
  RunConfig cfg;
  cfg.args = {"-j2"};
  RunResult r = RunNinja(&d, cfg, {});
  Report("first", r);
  r = RunNinja(&d, cfg, {});
  Report("second", r);
  d.Write("hdr", "H2\n");
  r = RunNinja(&d, cfg, {});
  Report("after hdr edit", r);
  for (auto& f : d.files) dprintf(100, "  %-12s %s mtime=%lld size=%zu\n", f.first.c_str(), f.second.dir ? "d" : "f", (long long)f.second.mtime, f.second.data.size());
  struct timespec t0, t1;
  clock_gettime(CLOCK_MONOTONIC, &t0);
  int N = 20000;
  for (int i = 0; i < N; ++i) {
    d.Write("src", i & 1 ? "S1\n" : "S2\n");
    r = RunNinja(&d, cfg, {});
  }
  clock_gettime(CLOCK_MONOTONIC, &t1);
  double us = ((t1.tv_sec - t0.tv_sec) * 1e9 + (t1.tv_nsec - t0.tv_nsec)) / 1e3 / N;
  dprintf(100, "%.1f us per invocation (3 commands each), last exit=%d log size=%zu\n", us, r.exit_code, d.Get(".ninja_log")->data.size());
  return 0;
}
