// Engine A explorer: breadth-first search over worlds (histories of edits / manifest changes /
// ninja invocations), depth-first search over the environment's answers inside every invocation
// (completion order incl. simultaneous completions, interrupts, ...), monitors for the
// properties on every execution.  See DESIGN.md section 3.1.
#include <fcntl.h>
#include <signal.h>
#include <sys/mman.h>
#include <sys/wait.h>
#include <stdio.h>
#include <string.h>
#include <time.h>
#include <unistd.h>

#include <algorithm>
#include <array>
#include <deque>
#include <functional>
#include <memory>
#include <fstream>
#include <sstream>
#include <unordered_set>

#include "ixutil.h"
#include "vjson.h"
#include "logparse.h"
#include "nx.h"
#include "scenario.h"
#include "build_log.h"

using namespace std;
using namespace nx;
using js::J;

// ---------------------------------------------------------------------------------------------
// Worlds
// ---------------------------------------------------------------------------------------------

struct Step {
  int op = -1;
  vector<int> choices;
  int64_t crash_at = -1;   // >= 0: the process is killed at this mutating operation
  int tear = -1;
  unsigned orphans = 0;    // bit mask of orphaned commands that still complete
  int64_t io_fail_at = -1; // >= 0: this mutating operation fails with an I/O error instead
};

struct World {
  vfs::Disk disk;
  vector<Step> hist;
  bool tainted = false;
  // C03: the last converged full build this world descends from, and the number of changes since.
  shared_ptr<vfs::Disk> base;
  int nchanges = 0;
  // statements with depfile/deps that the base build did not run although a restat statement
  // upstream of them ran without rewriting its output (shape of the known finding F2)
  set<string> base_restat_pruned;
  // C07: some invocation in the history was interrupted or killed.
  bool abnormal = false;
  // C10/C11: the same history applied to the twin manifest (default schedules)
  vfs::Disk twin;
};

// Breadcrumb for the fatal-signal handler: which execution is running right now.  A crash inside
// ninja (assertion, heap corruption, segfault) becomes a replayable verdict instead of a dead worker.
struct Crumb {
  long scenario_index = -1;
  const vector<Step>* hist = nullptr;
  int op = -1;
  const vector<int>* prefix = nullptr;
};
static Crumb g_crumb;

/// Resident set size in MiB.  Every in-process invocation of ninja leaks what the real process never
/// frees either (it leaves through exit()): ~8 KiB per invocation.  Workers are recycled by it.
static long RssMiB() {
  FILE* f = fopen("/proc/self/statm", "r");
  if (!f) return 0;
  long size = 0, rss = 0;
  if (fscanf(f, "%ld %ld", &size, &rss) != 2) rss = 0;
  fclose(f);
  return rss * (sysconf(_SC_PAGESIZE) / 1024) / 1024;
}
static const long kRecycleMiB = 1200;   // a worker that has grown beyond this hands over after its scenario
static const long kScenarioMiB = 3200;  // a single scenario stops (reported incomplete) beyond this

static void CrashHandler(int sig) {
  static char buf[8192];
  size_t n = 0;
  n += snprintf(buf + n, sizeof(buf) - n, "\nNXCRASH {\"signal\":%d,\"scenario_index\":%ld,\"history\":[", sig, g_crumb.scenario_index);
  bool any = false;
  if (g_crumb.hist) {
    for (auto& s : *g_crumb.hist) {
      if (n > sizeof(buf) - 512) break;
      n += snprintf(buf + n, sizeof(buf) - n, "%s{\"op\":%d,\"choices\":[", any ? "," : "", s.op);
      any = true;
      for (size_t i = 0; i < s.choices.size() && n < sizeof(buf) - 256; i++)
        n += snprintf(buf + n, sizeof(buf) - n, i ? ",%d" : "%d", s.choices[i]);
      n += snprintf(buf + n, sizeof(buf) - n, "]");
      if (s.io_fail_at >= 0) n += snprintf(buf + n, sizeof(buf) - n, ",\"io_fail_at\":%lld", (long long)s.io_fail_at);
      if (s.crash_at >= 0)
        n += snprintf(buf + n, sizeof(buf) - n, ",\"crash_at\":%lld,\"tear\":%d,\"orphans\":%u", (long long)s.crash_at, s.tear, s.orphans);
      n += snprintf(buf + n, sizeof(buf) - n, "}");
    }
  }
  if (g_crumb.op >= 0) {
    n += snprintf(buf + n, sizeof(buf) - n, "%s{\"op\":%d,\"choices\":[", any ? "," : "", g_crumb.op);
    if (g_crumb.prefix)
      for (size_t i = 0; i < g_crumb.prefix->size() && n < sizeof(buf) - 256; i++)
        n += snprintf(buf + n, sizeof(buf) - n, i ? ",%d" : "%d", (*g_crumb.prefix)[i]);
    n += snprintf(buf + n, sizeof(buf) - n, "]}");
  }
  n += snprintf(buf + n, sizeof(buf) - n, "]}\n");
  ssize_t ignored = write(fcntl(101, F_GETFD) >= 0 ? 101 : 2, buf, n);   // 101: the real stderr (nx::InitCapture)
  (void)ignored;
  _exit(97);
}

// per scenario: "<builddir>/.ninja_log" when the manifest binds builddir
static string kLog = ".ninja_log";
static string kDeps = ".ninja_deps";
static string kLock = ".ninja_lock";

static string TickToken(int64_t ns, const map<int64_t, int>& rank) {
  if (ns == 0) return "0";
  int64_t t = vfs::NsToTick(ns);
  if (t < 0) return "raw" + to_string(ns);
  auto it = rank.find(t);
  return it == rank.end() ? "t" + to_string(t) : "r" + to_string(it->second);
}

/// Canonical key of a world: paths, contents, rank-normalised timestamps (jointly over file
/// mtimes and the mtimes stored in both logs), logs by parsed last-wins meaning (+ raw damage).
static string WorldKey(const vfs::Disk& d, bool skip_dirs = false) {
  lp::BuildLogModel bl;
  lp::DepsLogModel dl;
  if (const vfs::File* f = d.Get(kLog)) bl = lp::ParseBuildLog(f->data);
  if (const vfs::File* f = d.Get(kDeps)) dl = lp::ParseDepsLog(f->data);
  set<int64_t> ticks;
  for (auto& kv : d.files)
    if (kv.first != kLog && kv.first != kDeps) ticks.insert(kv.second.mtime);
  for (auto& kv : bl.entries) { int64_t t = vfs::NsToTick(kv.second.mtime); if (t >= 0) ticks.insert(t); }
  for (auto& kv : dl.deps) { int64_t t = vfs::NsToTick(kv.second.mtime); if (t >= 0) ticks.insert(t); }
  map<int64_t, int> rank;
  int r = 0;
  for (int64_t t : ticks) rank[t] = r++;
  string k;
  for (auto& kv : d.files) {
    if (kv.first == kLog || kv.first == kDeps) continue;
    if (skip_dirs && kv.second.dir) continue;
    k += kv.first;
    k += kv.second.dir ? "/D@" : "@";
    k += "r" + to_string(rank[kv.second.mtime]);
    k += "=";
    k += kv.second.data;
    k += '\x02';
  }
  if (d.Get(kLog)) {
    k += "LOG v" + to_string(bl.version) + ":";
    for (auto& kv : bl.entries)
      k += kv.first + "@" + TickToken(kv.second.mtime, rank) + "#" + kv.second.hash + ";";
    // the number of lines is observable through the recompaction threshold (kMinCompactionEntryCount /
    // kCompactionRatio in build_log.cc)
    if (bl.total_lines > 100 && bl.total_lines > 3 * (int)bl.entries.size()) k += "RECOMPACTION-PENDING;";
    for (auto& l : bl.bad_lines) k += "BAD(" + l + ")";
    if (!bl.torn_tail.empty()) k += "TORN(" + bl.torn_tail + ")";
    k += '\x02';
  }
  if (const vfs::File* f = d.Get(kDeps)) {
    k += "DEPS ";
    k += dl.header_ok ? "ok:" : "badheader:";
    for (auto& kv : dl.deps) {
      k += kv.first + "@" + TickToken(kv.second.mtime, rank) + "<";
      for (auto& p : kv.second.deps) k += p + ",";
      k += ">;";
    }
    if (dl.records > 1000 && dl.records > 3 * (int)dl.deps.size()) k += "RECOMPACTION-PENDING;";
    if (!dl.clean) k += "DAMAGED(" + f->data.substr(dl.good_size) + ")";
    k += '\x02';
  }
  return k;
}

/// The world as far as a build can tell: a pending recompaction is bookkeeping of the log files, not part of what they say
/// (the tools that load the logs may compact them).
static string MeaningKey(const vfs::Disk& d) {
  string k = WorldKey(d);
  const string tok = "RECOMPACTION-PENDING;";
  for (size_t p; (p = k.find(tok)) != string::npos;) k.erase(p, tok.size());
  return k;
}

// ---------------------------------------------------------------------------------------------
// Violations
// ---------------------------------------------------------------------------------------------

struct Violation {
  string prop, clause, detail;
  J facts = J::Obj();
  vector<Step> hist;
  int known = -1;   // index into g_known (the listed known findings) or -1
};

/// The listed known findings (known_findings.json), used here only so that executions matching
/// one of them can never crowd an unlisted violation out of the (capped) report; the verdict
/// known/unknown itself is given by the driver (lib/nxcheck.py) with the same predicate.
struct KnownFinding { string prop; set<string> clauses; J facts = J::Obj(); };
static vector<KnownFinding> g_known;

static int MatchKnown(const Violation& v) {
  for (size_t i = 0; i < g_known.size(); ++i) {
    const KnownFinding& k = g_known[i];
    if (k.prop != v.prop) continue;
    if (!k.clauses.empty() && !k.clauses.count(v.clause)) continue;
    bool ok = true;
    for (auto& kv : k.facts.o)
      if (js::Dump(v.facts[kv.first]) != js::Dump(kv.second)) { ok = false; break; }
    if (ok) return (int)i;
  }
  return -1;
}

struct Stats {
  uint64_t states = 0, transitions = 0, invocations = 0, schedules = 0, commands = 0;
  uint64_t multi_outcome_points = 0, max_schedules_per_point = 0, tainted = 0;
  uint64_t dev_capped = 0, subset_capped = 0, crash_runs = 0, crash_worlds = 0, io_fault_runs = 0;
  int max_running = 0;
  uint64_t js_runs = 0, js_moves = 0, js_spins = 0, js_token_wakes = 0;   // jobserver seam: invocations, moves of the other client, ...
  bool complete = true;
  bool memory_stop = false;
  set<string> outcome_kinds;
};

// ---------------------------------------------------------------------------------------------
// Reference: clean-build contents (R-content) over the true graph
// ---------------------------------------------------------------------------------------------

static const Variant* VariantOf(const Scenario& sc, const vfs::Disk& d) {
  const vfs::File* f = d.Get("build.ninja");
  if (!f) return nullptr;
  uint64_t h = Fnv(f->data);
  for (auto& v : sc.variants)
    if (v.manifest_hash == h) {
      bool same = true;
      for (auto& kv : v.files) {
        const vfs::File* g = d.Get(kv.first);
        if (!g || g->data != kv.second) same = false;
      }
      if (same) return &v;
    }
  return nullptr;
}

static const Variant* VariantByHash(const Scenario& sc, uint64_t h) {
  for (auto& v : sc.variants) if (v.manifest_hash == h) return &v;
  return nullptr;
}

struct Expect {
  const Variant& v;
  const vfs::Disk& d;
  map<string, string> memo;
  set<string> visiting;
  Expect(const Variant& v, const vfs::Disk& d) : v(v), d(d) {}

  string Content(const string& path) {
    auto p = v.producer.find(path);
    if (p == v.producer.end() || v.stmts[p->second].phony) {
      const vfs::File* f = d.Get(path);
      return f && !f->dir ? f->data : string(kMissing);
    }
    auto m = memo.find(path);
    if (m != memo.end()) return m->second;
    if (!visiting.insert(path).second) return "\x01" "CYCLE";
    const Stmt& s = v.stmts[p->second];
    vector<pair<string, string>> reads;
    for (auto& r : s.spec.reads) reads.push_back({r, Content(r)});
    for (auto& r : s.spec.hidden) reads.push_back({r, Content(r)});
    string rsp = s.spec.rsp.empty() ? string() : s.rspfile_content;
    string c = ContentOf(s.spec, path, reads, rsp);
    visiting.erase(path);
    memo[path] = c;
    return c;
  }
};

/// Statements (indices) in the closure of the given target paths: every input kind, true reads,
/// validations, dyndep files.
static void Closure(const Variant& v, const vector<string>& roots, set<int>* stmts, set<string>* nodes) {
  vector<string> todo(roots.begin(), roots.end());
  while (!todo.empty()) {
    string n = todo.back();
    todo.pop_back();
    if (!nodes->insert(n).second) continue;
    auto p = v.producer.find(n);
    if (p == v.producer.end()) continue;
    if (!stmts->insert(p->second).second) continue;
    const Stmt& s = v.stmts[p->second];
    for (auto* l : {&s.ex, &s.im, &s.oo, &s.val}) for (auto& x : *l) todo.push_back(x);
    if (!s.phony) {
      for (auto& x : s.spec.reads) todo.push_back(x);
      for (auto& x : s.spec.hidden) todo.push_back(x);
    }
    if (!s.dyndep.empty()) todo.push_back(s.dyndep);
  }
}

static vector<string> DefaultTargets(const Variant& v) {
  if (!v.defaults.empty()) return v.defaults;
  set<string> used;
  for (auto& s : v.stmts)
    for (auto* l : {&s.ex, &s.im, &s.oo}) for (auto& x : *l) used.insert(x);
  vector<string> roots;
  for (auto& s : v.stmts)
    for (auto& o : s.outs) if (!used.count(o)) roots.push_back(o);
  return roots;
}

// ---------------------------------------------------------------------------------------------
// The explorer
// ---------------------------------------------------------------------------------------------

struct Explorer {
  const Scenario& sc;
  set<string> props;
  Stats st;
  vector<Violation> violations;
  int max_violations = 20;
  double deadline = 0;  // CLOCK_MONOTONIC seconds; 0 = none
  int dev_bound = -1;
  bool verbose = false;
  vector<J> samples;

  Explorer(const Scenario& sc) : sc(sc) { nx::g_alloc_descending = sc.alloc_descending; }

  bool Want(const char* p) const { return props.empty() || props.count(p); }

  static double Now() {
    struct timespec t;
    clock_gettime(CLOCK_MONOTONIC, &t);
    return t.tv_sec + t.tv_nsec * 1e-9;
  }
  bool TimeUp() const { return deadline > 0 && Now() > deadline; }

  void Report(const Violation& v0, const vector<Step>& hist) {
    Violation v = v0;
    v.hist = hist;
    // one report per (prop, clause, first fact) is enough; keep the first (shortest history)
    for (auto& o : violations)
      if (o.prop == v.prop && o.clause == v.clause && js::Dump(o.facts) == js::Dump(v.facts)) return;
    v.known = MatchKnown(v);
    int same = 0;
    for (auto& o : violations) if ((o.known >= 0) == (v.known >= 0) && (v.known < 0 || o.known == v.known)) same++;
    // separate budgets: a few examples per listed finding, and max_violations for everything else
    if (same < (v.known >= 0 ? 3 : max_violations)) violations.push_back(v);
  }

  // ---- non-ninja operations ---------------------------------------------------------------
  /// Returns false when the operation is not applicable in this world.
  bool ApplySimple(const Op& op, vfs::Disk* d, bool twin = false) {
    switch (op.kind) {
      case Op::kEdit: {
        const vfs::File* f = d->Get(op.path);
        if (!f || f->dir) return false;
        string c = f->data;
        size_t n = c.size();
        if (n >= 2 && c[n - 2] == '~' && c[n - 1] == '\n') c.erase(n - 2, 1);
        else if (n >= 1 && c[n - 1] == '\n') c.insert(n - 1, "~");
        else c += "~";
        return d->Write(op.path, c);
      }
      case Op::kTouch: {
        auto it = d->files.find(op.path);
        if (it == d->files.end()) return false;
        it->second.mtime = d->Tick();
        return true;
      }
      case Op::kEpoch: {
        // `touch -d @0 file`: the time stamp a file gets from an archive made reproducibly (mtime -1 = second 0, ns 0)
        auto it = d->files.find(op.path);
        if (it == d->files.end() || it->second.dir || it->second.mtime == -1) return false;
        it->second.mtime = -1;
        return true;
      }
      case Op::kRm: return d->Remove(op.path);
      case Op::kWrite: {
        const vfs::File* f = d->Get(op.path);
        if (f && !f->dir && f->data == op.content) return false;
        return d->Write(op.path, op.content);
      }
      case Op::kMkdir: {
        if (d->Exists(op.path)) return false;
        d->MkdirP(op.path);
        return true;
      }
      case Op::kVariant: {
        const Variant& v = (twin ? sc.twin_variants : sc.variants)[op.variant];
        bool changed = false;
        for (auto& kv : v.files) {
          const vfs::File* f = d->Get(kv.first);
          if (!f || f->data != kv.second) { d->Write(kv.first, kv.second); changed = true; }
        }
        return changed;
      }
      case Op::kRmLogRecord: {
        auto it = d->files.find(kLog);
        if (it == d->files.end()) return false;
        string out, &data = it->second.data;
        bool removed = false;
        size_t pos = 0;
        while (pos < data.size()) {
          size_t nl = data.find('\n', pos);
          if (nl == string::npos) nl = data.size() - 1;
          string line = data.substr(pos, nl - pos + 1);
          pos = nl + 1;
          vector<string> f;
          size_t p = 0;
          for (int k = 0; k < 4; ++k) {
            size_t t = line.find('\t', p);
            if (t == string::npos) break;
            f.push_back(line.substr(p, t - p));
            p = t + 1;
          }
          if (f.size() == 4 && f[3] == op.path) { removed = true; continue; }
          out += line;
        }
        if (!removed) return false;
        data = out;
        it->second.mtime = d->Tick();
        return true;
      }
      case Op::kDupLogRecord: {
        // a long history: the record of `path` has been appended many times over (content = count),
        // which pushes the log over the recompaction threshold
        auto it = d->files.find(kLog);
        if (it == d->files.end()) return false;
        string& data = it->second.data;
        if (data.empty() || data.back() != '\n') return false;
        lp::BuildLogModel m = lp::ParseBuildLog(data);
        if (m.total_lines > 300) return false;   // once is enough
        string rec;
        size_t pos = 0;
        while (pos < data.size()) {
          size_t nl = data.find('\n', pos);
          if (nl == string::npos) break;
          string line = data.substr(pos, nl - pos + 1);
          pos = nl + 1;
          size_t t = 0;
          int tabs = 0;
          size_t f3 = string::npos, f4 = string::npos;
          for (size_t i = 0; i < line.size(); ++i)
            if (line[i] == '\t') { ++tabs; if (tabs == 3) f3 = i + 1; if (tabs == 4) f4 = i; }
          (void)t;
          if (tabs == 4 && f3 != string::npos && line.substr(f3, f4 - f3) == op.path) rec = line;
        }
        if (rec.empty()) return false;
        int n = atoi(op.content.c_str());
        if (n <= 0) n = 400;
        for (int i = 0; i < n; ++i) data += rec;
        it->second.mtime = d->Tick();
        return true;
      }
      case Op::kDupDepsRecord: {
        // a long history for the deps log: the current deps record of `path` appended `content` more times
        auto it = d->files.find(kDeps);
        if (it == d->files.end()) return false;
        string& data = it->second.data;
        lp::DepsLogModel m = lp::ParseDepsLog(data);
        if (!m.header_ok || !m.clean || m.records > 900) return false;
        auto e = m.deps.find(op.path);
        if (e == m.deps.end()) return false;
        auto id_of = [&](const string& pth) {
          for (size_t i = 0; i < m.paths.size(); ++i) if (m.paths[i] == pth) return (int32_t)i;
          return (int32_t)-1;
        };
        string rec;
        auto W = [&](uint32_t w) { rec.append((const char*)&w, 4); };
        uint32_t size = (uint32_t)(12 + 4 * e->second.deps.size());
        W(size | 0x80000000u);
        W((uint32_t)id_of(op.path));
        W((uint32_t)((uint64_t)e->second.mtime & 0xffffffffu));
        W((uint32_t)((uint64_t)e->second.mtime >> 32));
        for (auto& dp : e->second.deps) W((uint32_t)id_of(dp));
        int n = atoi(op.content.c_str());
        if (n <= 0) n = 1100;
        for (int i = 0; i < n; ++i) data += rec;
        it->second.mtime = d->Tick();
        return true;
      }
      default: return false;
    }
  }

  // ---- monitors -------------------------------------------------------------------------------

  static bool Started(const RunResult& r, const string& id) {
    for (auto& c : r.cmds) if (c.spec.id() == id) return true;
    return false;
  }

  static J StartedList(const RunResult& r) {
    J a = J::Arr();
    for (auto& c : r.cmds) a.push(c.spec.id());
    return a;
  }

  vector<string> TargetsOf(const Op& op, const Variant& v) {
    return op.targets.empty() ? DefaultTargets(v) : op.targets;
  }

  /// Was the statement's discovered-dependency information (its depfile, or its record in the deps
  /// log) there when the invocation started?  The known finding F2 is about information that exists
  /// but is not examined; a statement whose information is *missing* must simply be rebuilt.
  static bool DiscoveredDepsAvailable(const Stmt& s, const vfs::Disk& before) {
    if (!s.deps.empty()) {
      const vfs::File* f = before.Get(kDeps);
      if (!f) return false;
      lp::DepsLogModel m = lp::ParseDepsLog(f->data);
      return m.deps.count(s.id) > 0;
    }
    if (!s.depfile.empty()) return before.Get(s.depfile) != nullptr;
    return false;
  }

  /// C01: after exit 0 every file in the closure of the targets equals the clean-build content.
  void CheckContent(const Op& op, const RunResult& r, const vfs::Disk& after, vector<Violation>* out,
                    const char* prop = "C01", const vfs::Disk* before = nullptr) {
    const Variant* v = VariantOf(sc, after);
    if (!v) {
      Violation x;
      x.prop = prop; x.clause = "manifest";
      x.detail = "after a successful build build.ninja matches no known variant";
      out->push_back(x);
      return;
    }
    vector<string> roots = TargetsOf(op, *v);
    if (v->producer.count("build.ninja")) roots.push_back("build.ninja");
    set<int> stmts;
    set<string> nodes;
    Closure(*v, roots, &stmts, &nodes);
    Expect ex(*v, after);
    auto disk_content = [&](const string& o) {
      const vfs::File* f = after.Get(o);
      return f && !f->dir ? f->data : string(kMissing);
    };
    for (int si : stmts) {
      const Stmt& s = v->stmts[si];
      if (s.phony) continue;
      // Report root causes only: a statement whose own true reads are all as a clean build would
      // have them, yet whose output differs.  (Everything downstream of a stale file differs too.)
      bool upstream_stale = false;
      for (auto* l : {&s.spec.reads, &s.spec.hidden})
        for (auto& x : *l)
          if (v->producer.count(x) && !v->stmts[v->producer.at(x)].phony && disk_content(x) != ex.Content(x))
            upstream_stale = true;
      if (upstream_stale) continue;
      for (auto& o : s.spec.outs) {
        string want = ex.Content(o);
        string got = disk_content(o);
        if (got == want) continue;
        Violation x;
        x.prop = prop;
        x.clause = "stale-output";
        x.detail = "after exit 0, '" + o + "' differs from a clean build of the current sources/manifest";
        x.facts.set("output", o);
        x.facts.set("stmt", s.id);
        x.facts.set("ran_in_this_invocation", Started(r, s.id));
        x.facts.set("deps", s.deps);
        x.facts.set("depfile", !s.depfile.empty());
        x.facts.set("has_discovered_deps", !s.deps.empty() || !s.depfile.empty());
        x.facts.set("restat", s.restat);
        x.facts.set("generator", s.generator);
        x.facts.set("actual", got == kMissing ? "missing" : got.compare(0, 7, "GARBAGE") == 0 ? "garbage-from-failed-command"
                                  : got.compare(0, 7, "PARTIAL") == 0 ? "partial-from-killed-command" : "old-content");
        {
          // Did a restat statement upstream run in this invocation without rewriting its output?
          set<int> up;
          Upstream(*v, si, &up);
          bool restat_nowrite = false;
          for (int u : up)
            for (auto& c : r.cmds)
              if (c.spec.id() == v->stmts[u].id && v->stmts[u].restat && c.finished && c.status == 0 && !c.wrote)
                restat_nowrite = true;
          x.facts.set("restat_upstream_ran_without_rewriting", restat_nowrite);
        }
        if (before) x.facts.set("discovered_deps_information_was_available", DiscoveredDepsAvailable(s, *before));
        {
          // Is the file what the statement's command line in ANOTHER variant of the manifest writes (same sources)?
          // After a killed build that is the trace of a command that completed without being recorded, under a
          // manifest that has since been changed back to the one the older log record was made under.
          bool other = false;
          for (auto& v2 : sc.variants) {
            if (&v2 == v || !v2.producer.count(o) || v2.stmts[v2.producer.at(o)].phony) continue;
            const Stmt& s2 = v2.stmts[v2.producer.at(o)];
            if (s2.cmd == s.cmd) continue;
            Expect ex2(v2, after);
            if (ex2.Content(o) == got) other = true;
          }
          x.facts.set("holds_what_its_command_line_in_another_manifest_variant_writes", other);
        }
        x.facts.set("started", StartedList(r));
        out->push_back(x);
        break;
      }
    }
    // What ninja trusts for the future: the recorded dependencies of every statement it now considers up to date are
    // the ones its command reports -- an older list that is still accepted would let an edit of a file the command
    // has started to read go unnoticed in every later build (content is still right today, so only this sees it).
    {
      lp::DepsLogModel dl;
      if (auto* f = after.Get(kDeps)) dl = lp::ParseDepsLog(f->data);
      for (int si : stmts) {
        const Stmt& s = v->stmts[si];
        if (s.phony || s.deps.empty()) continue;
        auto it = dl.deps.find(s.id);
        if (it == dl.deps.end()) continue;   // no record: ninja rebuilds the statement ("deps missing")
        const vfs::File* of = after.Get(s.id);
        if (!of || vfs::TickToNs(of->mtime) > it->second.mtime) continue;   // record older than the output: not trusted
        set<string> want(s.spec.hidden.begin(), s.spec.hidden.end()), got(it->second.deps.begin(), it->second.deps.end());
        if (s.spec.depall) want.insert(s.spec.reads.begin(), s.spec.reads.end());
        if (want == got) continue;
        Violation x;
        x.prop = prop;
        x.clause = "recorded-deps-stale";
        string g, w;
        for (auto& q : got) g += q + " ";
        for (auto& q : want) w += q + " ";
        x.detail = "after exit 0 the deps log still says '" + s.id + "' reads {" + g + "} and the record counts as valid, but its command "
                   "now reports {" + w + "}";
        x.facts.set("stmt", s.id);
        x.facts.set("ran_in_this_invocation", Started(r, s.id));
        out->push_back(x);
      }
    }
  }

  /// C02: the same invocation repeated immediately runs nothing.
  void CheckConverge(const Op& op, const RunResult& first, const vfs::Disk& after, vector<Violation>* out,
                     const vfs::Disk* before = nullptr) {
    vfs::Disk d2 = after;
    RunConfig cfg;
    cfg.args = op.cfg.args;
    cfg.env = op.cfg.env;
    RunResult r2 = RunNinja(&d2, cfg, {});
    st.invocations++;
    bool ok = r2.exit_code == 0 && r2.cmds.empty() && !r2.hang &&
              r2.out.find("ninja: no work to do.") != string::npos;
    if (ok) {
      // ... and nothing changes: compare worlds (the second run may only have re-created/removed
      // its lock file, which leaves no trace).
      if (WorldKey(d2) != WorldKey(after)) {
        Violation x;
        x.prop = "C02"; x.clause = "world-changed";
        x.detail = "a no-op build changed the world";
        out->push_back(x);
      }
      return;
    }
    Violation x;
    x.prop = "C02";
    x.clause = "not-converged";
    x.detail = "second identical invocation: exit=" + to_string(r2.exit_code) + " started=" +
               js::Dump(StartedList(r2));
    x.facts.set("rerun", StartedList(r2));
    x.facts.set("exit", r2.exit_code);
    const Variant* v = VariantOf(sc, after);
    if (v && !r2.cmds.empty()) {
      auto p = v->producer.find(r2.cmds[0].spec.id());
      if (p != v->producer.end()) {
        const Stmt& s = v->stmts[p->second];
        x.facts.set("rerun_has_discovered_deps", !s.deps.empty() || !s.depfile.empty());
        x.facts.set("rerun_restat", s.restat);
        set<int> up;
        Upstream(*v, p->second, &up);
        bool restat_nowrite = false;
        for (int u : up)
          for (auto& c : first.cmds)
            if (c.spec.id() == v->stmts[u].id && v->stmts[u].restat && c.finished && c.status == 0 && !c.wrote)
              restat_nowrite = true;
        x.facts.set("restat_upstream_ran_without_rewriting_in_first_run", restat_nowrite);
        x.facts.set("rerun_ran_in_first_run", Started(first, s.id));
        // F1 in the manifest phase: a prerequisite of the manifest's generator with recorded dependencies, dirty for a reason
        // of its own, ran there without its generated header being brought up to date first, and ran again in the build
        // proper -- after the generator, which therefore finds its input newer the next time
        bool twice = false;
        for (int u : up) {
          int n = 0;
          for (auto& c : first.cmds) if (c.spec.id() == v->stmts[u].id) ++n;
          if (n >= 2 && (!v->stmts[u].deps.empty() || !v->stmts[u].depfile.empty())) twice = true;
        }
        x.facts.set("an_input_statement_with_recorded_deps_ran_in_the_manifest_phase_and_again_in_the_build_proper",
                    twice && s.id == "build.ninja");
        if (before) x.facts.set("discovered_deps_information_was_available_to_first_run", DiscoveredDepsAvailable(s, *before));
      }
    }
    out->push_back(x);
  }

  /// Transitive producers (statement ids) of a statement through every declared input kind and its
  /// declared reads, looking through phony statements.
  void Producers(const Variant& v, const Stmt& s, set<int>* direct) {
    vector<string> ins = s.AllDeclaredInputs();
    if (!s.phony) for (auto& x : s.spec.reads) ins.push_back(x);
    if (!s.dyndep.empty()) ins.push_back(s.dyndep);
    for (auto& x : ins) {
      auto p = v.producer.find(x);
      if (p == v.producer.end()) continue;
      const Stmt& ps = v.stmts[p->second];
      if (ps.phony) Producers(v, ps, direct);
      else direct->insert(p->second);
    }
  }

  void Upstream(const Variant& v, int si, set<int>* all) {
    set<int> d;
    Producers(v, v.stmts[si], &d);
    for (int p : d) if (all->insert(p).second) Upstream(v, p, all);
  }

  /// C04: at every Start all producers that ran have finished successfully; directories exist;
  /// response file content.
  void CheckOrder(const RunResult& r, vector<Violation>* out) {
    // event index of start/finish per command
    vector<int> start_ev(r.cmds.size(), -1), fin_ev(r.cmds.size(), -1);
    for (size_t i = 0; i < r.events.size(); ++i) {
      const Event& e = r.events[i];
      if (e.kind == Event::kStart) start_ev[e.cmd] = (int)i;
      if (e.kind == Event::kFinish) fin_ev[e.cmd] = (int)i;
    }
    for (size_t c = 0; c < r.cmds.size(); ++c) {
      const RunCmd& rc = r.cmds[c];
      const Variant* v = VariantByHash(sc, rc.manifest_hash);
      if (!v) continue;
      auto p = v->producer.find(rc.spec.id());
      if (p == v->producer.end()) continue;
      const Stmt& s = v->stmts[p->second];
      set<int> prods;
      Producers(*v, s, &prods);
      for (int pi : prods) {
        const Stmt& ps = v->stmts[pi];
        for (size_t c2 = 0; c2 < r.cmds.size(); ++c2) {
          if (r.cmds[c2].spec.id() != ps.id || r.cmds[c2].cycle != rc.cycle) continue;
          bool done_ok = fin_ev[c2] >= 0 && fin_ev[c2] < start_ev[c] && r.cmds[c2].status == 0;
          if (!done_ok) {
            Violation x;
            x.prop = r.cmds[c2].finished && r.cmds[c2].status != 0 && fin_ev[c2] < start_ev[c] ? "C05" : "C04";
            x.clause = x.prop == "C05" ? "started-after-failed-input" : "started-before-producer-finished";
            x.detail = "'" + s.id + "' started although its producer '" + ps.id + "' " +
                       (x.prop == "C05" ? "had failed" : "had not finished successfully");
            x.facts.set("stmt", s.id);
            x.facts.set("producer", ps.id);
            out->push_back(x);
            if (x.prop == "C05") {
              // a failed producer has not "finished successfully" either: the same start violates C04
              Violation y = x;
              y.prop = "C04";
              y.clause = "started-although-producer-failed";
              out->push_back(y);
            }
          }
        }
      }
      // ... and through statements that have nothing to do themselves: what X needs runs through an up-to-date statement
      // whose own (declared) inputs are being rebuilt -- X starts after those, and not at all when one of them failed
      {
        set<int> behind, seen_st;
        vector<int> todo;
        for (int pi : prods) todo.push_back(pi);
        while (!todo.empty()) {
          int pi = todo.back();
          todo.pop_back();
          if (!seen_st.insert(pi).second) continue;
          const Stmt& ps = v->stmts[pi];
          bool ran = false;
          for (auto& c2 : r.cmds) if (c2.spec.id() == ps.id && c2.cycle == rc.cycle) ran = true;
          if (ran) { if (!prods.count(pi)) behind.insert(pi); continue; }   // its own start was judged; direct ones above
          vector<string> ins = ps.AllDeclaredInputs();
          if (!ps.dyndep.empty()) ins.push_back(ps.dyndep);
          vector<string> more;
          while (!ins.empty()) {
            string x = ins.back();
            ins.pop_back();
            auto px = v->producer.find(x);
            if (px == v->producer.end()) continue;
            const Stmt& xs = v->stmts[px->second];
            if (xs.phony) { for (auto& y : xs.AllDeclaredInputs()) ins.push_back(y); continue; }
            todo.push_back(px->second);
          }
        }
        for (int pi : behind) {
          const Stmt& ps = v->stmts[pi];
          for (size_t c2 = 0; c2 < r.cmds.size(); ++c2) {
            if (r.cmds[c2].spec.id() != ps.id || r.cmds[c2].cycle != rc.cycle) continue;
            bool done_ok = fin_ev[c2] >= 0 && fin_ev[c2] < start_ev[c] && r.cmds[c2].status == 0;
            if (done_ok) continue;
            bool failed_before = r.cmds[c2].finished && r.cmds[c2].status != 0 && fin_ev[c2] < start_ev[c];
            Violation x;
            x.prop = failed_before ? "C05" : "C04";
            x.clause = failed_before ? "started-behind-a-failure" : "started-before-indirect-producer-finished";
            x.detail = "'" + s.id + "' started although '" + ps.id + "', which it depends on through statements that had nothing to do, " +
                       (failed_before ? "had failed" : "had not finished successfully");
            x.facts.set("stmt", s.id);
            x.facts.set("producer", ps.id);
            out->push_back(x);
          }
        }
      }
      if (!rc.missing_dirs.empty()) {
        Violation x;
        x.prop = "C04"; x.clause = "missing-directory";
        x.detail = "'" + s.id + "' started while the directory of '" + rc.missing_dirs[0] + "' did not exist";
        x.facts.set("stmt", s.id);
        out->push_back(x);
      }
      if (s.has_rsp && !rc.spec.rsp.empty() && rc.rsp_content != s.rspfile_content) {
        Violation x;
        x.prop = "C04"; x.clause = "rspfile-content";
        x.detail = "'" + s.id + "' started with response file " +
                   (rc.rsp_content == kMissing ? string("missing") : "holding '" + rc.rsp_content + "'") +
                   " instead of '" + s.rspfile_content + "'";
        x.facts.set("stmt", s.id);
        out->push_back(x);
        // "written with exactly the evaluated rspfile_content before the command starts" is C16's clause as well
        Violation y = x;
        y.prop = "C16";
        out->push_back(y);
      }
    }
  }

  /// C16 (rspfile part): removed after success, kept after failure.
  void CheckRspLifecycle(const RunResult& r, const vfs::Disk& after, vector<Violation>* out) {
    if (r.crashed || r.hang) return;
    bool interrupted = false;
    for (auto& e : r.events) if (e.kind == Event::kInterrupt) interrupted = true;
    if (interrupted) {
      // "removed after the command succeeds (kept when it fails)": a command that was stopped has not succeeded
      for (auto& rc : r.cmds) {
        if (!rc.killed || rc.spec.rsp.empty() || rc.rsp_content == kMissing) continue;
        if (!after.Get(rc.spec.rsp)) {
          Violation x; x.prop = "C16"; x.clause = "rspfile-removed-after-interrupt";
          x.detail = "response file '" + rc.spec.rsp + "' was removed although its command was interrupted, not finished successfully";
          x.facts.set("stmt", rc.spec.id());
          out->push_back(x);
        }
      }
      return;
    }
    // ninja gave up because it could not write a response file, with nothing wrong on the disk (no injected fault on this
    // path): the file has to be writable wherever the manifest puts it -- next to an output whose directory ninja creates
    {
      bool failed_cmd = false;
      for (auto& rc : r.cmds) if (rc.finished && rc.status != 0) failed_cmd = true;
      if (r.exit_code != 0 && !failed_cmd && r.out.find("WriteFile(") != string::npos) {
        Violation x; x.prop = "C16"; x.clause = "rspfile-not-written";
        x.detail = "ninja stopped (exit " + to_string(r.exit_code) + ") because a response file could not be written: " + r.out.substr(0, 200);
        out->push_back(x);
      }
    }
    map<string, const RunCmd*> last;
    for (auto& rc : r.cmds) last[rc.spec.id()] = &rc;
    for (auto& kv : last) {
      const RunCmd& rc = *kv.second;
      if (rc.spec.rsp.empty() || !rc.finished || rc.unreaped) continue;
      bool exists = after.Get(rc.spec.rsp) != nullptr;
      if (rc.status == 0 && exists) {
        Violation x; x.prop = "C16"; x.clause = "rspfile-left-after-success";
        x.detail = "response file '" + rc.spec.rsp + "' still exists after its command succeeded";
        x.facts.set("stmt", rc.spec.id());
        out->push_back(x);
      }
      if (rc.status != 0 && !exists) {
        Violation x; x.prop = "C16"; x.clause = "rspfile-removed-after-failure";
        x.detail = "response file '" + rc.spec.rsp + "' was removed although its command failed";
        x.facts.set("stmt", rc.spec.id());
        out->push_back(x);
      }
    }
  }

  /// C05: containment, exit status, no log record, budget.
  void CheckFailures(const Op& op, const RunResult& r, const vfs::Disk& before, const vfs::Disk& after,
                     const RunResult* baseline, vector<Violation>* out) {
    if (r.hang || r.crashed || r.horizon) return;
    vector<int> failed;
    bool interrupted = false;
    for (auto& e : r.events) if (e.kind == Event::kInterrupt) interrupted = true;
    for (size_t c = 0; c < r.cmds.size(); ++c)
      if (r.cmds[c].finished && r.cmds[c].status != 0) {
        if (r.cmds[c].status == 130) interrupted = true;
        failed.push_back((int)c);
      }
    if (interrupted) return;
    // a build that was stopped (a command failed or could not even be started) never exits 0
    if (r.exit_code == 0 && r.out.find("ninja: build stopped:") != string::npos) {
      Violation x;
      x.prop = "C05"; x.clause = "build-stopped-with-exit-0";
      size_t at = r.out.find("ninja: build stopped:");
      x.detail = "ninja printed '" + r.out.substr(at, r.out.find('\n', at) - at) + "' and exited 0";
      out->push_back(x);
    }
    if (failed.empty()) return;
    // exit status
    bool code_ok = false;
    for (int c : failed) if (r.cmds[c].status == r.exit_code) code_ok = true;
    if (r.exit_code == 0 || !code_ok) {
      Violation x;
      x.prop = "C05"; x.clause = "exit-status";
      x.detail = "commands failed but ninja exited " + to_string(r.exit_code) +
                 ", which is not the status of any failed command";
      x.facts.set("exit", r.exit_code);
      out->push_back(x);
    }
    // budget: no Start after k failures.  Completions of one wait are handed to ninja one by one
    // (in running order) and it may start commands between two of them, so the sound statement on
    // the trace is: once a wait begins with >= k failures already reported, no Start may follow.
    const int kk = op.k > 0 ? op.k : 0x7fffffff;
    if (op.k > 0) {
      int seen_fail = 0;
      bool budget_gone = false;
      for (auto& e : r.events) {
        if (e.kind == Event::kFinish && e.status != 0) seen_fail++;
        if (e.kind == Event::kWait && seen_fail >= op.k) budget_gone = true;
        if (e.kind == Event::kStart && budget_gone) {
          Violation x;
          x.prop = "C05"; x.clause = "start-after-budget";
          x.detail = "'" + r.cmds[e.cmd].spec.id() + "' was started after " + to_string(op.k) + " failure(s)";
          x.facts.set("stmt", r.cmds[e.cmd].spec.id());
          out->push_back(x);
          break;
        }
      }
    }
    // no record for failed commands: parsed entries of their outputs unchanged
    lp::BuildLogModel b0, b1;
    lp::DepsLogModel d0, d1;
    if (auto* f = before.Get(kLog)) b0 = lp::ParseBuildLog(f->data);
    if (auto* f = after.Get(kLog)) b1 = lp::ParseBuildLog(f->data);
    if (auto* f = before.Get(kDeps)) d0 = lp::ParseDepsLog(f->data);
    if (auto* f = after.Get(kDeps)) d1 = lp::ParseDepsLog(f->data);
    for (int c : failed) {
      for (auto& o : r.cmds[c].spec.outs) {
        auto i0 = b0.entries.find(o), i1 = b1.entries.find(o);
        bool same = (i0 == b0.entries.end() && i1 == b1.entries.end()) ||
                    (i0 != b0.entries.end() && i1 != b1.entries.end() && i0->second == i1->second);
        auto j0 = d0.deps.find(o), j1 = d1.deps.find(o);
        bool same_d = (j0 == d0.deps.end() && j1 == d1.deps.end()) ||
                      (j0 != d0.deps.end() && j1 != d1.deps.end() && j0->second == j1->second);
        if (!same || !same_d) {
          Violation x;
          x.prop = "C05"; x.clause = "record-for-failed-command";
          x.detail = "a " + string(same ? "deps-log" : "build-log") + " record was written for '" + o +
                     "' although its command failed";
          x.facts.set("output", o);
          out->push_back(x);
        }
      }
    }
    // every successful completion is recorded (also after the budget is exhausted)
    for (size_t c = 0; c < r.cmds.size(); ++c) {
      const RunCmd& rc = r.cmds[c];
      if (!rc.finished || rc.status != 0) continue;
      for (auto& o : rc.spec.outs) {
        auto i1 = b1.entries.find(o);
        auto i0 = b0.entries.find(o);
        bool fresh = i1 != b1.entries.end() && (i0 == b0.entries.end() || !(i0->second == i1->second) ||
                                                 i1->second.mtime != 0);
        if (!fresh) {
          Violation x;
          x.prop = "C05"; x.clause = "success-not-recorded";
          x.detail = "'" + o + "' completed successfully in a failing build but has no build-log record";
          x.facts.set("output", o);
          out->push_back(x);
        }
      }
    }
    // keep going: everything the fault-free run starts and that is independent of the failures is
    // started, unless the budget ran out.
    if (baseline && (int)failed.size() < kk) {
      const Variant* v = VariantOf(sc, before);
      if (v) {
        set<string> failed_ids;
        for (int c : failed) failed_ids.insert(r.cmds[c].spec.id());
        // a failure among the commands that bring the manifest up to date: the build proper is not attempted with a manifest
        // that could not be regenerated -- everything outside that first build is "downstream of the manifest"
        set<int> mf;
        bool regen_failed = false;
        if (v->producer.count("build.ninja")) {
          Upstream(*v, v->producer.at("build.ninja"), &mf);
          mf.insert(v->producer.at("build.ninja"));
          for (int u : mf) if (failed_ids.count(v->stmts[u].id)) regen_failed = true;
        }
        for (auto& bc : baseline->cmds) {
          string id = bc.spec.id();
          if (Started(r, id)) continue;
          if (regen_failed) { auto pm = v->producer.find(id); if (pm == v->producer.end() || !mf.count(pm->second)) continue; }
          auto p = v->producer.find(id);
          if (p == v->producer.end()) continue;
          set<int> up;
          Upstream(*v, p->second, &up);
          bool downstream = false;
          for (int u : up) if (failed_ids.count(v->stmts[u].id)) downstream = true;
          if (downstream) continue;
          {
            // needed only through dyndep information that this (failing) build never got to load
            vector<int> fin_ev(r.cmds.size(), -1);
            for (size_t e = 0; e < r.events.size(); ++e)
              if (r.events[e].kind == Event::kFinish) fin_ev[r.events[e].cmd] = (int)e;
            set<int> known;
            int cyc = r.cmds.empty() ? 0 : r.cmds.back().cycle;
            KnownWanted(*v, TargetsOf(op, *v),
                        [&](const Stmt& t) { return DyndepLoadedAt(*v, t, r, cyc, (int)r.events.size(), fin_ev); }, &known);
            if (!known.count(p->second)) continue;
          }
          Violation x;
          x.prop = "C05"; x.clause = "independent-work-not-started";
          x.detail = "'" + id + "' does not depend on a failed command and the failure budget was not exhausted, "
                     "but it was never started";
          x.facts.set("stmt", id);
          out->push_back(x);
        }
      }
    }
  }

  /// C05, last sentence: a declared source file that is missing and has no rule is reported before any command is run.
  /// "Declared" = written in the manifest as explicit, implicit, order-only or validation input of a statement in the
  /// closure of the requested targets (dependencies a command *reported* are exempt: C10; a dyndep file is reported
  /// by another message).
  void CheckMissingSource(const Op& op, const RunResult& r, const vfs::Disk& before, vector<Violation>* out) {
    if (r.hang || r.crashed || r.horizon) return;
    const Variant* v = VariantOf(sc, before);
    if (!v) return;
    vector<string> roots = TargetsOf(op, *v);
    set<int> stmts;
    set<string> nodes;
    Closure(*v, roots, &stmts, &nodes);
    string missing, kinds;
    bool only_oo_or_val = true;
    bool oo_consumer_ran = false;   // a statement that names the missing file as an order-only input had work to do (and ran)
    for (int si : stmts) {
      const Stmt& st = v->stmts[si];
      int k = 0;
      for (auto* l : {&st.ex, &st.im, &st.oo, &st.val}) {
        for (auto& x : *l) {
          if (v->producer.count(x) || before.Get(x) || x == st.dyndep) continue;
          missing += x + " ";
          kinds += string(k == 0 ? "explicit" : k == 1 ? "implicit" : k == 2 ? "order-only" : "validation") + " ";
          if (k < 2) only_oo_or_val = false;
          if (k == 2 && !st.phony && Started(r, st.id)) oo_consumer_ran = true;
        }
        ++k;
      }
      // inputs that an existing dyndep file (a source itself) adds to the statement count like written ones
      if (!st.dyndep.empty() && !v->producer.count(st.dyndep) && before.Get(st.dyndep)) {
        const string& dd = before.Get(st.dyndep)->data;
        for (auto& x : st.spec.reads) {
          bool declared = false;
          for (auto* l : {&st.ex, &st.im, &st.oo}) for (auto& y : *l) if (y == x) declared = true;
          if (declared || v->producer.count(x) || before.Get(x) || dd.find(" " + x) == string::npos) continue;
          missing += x + " ";
          kinds += "implicit-through-a-dyndep-file ";
          only_oo_or_val = false;
        }
      }
    }
    for (auto& t : roots) if (!v->producer.count(t) && !before.Get(t)) { missing += t + " "; kinds += "target "; only_oo_or_val = false; }
    if (missing.empty()) return;
    bool reported = r.exit_code != 0 && (r.out.find("missing and no known rule to make it") != string::npos || r.out.find("unknown target") != string::npos);
    // commands of an earlier manifest cycle: the build that regenerates build.ninja is a build of its own
    int last_cycle = 0;
    for (auto& c : r.cmds) last_cycle = max(last_cycle, c.cycle);
    bool any_cmd = !r.cmds.empty(), only_regen = true;
    for (auto& c : r.cmds) if (c.spec.id() != "build.ninja" && !(v->producer.count("build.ninja") && c.cycle < last_cycle)) only_regen = false;
    if (reported && !any_cmd) return;
    Violation x; x.prop = "C05"; x.clause = "missing-source-not-reported-first";
    x.detail = "declared source(s) {" + missing + "} (" + kinds + ") are missing and have no rule, but ninja " +
               (reported ? "reported it only after starting " : "did not report it (exit " + to_string(r.exit_code) + ") and started ") + js::Dump(StartedList(r));
    x.facts.set("missing_only_as_order_only_or_validation_input", only_oo_or_val);
    x.facts.set("a_statement_naming_it_as_an_order_only_input_ran", oo_consumer_ran);
    x.facts.set("reported", reported);
    x.facts.set("only_manifest_regeneration_commands_ran_first", any_cmd && only_regen);
    out->push_back(x);
  }

  /// C05 (retry clause): with the fault still present and an unlimited failure budget, every
  /// command that failed is started again unless something upstream of it fails first.
  void CheckRetry(const Op& op, const RunResult& r, const vfs::Disk& before, const vfs::Disk& after,
                  vector<Violation>* out) {
    if (r.hang || r.crashed || r.horizon) return;
    for (auto& e : r.events) if (e.kind == Event::kInterrupt) return;
    vector<const RunCmd*> failed;
    for (auto& c : r.cmds) {
      if (c.finished && c.status == 130) return;
      if (c.finished && c.status != 0) failed.push_back(&c);
    }
    if (failed.empty()) return;
    const Variant* v = VariantOf(sc, after);
    if (!v) return;
    vfs::Disk d2 = after;
    RunConfig cfg = op.cfg;
    cfg.allow_interrupt = false;
    cfg.args.clear();
    for (auto& f : op.flags) cfg.args.push_back(f.compare(0, 2, "-k") == 0 ? string("-k0") : f);
    for (auto& t : op.targets) cfg.args.push_back(t);
    RunResult r2 = RunNinja(&d2, cfg, {});
    st.invocations++;
    for (const RunCmd* f : failed) {
      string id = f->spec.id();
      if (Started(r2, id)) continue;
      auto p = v->producer.find(id);
      if (p == v->producer.end()) continue;
      set<int> up;
      Upstream(*v, p->second, &up);
      bool upstream_failed = false;
      for (int u : up)
        for (auto& c : r2.cmds)
          if (c.spec.id() == v->stmts[u].id && c.finished && c.status != 0) upstream_failed = true;
      if (upstream_failed) continue;
      Violation x;
      x.prop = "C05"; x.clause = "failed-command-not-retried";
      x.detail = "'" + id + "' failed, the cause persists, but the next build (exit " + to_string(r2.exit_code) +
                 ") does not start it again";
      x.facts.set("stmt", id);
      x.facts.set("failed_command_had_overwritten_its_outputs", f->wrote);
      bool missing_before = false;
      for (auto& o : f->spec.outs) if (!before.Get(o)) missing_before = true;
      x.facts.set("an_output_was_missing_before_the_failing_build", missing_before);
      x.facts.set("generator", v->stmts[p->second].generator);
      x.facts.set("next_exit", r2.exit_code);
      {
        // plain depfile mode: the depfile on disk is read by every later scan, also the debris of a tool that died
        auto fi = op.cfg.faults.find(id);
        bool bad = fi != op.cfg.faults.end() && fi->second.bad_depfile && v->stmts[p->second].deps.empty() &&
                   !v->stmts[p->second].depfile.empty() && r2.cmds.empty() && r2.out.find("expected ':' in depfile") != string::npos;
        x.facts.set("the_next_build_refuses_the_unparsable_depfile_the_failed_command_left", bad);
      }
      out->push_back(x);
    }
  }

  bool Converged(const Op& op, const vfs::Disk& d) {
    vfs::Disk d2 = d;
    RunConfig cfg;
    cfg.args = op.cfg.args;
    cfg.env = op.cfg.env;
    RunResult r2 = RunNinja(&d2, cfg, {});
    st.invocations++;
    return r2.exit_code == 0 && r2.cmds.empty() && !r2.hang;
  }

  /// C03: after 1-2 changes to a converged tree the started set is exactly the make-semantics
  /// set: statements whose own inputs / command / rspfile / record / outputs / reported deps were
  /// affected, plus statements downstream (non-order-only) of an output that is actually rewritten.
  void CheckMinimal(const Op& op, const RunResult& r, const vfs::Disk& base, const vfs::Disk& cur,
                    const set<string>& base_restat_pruned, vector<Violation>* out) {
    if (r.hang || r.crashed || r.horizon) return;
    const Variant* v = VariantOf(sc, cur);
    const Variant* v0 = VariantOf(sc, base);
    if (!v || !v0) return;
    lp::BuildLogModel b0, b1;
    if (auto* f = base.Get(kLog)) b0 = lp::ParseBuildLog(f->data);
    if (auto* f = cur.Get(kLog)) b1 = lp::ParseBuildLog(f->data);
    auto changed_file = [&](const string& x) {
      const vfs::File* a = base.Get(x);
      const vfs::File* b = cur.Get(x);
      if (!a && !b) return false;
      if (!a || !b) return true;
      return a->mtime != b->mtime || a->data != b->data;
    };
    size_t n = v->stmts.size();
    vector<int> affected(n, 0), runs(n, -1), cause(n, -1);
    vector<string> why(n);
    for (size_t i = 0; i < n; ++i) {
      const Stmt& s = v->stmts[i];
      if (s.phony) continue;
      auto p0 = v0->producer.find(s.id);
      const Stmt* s0 = p0 == v0->producer.end() ? nullptr : &v0->stmts[p0->second];
      if (!s.generator && (!s0 || s0->cmd != s.cmd || s0->rspfile_content != s.rspfile_content)) {
        affected[i] = 1; why[i] = "command line / response file changed";
      }
      for (auto& o : s.spec.outs) if (!cur.Get(o)) { affected[i] = 1; why[i] = "output " + o + " missing"; }
      for (auto* l : {&s.spec.reads, &s.spec.hidden})
        for (auto& x : *l) {
          auto px = v->producer.find(x);
          bool is_source = px == v->producer.end() || v->stmts[px->second].phony;
          if (is_source && changed_file(x)) { affected[i] = 1; why[i] = "input " + x + " changed"; }
        }
      if (!s.generator)
        for (auto& o : s.outs)
          if (b0.entries.count(o) && !b1.entries.count(o)) { affected[i] = 1; why[i] = "log record of " + o + " deleted"; }
      // a declared output that the statement did not declare when the base build ran (the manifest was edited): the log has
      // no record that says this command line made it
      if (!s.generator && s0)
        for (auto& o : s.outs)
          if (find(s0->outs.begin(), s0->outs.end(), o) == s0->outs.end() && !b1.entries.count(o)) { affected[i] = 1; why[i] = "no log record for the newly declared output " + o; }
      if (!s.depfile.empty() && s.deps.empty() && base.Get(s.depfile) && !cur.Get(s.depfile)) {
        affected[i] = 1; why[i] = "depfile deleted";
      }
      if (!s.deps.empty() && DiscoveredDepsAvailable(s, base) && !DiscoveredDepsAvailable(s, cur)) {
        affected[i] = 1; why[i] = "record in the deps log lost";
      }
    }
    Expect ex(*v, cur);
    function<bool(int)> Runs = [&](int i) -> bool {
      if (runs[i] >= 0) return runs[i];
      runs[i] = 0;  // cycle guard
      const Stmt& s = v->stmts[i];
      bool res = affected[i];
      if (!res && !s.phony) {
        for (auto* l : {&s.spec.reads, &s.spec.hidden})
          for (auto& x : *l) {
            auto px = v->producer.find(x);
            if (px == v->producer.end() || v->stmts[px->second].phony) continue;
            const Stmt& ps = v->stmts[px->second];
            if (!Runs(px->second)) continue;
            bool rewrote = true;
            if (ps.restat || (ps.spec.restat && !ps.dyndep.empty())) {   // declared, or supplied by the statement's dyndep file
              const vfs::File* old = cur.Get(x);
              rewrote = !old || old->data != ex.Content(x);
            }
            if (rewrote) { res = true; why[i] = "input " + x + " is rewritten by " + ps.id; cause[i] = px->second; }
          }
      }
      runs[i] = res;
      return res;
    };
    vector<string> roots = TargetsOf(op, *v);
    set<int> stmts;
    set<string> nodes;
    Closure(*v, roots, &stmts, &nodes);
    set<string> expected, actual;
    for (int si : stmts) if (!v->stmts[si].phony && Runs(si)) expected.insert(v->stmts[si].id);
    for (auto& c : r.cmds) actual.insert(c.spec.id());
    if (expected == actual) return;
    for (auto& id : expected) if (!actual.count(id)) {
      int si = v->producer.at(id);
      const Stmt& s = v->stmts[si];
      // root causes only: a statement that should run only because a producer rewrites its input is a
      // consequence when that producer itself was (wrongly) not run
      if (!affected[si] && cause[si] >= 0 && !actual.count(v->stmts[cause[si]].id)) continue;
      Violation x;
      x.prop = "C03"; x.clause = "needed-command-not-run";
      x.detail = "'" + id + "' should run (" + why[si] + ") but was not started; started=" + js::Dump(StartedList(r));
      x.facts.set("stmt", id);
      x.facts.set("has_discovered_deps", !s.deps.empty() || !s.depfile.empty());
      set<int> up;
      Upstream(*v, si, &up);
      bool restat_nowrite = false;
      for (int u : up)
        for (auto& c : r.cmds)
          if (c.spec.id() == v->stmts[u].id && v->stmts[u].restat && c.finished && c.status == 0 && !c.wrote)
            restat_nowrite = true;
      x.facts.set("restat_upstream_ran_without_rewriting", restat_nowrite);
      x.facts.set("discovered_deps_information_was_available", DiscoveredDepsAvailable(s, cur));
      x.facts.set("exit", r.exit_code);
      out->push_back(x);
    }
    for (auto& id : actual) if (!expected.count(id)) {
      auto p = v->producer.find(id);
      Violation x;
      x.prop = "C03"; x.clause = "unaffected-command-run";
      x.detail = "'" + id + "' was started although nothing that affects it changed; expected set=" +
                 [&] { string e; for (auto& i : expected) e += i + " "; return e; }();
      x.facts.set("stmt", id);
      if (p != v->producer.end()) {
        x.facts.set("restat", v->stmts[p->second].restat);
        x.facts.set("generator", v->stmts[p->second].generator);
        // the statement is a restat statement only by dyndep information, and that file is re-made in this very build:
        // the plan was drawn up before anything said restat
        const Stmt& ps = v->stmts[p->second];
        x.facts.set("restat_supplied_by_a_dyndep_file_made_in_this_build",
                    !ps.restat && ps.spec.restat && !ps.dyndep.empty() && Started(r, ps.dyndep));
      }
      {
        // ... the statement itself, or one upstream of it that therefore runs now and rewrites what this one reads
        bool pruned = base_restat_pruned.count(id) > 0;
        if (!pruned && p != v->producer.end()) {
          set<int> up;
          Upstream(*v, p->second, &up);
          for (int u : up) if (base_restat_pruned.count(v->stmts[u].id) && actual.count(v->stmts[u].id)) pruned = true;
        }
        x.facts.set("restat_pruned_with_unloaded_deps_in_base_build", pruned);
      }
      out->push_back(x);
    }
  }

  /// C07 (interrupt part): exit status 130, lock file removed, outputs of killed commands removed
  /// when they had been modified (always for depfile statements), depfiles removed.
  void CheckInterrupt(const RunResult& r, const vfs::Disk& before, const vfs::Disk& after, vector<Violation>* out) {
    bool interrupted = false;
    for (auto& e : r.events) if (e.kind == Event::kInterrupt) interrupted = true;
    bool child_sig = false;
    for (auto& c : r.cmds) if (c.finished && c.status == 130) child_sig = true;
    if (!interrupted && !child_sig) return;
    if (r.crashed || r.hang || r.horizon) return;
    if (r.exit_code != 130) {
      Violation x; x.prop = "C07"; x.clause = "interrupt-exit-status";
      x.detail = "interrupted build exited " + to_string(r.exit_code) + " instead of 130";
      x.facts.set("exit", r.exit_code);
      x.facts.set("child_died_of_signal", child_sig);
      out->push_back(x);
    }
    if (after.Get(kLock)) {
      Violation x; x.prop = "C07"; x.clause = "lock-file-left";
      x.detail = ".ninja_lock still exists after an interrupted build";
      out->push_back(x);
    }
    for (auto& c : r.cmds) {
      bool victim = c.killed || (c.finished && c.status == 130);
      if (!victim || !c.spec.valid) continue;
      const Variant* v = VariantByHash(sc, c.manifest_hash);
      bool has_depfile = false;
      if (v) { auto p = v->producer.find(c.spec.id()); if (p != v->producer.end()) has_depfile = !v->stmts[p->second].depfile.empty(); }
      for (auto& o : c.spec.outs) {
        const vfs::File* f = after.Get(o);
        if (!f) continue;
        if (c.wrote || has_depfile) {
          Violation x; x.prop = "C07"; x.clause = "interrupted-output-kept";
          x.detail = "'" + o + "' of an interrupted command " +
                     (c.wrote ? "had been modified by it" : "(depfile statement)") + " but was not removed";
          x.facts.set("stmt", c.spec.id());
          x.facts.set("modified", c.wrote);
          x.facts.set("has_depfile", has_depfile);
          x.facts.set("command_itself_died_of_signal", c.finished && c.status == 130);
          out->push_back(x);
        }
      }
      if (has_depfile && !c.spec.depfile.empty() && after.Get(c.spec.depfile)) {
        Violation x; x.prop = "C07"; x.clause = "interrupted-depfile-kept";
        x.detail = "depfile '" + c.spec.depfile + "' of an interrupted command was not removed";
        x.facts.set("stmt", c.spec.id());
        x.facts.set("command_itself_died_of_signal", c.finished && c.status == 130);
        out->push_back(x);
      }
    }
  }

  /// C07: an invocation after an interrupted/killed one must start normally: a non-zero exit needs
  /// a failed command, an interrupt or a legitimately reported user error.
  void CheckUnexpectedError(const Op& op, const RunResult& r, vector<Violation>* out) {
    if (r.hang || r.crashed || r.horizon || r.exit_code == 0) return;
    for (auto& e : r.events) if (e.kind == Event::kInterrupt) return;
    for (auto& c : r.cmds) if (c.finished && c.status != 0) return;
    Violation x; x.prop = "C07"; x.clause = "next-invocation-fails";
    x.detail = "ninja exited " + to_string(r.exit_code) + " without any failed command: " + r.out.substr(0, 300);
    // the manifest is itself an output of a generator statement and was removed with the other outputs of interrupted commands
    x.facts.set("the_manifest_was_deleted_as_the_output_of_an_interrupted_generator",
                sc.tags.count("manifest-regen") > 0 && r.out.find("loading 'build.ninja': No such file or directory") != string::npos);
    out->push_back(x);
  }

  // ---- C18: cleaning -------------------------------------------------------------------------
  /// Files a statement owns: outputs (declared; dyndep-provided ones when the dyndep file exists),
  /// depfile, response file.
  static void OwnedFiles(const Stmt& s, const vfs::Disk& d, set<string>* out) {
    if (s.phony) return;
    for (auto& o : s.outs) out->insert(o);
    if (!s.dyndep.empty() && d.Get(s.dyndep))
      for (auto& o : s.spec.outs) out->insert(o);
    if (!s.depfile.empty()) out->insert(s.depfile);
    if (!s.rspfile.empty()) out->insert(s.rspfile);
  }

  void CleanReach(const Variant& v, const vfs::Disk& d, const string& node, set<string>* seen, set<int>* stmts) {
    if (!seen->insert(node).second) return;
    auto p = v.producer.find(node);
    if (p == v.producer.end()) return;
    const Stmt& s = v.stmts[p->second];
    // an output known only through a dyndep file that does not exist is not known to ninja
    if (find(s.outs.begin(), s.outs.end(), node) == s.outs.end() && !(!s.dyndep.empty() && d.Get(s.dyndep))) return;
    stmts->insert(p->second);
    for (auto* l : {&s.ex, &s.im, &s.oo}) for (auto& x : *l) CleanReach(v, d, x, seen, stmts);
    if (!s.phony && !s.dyndep.empty() && d.Get(s.dyndep))
      for (auto& x : s.spec.reads) CleanReach(v, d, x, seen, stmts);
  }

  void CheckClean(const Op& op, const RunResult& r, const vfs::Disk& before, const vfs::Disk& after, vector<Violation>* out) {
    const Variant* v = VariantOf(sc, before);
    if (!v) return;
    if (!r.cmds.empty()) {
      Violation x; x.prop = "C18"; x.clause = "clean-ran-commands";
      x.detail = "a clean tool started build commands";
      out->push_back(x);
    }
    set<string> scope;
    if (op.tool_kind == "clean-all" || op.tool_kind == "clean-all-g") {
      for (auto& s : v->stmts) {
        if (s.generator && op.tool_kind == "clean-all") continue;
        OwnedFiles(s, before, &scope);
      }
    } else if (op.tool_kind == "clean-targets") {
      set<string> seen;
      set<int> stmts;
      for (auto& t : op.tool_args) CleanReach(*v, before, t, &seen, &stmts);
      // "never ... without -g, a generator output": in every mode (the alphabet passes -g only to the plain form)
      for (int si : stmts) if (!v->stmts[si].generator) OwnedFiles(v->stmts[si], before, &scope);
    } else if (op.tool_kind == "clean-rules") {
      for (auto& s : v->stmts)
        if (!s.generator && find(op.tool_args.begin(), op.tool_args.end(), s.rule) != op.tool_args.end()) OwnedFiles(s, before, &scope);
    } else if (op.tool_kind == "cleandead") {
      lp::BuildLogModel bl;
      if (auto* f = before.Get(kLog)) bl = lp::ParseBuildLog(f->data);
      set<string> in_graph;
      for (auto& s : v->stmts) {
        for (auto& o : s.outs) in_graph.insert(o);
        for (auto* l : {&s.ex, &s.im, &s.oo, &s.val}) for (auto& x : *l) in_graph.insert(x);
        if (!s.dyndep.empty()) in_graph.insert(s.dyndep);
        if (!s.phony && !s.dyndep.empty() && before.Get(s.dyndep)) {
          for (auto& x : s.spec.outs) in_graph.insert(x);
          for (auto& x : s.spec.reads) in_graph.insert(x);
        }
      }
      // what a live statement is known to read through its recorded dependencies (deps log record or
      // depfile on disk) is an input of that statement: part of the graph, and by now a source file
      lp::DepsLogModel dl;
      if (auto* f = before.Get(kDeps)) dl = lp::ParseDepsLog(f->data);
      for (auto& s : v->stmts) {
        if (s.phony) continue;
        if (!s.deps.empty()) {
          auto it = dl.deps.find(s.id);
          if (it != dl.deps.end()) for (auto& x : it->second.deps) in_graph.insert(x);
        } else if (!s.depfile.empty() && before.Get(s.depfile)) {
          for (auto& x : s.spec.hidden) in_graph.insert(x);
        }
      }
      for (auto& kv : bl.entries) if (!in_graph.count(kv.first)) scope.insert(kv.first);
    }
    set<string> expected, removed;
    for (auto& p : scope) { const vfs::File* f = before.Get(p); if (f && !f->dir) expected.insert(p); }
    for (auto& kv : before.files)
      if (!after.Get(kv.first) && kv.first != kLock) removed.insert(kv.first);
    // never: sources, phony names, anything outside the scope
    for (auto& p : removed) {
      if (expected.count(p)) continue;
      Violation x; x.prop = "C18"; x.clause = "deleted-outside-scope";
      bool is_out = v->producer.count(p) && !v->stmts[v->producer.at(p)].phony;
      bool is_phony = v->producer.count(p) && v->stmts[v->producer.at(p)].phony;
      x.detail = "'" + p + "' was deleted by '" + op.label + "' but is not in its scope (" +
                 (is_phony ? "name of a phony statement" : is_out ? "output of a statement outside the scope" : "not an output at all") + ")";
      x.facts.set("path", p);
      x.facts.set("tool", op.tool_kind);
      x.facts.set("phony_name", is_phony);
      {
        // a file of a generator statement, deleted by the target / rule form (where ninja accepts but ignores -g)
        bool gen_file = false;
        for (auto& gs : v->stmts) {
          if (!gs.generator) continue;
          set<string> own;
          OwnedFiles(gs, before, &own);
          if (own.count(p)) gen_file = true;
        }
        x.facts.set("generator_output_deleted_by_the_target_or_rule_form",
                    gen_file && (op.tool_kind == "clean-targets" || op.tool_kind == "clean-rules"));
      }
      bool only_validation = false, any_ref = false;
      for (auto& s : v->stmts) {
        for (auto* l : {&s.ex, &s.im, &s.oo}) for (auto& q : *l) if (q == p) any_ref = true;
        for (auto& q : s.val) if (q == p) only_validation = true;
      }
      x.facts.set("referenced_only_as_validation", only_validation && !any_ref && !is_out && !is_phony);
      x.facts.set("dry_run", op.tool_dry);
      x.facts.set("named_only_by_a_depfile_on_disk_of_a_live_statement", DepfileNamed(*v, before, p));
      out->push_back(x);
    }
    if (!op.tool_dry) {
      for (auto& p : expected)
        if (!removed.count(p)) {
          Violation x; x.prop = "C18"; x.clause = "not-cleaned";
          x.detail = "'" + p + "' exists and is in the scope of '" + op.label + "' but was not removed";
          x.facts.set("path", p);
          x.facts.set("tool", op.tool_kind);
          out->push_back(x);
        }
    } else {
      if (!removed.empty()) {
        Violation x; x.prop = "C18"; x.clause = "dry-run-deleted";
        x.detail = "'" + *removed.begin() + "' was deleted by a dry-run clean";
        x.facts.set("tool", op.tool_kind);
        out->push_back(x);
      }
      // the dry run reports the same set: verbose listing "Remove <path>"
      if (r.out.find("Remove ") != string::npos) {
        set<string> listed;
        size_t pos = 0;
        while ((pos = r.out.find("Remove ", pos)) != string::npos) {
          size_t nl = r.out.find('\n', pos);
          listed.insert(r.out.substr(pos + 7, nl - pos - 7));
          pos = nl == string::npos ? r.out.size() : nl;
        }
        if (listed != expected) {
          Violation x; x.prop = "C18"; x.clause = "dry-run-listing";
          x.detail = "dry-run clean lists a different set than the files in scope";
          x.facts.set("tool", op.tool_kind);
          {
            bool only_gen = op.tool_kind == "clean-targets" || op.tool_kind == "clean-rules";
            set<string> genfiles;
            for (auto& gs : v->stmts) if (gs.generator) OwnedFiles(gs, before, &genfiles);
            for (auto& q : listed) if (!expected.count(q) && !genfiles.count(q)) only_gen = false;
            for (auto& q : expected) if (!listed.count(q)) only_gen = false;
            x.facts.set("generator_output_deleted_by_the_target_or_rule_form", only_gen);
          }
          bool only_depfile_named = true;
          for (auto& q : listed) if (!expected.count(q) && !DepfileNamed(*v, before, q)) only_depfile_named = false;
          for (auto& q : expected) if (!listed.count(q)) only_depfile_named = false;
          x.facts.set("named_only_by_a_depfile_on_disk_of_a_live_statement", only_depfile_named);
          out->push_back(x);
        }
      }
    }
    // a following build re-creates everything (where the project builds at all: not with a dyndep file the build refuses)
    if (!op.tool_dry && r.exit_code == 0 && !sc.tags.count("invalid-dyndep")) {
      vfs::Disk d2 = after;
      RunConfig cfg;
      cfg.args = {"-j1"};
      RunResult r2 = RunNinja(&d2, cfg, {});
      st.invocations++;
      Op bop;
      bop.kind = Op::kNinja;
      vector<Violation> vs;
      if (r2.exit_code != 0) {
        Violation x; x.prop = "C18"; x.clause = "build-after-clean-fails";
        x.detail = "the build after '" + op.label + "' exits " + to_string(r2.exit_code) + ": " + r2.out.substr(0, 200);
        x.facts.set("tool", op.tool_kind);
        out->push_back(x);
      } else {
        CheckContent(bop, r2, d2, &vs, "C18");
        for (auto& x : vs) { x.clause = "build-after-clean:" + x.clause; x.facts.set("tool", op.tool_kind); out->push_back(x); }
      }
    }
  }

  // ---- C19: dry run and read-only tools --------------------------------------------------------
  static vector<string> StatusLineCommands(const string& out) {
    vector<string> v;
    size_t pos = 0;
    while (pos < out.size()) {
      size_t nl = out.find('\n', pos);
      if (nl == string::npos) nl = out.size();
      string line = out.substr(pos, nl - pos);
      pos = nl + 1;
      if (line.size() > 3 && line[0] == '[' && isdigit((unsigned char)line[1])) {
        size_t rb = line.find("] ");
        if (rb != string::npos) v.push_back(line.substr(rb + 2));
      }
    }
    return v;
  }

  /// C09 under faults: a kill or an I/O error at any one file operation of an invocation leaves, for every output that
  /// still has a build statement using deps, either the record it had or a complete newer one -- never none.
  void CheckDepsLogSurvivesFault(const Op& op, const vfs::Disk& before, const vfs::Disk& after, const string& what,
                                 vector<Violation>* out) {
    const vfs::File* fb = before.Get(kDeps);
    if (!fb) return;
    lp::DepsLogModel d0 = lp::ParseDepsLog(fb->data), d1;
    if (!d0.header_ok || !d0.clean) return;
    if (const vfs::File* fa = after.Get(kDeps)) d1 = lp::ParseDepsLog(fa->data);
    const Variant* v = VariantOf(sc, after);
    if (!v) return;
    for (auto& kv : d0.deps) {
      auto p = v->producer.find(kv.first);
      if (p == v->producer.end() || v->stmts[p->second].deps.empty()) continue;   // may be dropped by a recompaction
      if (d1.deps.count(kv.first)) continue;
      Violation x; x.prop = "C09"; x.clause = "fault-loses-records";
      x.detail = "'" + op.label + "', " + what + ": the deps record of '" + kv.first + "' (its statement still uses deps) is gone (" +
                 to_string(d1.deps.size()) + " of " + to_string(d0.deps.size()) + " records left)";
      x.facts.set("output", kv.first);
      x.facts.set("tool", op.tool ? op.tool_kind : string("build"));
      out->push_back(x);
      return;
    }
  }

  /// C09 at process level: any invocation that opens the deps log (builds, -t recompact, -t deps, the
  /// automatic recompaction of a log with a long history) keeps, unchanged, the record of every output
  /// that still has a build statement using deps and whose command it did not run.
  void CheckDepsLogHandling(const Op& op, const RunResult& r, const vfs::Disk& before, const vfs::Disk& after,
                            vector<Violation>* out) {
    if (r.hang || r.crashed || r.horizon) return;
    const vfs::File* fb = before.Get(kDeps);
    if (!fb) return;
    lp::DepsLogModel d0 = lp::ParseDepsLog(fb->data);
    if (!d0.header_ok || !d0.clean) return;     // damaged logs: engine C
    if (op.dry_run || op.tool_dry) return;
    if (op.tool && op.tool_kind != "recompact" && op.tool_kind != "cleandead" && op.tool_kind != "deps" &&
        op.tool_kind != "query" && op.tool_kind != "missingdeps" && op.tool_kind != "restat")
      return;
    lp::DepsLogModel d1;
    if (const vfs::File* fa = after.Get(kDeps)) d1 = lp::ParseDepsLog(fa->data);
    const Variant* v = VariantOf(sc, after);
    if (!v) return;
    set<string> started;
    for (auto& c : r.cmds) for (auto& o : c.spec.outs) started.insert(o);
    if (!r.cmds.empty() && r.cmds.back().cycle > 0) return;   // the manifest was regenerated: other statements
    for (auto& kv : d0.deps) {
      auto p = v->producer.find(kv.first);
      if (p == v->producer.end()) continue;
      const Stmt& s = v->stmts[p->second];
      if (s.phony || s.deps.empty()) continue;
      if (started.count(kv.first)) continue;
      auto it = d1.deps.find(kv.first);
      if (it != d1.deps.end() && it->second == kv.second) continue;
      bool by_dyndep = find(s.outs.begin(), s.outs.end(), kv.first) == s.outs.end();
      Violation x; x.prop = "C09"; x.clause = "live-deps-record-lost";
      x.detail = "'" + op.label + "': the deps record of '" + kv.first + "' (statement " + s.id + ", deps = " + s.deps + ") " +
                 (it == d1.deps.end() ? "was dropped" : "changed") + " although its command did not run";
      x.facts.set("output", kv.first);
      x.facts.set("output_supplied_by_dyndep_information", by_dyndep);
      x.facts.set("dropped", it == d1.deps.end());
      x.facts.set("tool", op.tool ? op.tool_kind : string("build"));
      out->push_back(x);
      return;
    }
  }

  /// C14 for command-line arguments: the same invocation with every path argument written canonically
  /// must do the same thing (exit status, commands started, resulting world).
  void CheckSpelledArgs(const Op& op, const RunResult& r, const vfs::Disk& before, const vfs::Disk& after,
                        vector<Violation>* out) {
    if (op.canonical_args.empty() || r.hang || r.crashed || r.horizon) return;
    RunConfig cfg = op.cfg;
    cfg.args = op.canonical_args;
    cfg.allow_interrupt = false;
    vfs::Disk d2 = before;
    RunResult r2 = RunNinja(&d2, cfg, r.choices);
    st.invocations++;
    bool same = r.exit_code == r2.exit_code && js::Dump(StartedList(r)) == js::Dump(StartedList(r2)) &&
                WorldKey(after) == WorldKey(d2);
    if (same) return;
    Violation x; x.prop = "C14"; x.clause = "spelling-of-an-argument-matters";
    string ca;
    for (auto& a : op.canonical_args) ca += a + " ";
    x.detail = "'" + op.label + "' exits " + to_string(r.exit_code) + " having started " + js::Dump(StartedList(r)) +
               "; with canonical arguments (" + ca + ") ninja exits " + to_string(r2.exit_code) + " having started " +
               js::Dump(StartedList(r2)) + (WorldKey(after) == WorldKey(d2) ? "" : "; the resulting trees / logs differ");
    x.facts.set("tool", op.tool ? op.tool_kind : string("build"));
    out->push_back(x);
  }

  /// Is `p` named as a dependency by the depfile (on disk, no deps log) of a statement of the manifest?
  static bool DepfileNamed(const Variant& v, const vfs::Disk& d, const string& p) {
    for (auto& s : v.stmts) {
      if (s.phony || !s.deps.empty() || s.depfile.empty() || !d.Get(s.depfile)) continue;
      if (find(s.spec.hidden.begin(), s.spec.hidden.end(), p) != s.spec.hidden.end()) return true;
    }
    return false;
  }

  /// C08 under faults: whatever goes wrong at one file operation of an invocation (the process dies there, or the
  /// operation fails: disk full, file size limit), the records of the outputs that are still in the manifest or on disk
  /// are still in the log afterwards, old or new -- a failed flush must not be followed by renaming the cut-off copy over
  /// the intact log.
  void CheckLogSurvivesFault(const Op& op, const vfs::Disk& before, const vfs::Disk& after, const string& what, vector<Violation>* out) {
    const vfs::File* fb = before.Get(kLog);
    if (!fb) return;
    if (!(fb->data.compare(0, 15, "# ninja log v7\n") == 0)) return;
    lp::BuildLogModel b0 = lp::ParseBuildLog(fb->data), b1;
    if (const vfs::File* fa = after.Get(kLog)) b1 = lp::ParseBuildLog(fa->data);
    const Variant* v = VariantOf(sc, after);
    for (auto& kv : b0.entries) {
      const string& path = kv.first;
      bool in_manifest = v && v->producer.count(path) && !v->stmts[v->producer.at(path)].phony;
      bool on_disk = after.Get(path) != nullptr;
      if (!in_manifest && !on_disk) continue;
      if (b1.entries.count(path)) continue;
      Violation x; x.prop = "C08"; x.clause = "fault-loses-records";
      x.detail = "'" + op.label + "', " + what + ": the record of '" + path + "' (" + (in_manifest ? "in the manifest" : "on disk") +
                 ") is gone from the build log (" + to_string(b1.entries.size()) + " of " + to_string(b0.entries.size()) + " records left)";
      x.facts.set("output", path);
      x.facts.set("tool", op.tool ? op.tool_kind : string("build"));
      out->push_back(x);
      return;
    }
  }

  /// C08 at process level: what ninja (any invocation) does to an existing build log.
  ///  * a log of an unsupported version is discarded with a warning, never an error;
  ///  * `-t restat [outputs]` changes only recorded mtimes (to the files' current ones, 0 when missing);
  ///  * a build, `-t recompact` and the automatic recompaction keep the latest record of every output
  ///    that is still in the manifest or on disk.
  void CheckLogHandling(const Op& op, const RunResult& r, const vfs::Disk& before, const vfs::Disk& after,
                        vector<Violation>* out) {
    if (r.hang || r.crashed || r.horizon) return;
    const vfs::File* fb = before.Get(kLog);
    if (!fb) return;
    lp::BuildLogModel b0 = lp::ParseBuildLog(fb->data);
    lp::BuildLogModel b1;
    const vfs::File* fa = after.Get(kLog);
    if (fa) b1 = lp::ParseBuildLog(fa->data);
    bool restat_tool = op.tool && op.tool_kind == "restat";
    bool recompact_tool = op.tool && op.tool_kind == "recompact";
    bool other_tool = op.tool && !restat_tool && !recompact_tool;
    bool opens_log = !other_tool || op.tool_kind == "cleandead" || op.tool_kind == "deps" || op.tool_kind == "query" ||
                     op.tool_kind == "missingdeps";
    if (!opens_log) return;
    bool has_header = fb->data.compare(0, 13, "# ninja log v") == 0 && fb->data.find('\n') != string::npos;
    if (has_header && (b0.version < 7 || b0.version > 7)) {
      // kOldestSupportedVersion = kCurrentVersion = 7 at this commit (build_log.cc); checked by the unit tests
      if (r.out.find("build log version") == string::npos) {
        Violation x; x.prop = "C08"; x.clause = "unsupported-version-without-warning";
        x.detail = "'" + op.label + "' met a build log of version " + to_string(b0.version) +
                   " and discarded or ignored it without the warning; log " + string(fa ? "still there" : "deleted");
        x.facts.set("tool", op.tool ? op.tool_kind : string("build"));
        out->push_back(x);
      }
      if (r.out.find("loading build log") != string::npos) {
        Violation x; x.prop = "C08"; x.clause = "unsupported-version-is-an-error";
        x.detail = "'" + op.label + "' fails on a build log of an unsupported version";
        out->push_back(x);
      }
      return;
    }
    if (!has_header) return;   // damaged logs are engine C's subject (every tear offset)
    if (op.dry_run || op.tool_dry) return;
    const Variant* v = VariantOf(sc, after);
    set<string> started;
    for (auto& c : r.cmds) for (auto& o : c.spec.outs) started.insert(o);
    // every command that completed successfully in this invocation is on record afterwards (whatever
    // ninja did to the log file in between: closing it around a generator statement, recompacting)
    if (!op.tool && fa) {
      bool interrupted = false;
      for (auto& e : r.events) if (e.kind == Event::kInterrupt) interrupted = true;
      for (auto& c : r.cmds) {
        if (!c.finished || c.status != 0 || interrupted) continue;
        if (r.cmds.back().cycle != c.cycle) continue;   // before a manifest regeneration: other statements
        for (auto& o : c.spec.outs) {
          if (b1.entries.count(o)) continue;
          Violation x; x.prop = "C08"; x.clause = "completed-command-not-recorded";
          x.detail = "'" + op.label + "': '" + o + "' was built successfully but the build log has no record of it afterwards";
          x.facts.set("output", o);
          out->push_back(x);
          return;
        }
      }
    }
    for (auto& kv : b0.entries) {
      const string& path = kv.first;
      bool in_manifest = v && v->producer.count(path) && !v->stmts[v->producer.at(path)].phony;
      bool on_disk = after.Get(path) != nullptr;
      auto it = b1.entries.find(path);
      if (restat_tool) {
        bool selected = op.tool_args.empty() || find(op.tool_args.begin(), op.tool_args.end(), path) != op.tool_args.end();
        const vfs::File* f = after.Get(path);
        int64_t want_mtime = selected ? (f ? vfs::TickToNs(f->mtime) : 0) : kv.second.mtime;
        if (it == b1.entries.end() || it->second.hash != kv.second.hash || it->second.start != kv.second.start ||
            it->second.end != kv.second.end || it->second.mtime != want_mtime) {
          Violation x; x.prop = "C08"; x.clause = "restat-changed-more-than-mtimes";
          x.detail = "'" + op.label + "': the record of '" + path + "' " +
                     (it == b1.entries.end() ? string("was dropped") : "became mtime=" + to_string(it->second.mtime) + " hash=" + it->second.hash) +
                     " (expected mtime=" + to_string(want_mtime) + " hash=" + kv.second.hash + ")";
          x.facts.set("output", path);
          x.facts.set("dropped", it == b1.entries.end());
          x.facts.set("in_manifest", in_manifest);
          x.facts.set("on_disk", on_disk);
          out->push_back(x);
          return;
        }
        continue;
      }
      if (!in_manifest && !on_disk) continue;       // dead: may be dropped by a recompaction
      if (started.count(path)) continue;             // re-recorded (or failed) in this invocation
      if (op.tool && op.tool_kind.compare(0, 5, "clean") == 0 && !on_disk) continue;
      // restat statements refresh the recorded mtime of their outputs when they are found unchanged; only
      // the presence and the command hash are compared for the others
      if (it == b1.entries.end() || it->second.hash != kv.second.hash) {
        Violation x; x.prop = "C08"; x.clause = "live-record-lost";
        x.detail = "'" + op.label + "': the record of '" + path + "' (" + (in_manifest ? "in the manifest" : "on disk") + ") " +
                   (it == b1.entries.end() ? "was dropped" : "changed its command hash") + " although its command did not run";
        x.facts.set("output", path);
        x.facts.set("in_manifest", in_manifest);
        x.facts.set("on_disk", on_disk);
        {
          bool by_dyndep = false;
          if (in_manifest) {
            const Stmt& ps = v->stmts[v->producer.at(path)];
            by_dyndep = find(ps.outs.begin(), ps.outs.end(), path) == ps.outs.end();
          }
          x.facts.set("output_supplied_by_dyndep_information", by_dyndep);
        }
        x.facts.set("tool", op.tool ? op.tool_kind : string("build"));
        out->push_back(x);
        return;
      }
    }
  }

  void CheckReadOnly(const Op& op, const RunResult& r, const vfs::Disk& before, const vfs::Disk& after,
                     vector<Violation>* out) {
    if (!r.cmds.empty()) {
      Violation x; x.prop = "C19"; x.clause = "tool-ran-commands";
      x.detail = "'" + op.label + "' started " + to_string(r.cmds.size()) + " build command(s)";
      x.facts.set("tool", op.tool_kind);
      out->push_back(x);
    }
    if (r.hang || r.horizon) {
      Violation x; x.prop = "C19"; x.clause = "tool-hangs"; x.detail = "'" + op.label + "' does not terminate";
      out->push_back(x);
      return;
    }
    // ninja's own bookkeeping directory (`builddir`, where its logs and lock file live) is created by every tool that
    // loads the logs; it is none of "source, output, depfile, meaning of the logs" and the next build would create it
    // itself, so its mere (empty) existence is not judged -- only for tools, a dry run does not create it
    vfs::Disk before_cmp = before;
    if (!sc.builddir.empty() && !op.dry_run && !before.Get(sc.builddir) && after.Get(sc.builddir)) before_cmp.MkdirP(sc.builddir);
    if (MeaningKey(before_cmp) != MeaningKey(after)) {
      Violation x; x.prop = "C19"; x.clause = "world-changed";
      string what;
      for (auto& kv : before.files) {
        const vfs::File* f = after.Get(kv.first);
        if (!f) what += " -" + kv.first;
        else if (!kv.second.dir && (f->data != kv.second.data || f->mtime != kv.second.mtime)) what += " ~" + kv.first;
      }
      for (auto& kv : after.files) if (!before.Get(kv.first)) what += " +" + kv.first + (kv.second.dir ? "/" : "");
      x.detail = "'" + op.label + "' changed the tree or the meaning of the logs:" + what;
      x.facts.set("tool", op.tool_kind);
      x.facts.set("changed", what);
      out->push_back(x);
    }
    const Variant* v = VariantOf(sc, before);
    if (!v) return;
    // the next real build behaves as if the tool had not run
    {
      RunConfig cfg;
      cfg.args = {"-j1"};
      for (auto& t : op.targets) cfg.args.push_back(t);
      vfs::Disk d1 = before, d2 = after;
      RunResult r1 = RunNinja(&d1, cfg, {}), r2 = RunNinja(&d2, cfg, {});
      st.invocations += 2;
      if (r1.exit_code != r2.exit_code || js::Dump(StartedList(r1)) != js::Dump(StartedList(r2)) ||
          MeaningKey(d1) != MeaningKey(d2)) {
        Violation x; x.prop = "C19"; x.clause = "next-build-differs";
        x.detail = "the build after '" + op.label + "' differs from the build without it: started " +
                   js::Dump(StartedList(r2)) + " vs " + js::Dump(StartedList(r1));
        x.facts.set("tool", op.tool_kind);
        out->push_back(x);
      }
      if (op.dry_run) {
        // prediction: listed commands = commands of the real build (superset when restat prunes)
        vector<string> listed = StatusLineCommands(r.out);
        set<string> listed_set(listed.begin(), listed.end()), real;
        bool restat_pruned = false;
        for (auto& c : r1.cmds) {
          real.insert(c.spec.line);
          auto p = v->producer.find(c.spec.id());
          if (p != v->producer.end() && v->stmts[p->second].restat && c.finished && !c.wrote) restat_pruned = true;
        }
        bool ok = restat_pruned ? includes(listed_set.begin(), listed_set.end(), real.begin(), real.end()) : listed_set == real;
        if (r1.exit_code == 0 && !ok) {
          Violation x; x.prop = "C19"; x.clause = "dry-run-prediction";
          string l, q;
          for (auto& s : listed_set) l += ParseCmd(s).id() + " ";
          for (auto& s : real) q += ParseCmd(s).id() + " ";
          x.detail = "-n lists {" + l + "} but the real build runs {" + q + "}";
          x.facts.set("restat_pruning_in_real_build", restat_pruned);
          // the manifest itself is out of date: ninja "regenerates" it and, in a dry run, stops there
          // (the regeneration's commands: the generator statement and whatever it needs brought up to date first)
          bool only_regen = false;
          {
            auto mp = v->producer.find("build.ninja");
            if (mp != v->producer.end()) {
              set<int> up;
              Upstream(*v, mp->second, &up);
              up.insert(mp->second);
              bool has_manifest = false;
              only_regen = true;
              for (auto& s : listed_set) {
                string id = ParseCmd(s).id();
                auto p = v->producer.find(id);
                if (id == "build.ninja" && real.count(s)) has_manifest = true;
                if (p == v->producer.end() || !up.count(p->second)) only_regen = false;
              }
              only_regen = only_regen && has_manifest;
            }
          }
          x.facts.set("dry_run_stopped_after_listing_the_manifest_regeneration", only_regen);
          out->push_back(x);
        }
        // order respects dependencies
        map<string, int> pos;
        for (size_t i = 0; i < listed.size(); ++i) pos[ParseCmd(listed[i]).id()] = (int)i;
        for (auto& kv : pos) {
          auto p = v->producer.find(kv.first);
          if (p == v->producer.end()) continue;
          set<int> up;
          Upstream(*v, p->second, &up);
          for (int u : up) {
            auto q = pos.find(v->stmts[u].id);
            if (q != pos.end() && q->second > kv.second) {
              Violation x; x.prop = "C19"; x.clause = "dry-run-order";
              x.detail = "-n lists '" + kv.first + "' before its producer '" + v->stmts[u].id + "'";
              out->push_back(x);
            }
          }
        }
      }
    }
    if (op.tool && !op.tool_args.empty() && r.exit_code != 0 && r.out.find("unknown target") != string::npos) {
      // "the same targets": a name the build (and the dry run) accepts names the same node to every tool
      bool all_known = true;
      for (auto& t : op.tool_args) if (!v->producer.count(t) && !before.Get(t)) all_known = false;
      if (all_known) {
        Violation x; x.prop = "C19"; x.clause = "tool-rejects-a-target-the-build-accepts";
        size_t at = r.out.find("unknown target");
        x.detail = "'" + op.label + "' refuses a target that a build accepts: " + r.out.substr(at, r.out.find('\n', at) - at);
        x.facts.set("tool", op.tool_kind);
        out->push_back(x);
      }
    }
    if (op.tool_kind == "commands" && r.exit_code == 0) {
      // -t commands [targets]: every command of the closure, producers first
      vector<string> lines;
      size_t pos = 0;
      while (pos < r.out.size()) {
        size_t nl = r.out.find('\n', pos);
        if (nl == string::npos) nl = r.out.size();
        if (nl > pos) lines.push_back(r.out.substr(pos, nl - pos));
        pos = nl + 1;
      }
      vector<string> roots = op.tool_args.empty() ? DefaultTargets(*v) : op.tool_args;
      set<int> stmts;
      set<string> nodes;
      // every statement a from-scratch build of the targets runs: producers of every input kind and the
      // validations of each of them
      {
        vector<string> todo(roots.begin(), roots.end());
        while (!todo.empty()) {
          string n = todo.back(); todo.pop_back();
          if (!nodes.insert(n).second) continue;
          auto p = v->producer.find(n);
          if (p == v->producer.end() || !stmts.insert(p->second).second) continue;
          const Stmt& s = v->stmts[p->second];
          for (auto* l : {&s.ex, &s.im, &s.oo, &s.val}) for (auto& x : *l) todo.push_back(x);
        }
      }
      set<string> want;
      for (int si : stmts) if (!v->stmts[si].phony) want.insert(v->stmts[si].cmd);
      set<string> got(lines.begin(), lines.end());
      if (got != want) {
        Violation x; x.prop = "C19"; x.clause = "commands-tool-set";
        x.detail = "-t commands prints " + to_string(got.size()) + " distinct commands, the closure has " + to_string(want.size());
        out->push_back(x);
      }
      map<string, int> lpos;
      for (size_t i = 0; i < lines.size(); ++i) if (!lpos.count(lines[i])) lpos[lines[i]] = (int)i;
      for (int si : stmts) {
        if (v->stmts[si].phony || !lpos.count(v->stmts[si].cmd)) continue;
        set<int> up;
        Upstream(*v, si, &up);
        for (int u : up)
          if (lpos.count(v->stmts[u].cmd) && lpos[v->stmts[u].cmd] > lpos[v->stmts[si].cmd]) {
            Violation x; x.prop = "C19"; x.clause = "commands-tool-order";
            x.detail = "-t commands prints '" + v->stmts[si].id + "' before its producer '" + v->stmts[u].id + "'";
            out->push_back(x);
          }
      }
    }
    if (op.tool_kind == "compdb" && r.exit_code == 0) {
      string why;
      int not_utf8 = 0;
      bool ok = StrictJson(r.out, &why, &not_utf8);
      if (!ok || not_utf8) {
        Violation x; x.prop = "C19"; x.clause = "compdb-invalid-json";
        x.detail = "compdb output is not valid JSON: " + (ok ? to_string(not_utf8) + " byte(s) inside strings that are not UTF-8 (RFC 8259 8.1)" : why);
        x.facts.set("only_defect_is_bytes_that_are_not_utf8", ok);
        out->push_back(x);
      }
    }
  }

  /// R-json: strict RFC 8259 recogniser.  Byte sequences inside strings that are not UTF-8 are counted (and skipped), so
  /// that every other defect of the same text is still seen.
  static bool StrictJson(const string& s, string* why, int* not_utf8 = nullptr) {
    size_t i = 0;
    function<bool()> ws, value, str;
    auto skip = [&] { while (i < s.size() && (s[i] == ' ' || s[i] == '\n' || s[i] == '\t' || s[i] == '\r')) ++i; };
    str = [&]() -> bool {
      if (i >= s.size() || s[i] != '"') { *why = "expected string at " + to_string(i); return false; }
      ++i;
      while (i < s.size() && s[i] != '"') {
        unsigned char c = s[i];
        if (c < 0x20) { *why = "raw control character " + to_string((int)c) + " in string at " + to_string(i); return false; }
        if (c >= 0x80) {
          // RFC 8259 8.1: JSON text is UTF-8; RFC 3629: no overlong forms, no surrogates, nothing above U+10FFFF
          int n = c >= 0xf0 ? 3 : c >= 0xe0 ? 2 : c >= 0xc2 ? 1 : -1;
          bool ok = n > 0 && c <= 0xf4 && i + n < s.size();
          for (int k = 1; ok && k <= n; ++k) if (((unsigned char)s[i + k] & 0xc0) != 0x80) ok = false;
          if (ok && c == 0xe0 && (unsigned char)s[i + 1] < 0xa0) ok = false;
          if (ok && c == 0xed && (unsigned char)s[i + 1] >= 0xa0) ok = false;
          if (ok && c == 0xf0 && (unsigned char)s[i + 1] < 0x90) ok = false;
          if (ok && c == 0xf4 && (unsigned char)s[i + 1] >= 0x90) ok = false;
          if (!ok) {
            if (!not_utf8) { *why = "byte sequence that is not UTF-8 in string at " + to_string(i); return false; }
            ++*not_utf8; ++i;
            continue;
          }
          i += n + 1;
          continue;
        }
        if (c == '\\') {
          ++i;
          if (i >= s.size()) { *why = "dangling backslash"; return false; }
          char e = s[i];
          if (e == 'u') {
            for (int k = 1; k <= 4; ++k)
              if (i + k >= s.size() || !isxdigit((unsigned char)s[i + k])) { *why = "bad \\u escape at " + to_string(i); return false; }
            i += 4;
          } else if (!strchr("\"\\/bfnrt", e)) { *why = string("bad escape \\") + e + " at " + to_string(i); return false; }
        }
        ++i;
      }
      if (i >= s.size()) { *why = "unterminated string"; return false; }
      ++i;
      return true;
    };
    value = [&]() -> bool {
      skip();
      if (i >= s.size()) { *why = "unexpected end"; return false; }
      if (s[i] == '"') return str();
      if (s[i] == '[') {
        ++i; skip();
        if (i < s.size() && s[i] == ']') { ++i; return true; }
        for (;;) {
          if (!value()) return false;
          skip();
          if (i < s.size() && s[i] == ',') { ++i; continue; }
          if (i < s.size() && s[i] == ']') { ++i; return true; }
          *why = "expected , or ] at " + to_string(i); return false;
        }
      }
      if (s[i] == '{') {
        ++i; skip();
        if (i < s.size() && s[i] == '}') { ++i; return true; }
        for (;;) {
          skip();
          if (!str()) return false;
          skip();
          if (i >= s.size() || s[i] != ':') { *why = "expected : at " + to_string(i); return false; }
          ++i;
          if (!value()) return false;
          skip();
          if (i < s.size() && s[i] == ',') { ++i; continue; }
          if (i < s.size() && s[i] == '}') { ++i; return true; }
          *why = "expected , or } at " + to_string(i); return false;
        }
      }
      if (s.compare(i, 4, "true") == 0) { i += 4; return true; }
      if (s.compare(i, 5, "false") == 0) { i += 5; return true; }
      if (s.compare(i, 4, "null") == 0) { i += 4; return true; }
      size_t j = i;
      if (j < s.size() && s[j] == '-') ++j;
      size_t d = j;
      while (j < s.size() && isdigit((unsigned char)s[j])) ++j;
      if (j == d) { *why = "unexpected character at " + to_string(i); return false; }
      i = j;
      return true;
    };
    if (!value()) return false;
    skip();
    if (i != s.size()) { *why = "trailing data at " + to_string(i); return false; }
    return true;
  }

  // ---- C17: dependency cycles --------------------------------------------------------------------
  /// Inputs of a statement in the graph ninja can know at scan time: declared (not validations),
  /// dyndep-provided when the dyndep file exists, discovered through an existing depfile or a
  /// valid deps-log record.  `discovered` receives the subset known only through discovery.
  /// statements whose command completed in an earlier manifest cycle of the invocation being judged (the build that
  /// regenerates build.ninja): what they reported then is known to the build proper
  const set<string>* reported_in_regeneration_ = nullptr;

  vector<string> EffectiveInputs(const Variant& v, const Stmt& s, const vfs::Disk& d, const vfs::Disk* later,
                                 set<string>* discovered) {
    vector<string> in = s.AllDeclaredInputs();
    // legacy: a single-output phony statement without implicit inputs that names itself as an
    // input is tolerated (the self reference is dropped with a warning)
    if (s.phony && s.outs.size() == 1 && s.im.empty())
      in.erase(remove(in.begin(), in.end(), s.outs[0]), in.end());
    if (!s.dyndep.empty() && !s.phony && (d.Get(s.dyndep) || (later && later->Get(s.dyndep))))
      for (auto& x : s.spec.reads) if (find(in.begin(), in.end(), x) == in.end()) in.push_back(x);
    if (s.phony) return in;
    vector<string> disc;
    if (!s.deps.empty()) {
      lp::DepsLogModel dl;
      if (auto* f = d.Get(kDeps)) dl = lp::ParseDepsLog(f->data);
      auto it = dl.deps.find(s.id);
      const vfs::File* o = d.Get(s.id);
      if (it != dl.deps.end() && o && vfs::TickToNs(o->mtime) <= it->second.mtime) {
        disc = it->second.deps;
        // the truth is what the tool reported when the record was made (the simulated tool reports the same list every time):
        // a name that ninja left out of the record is still a dependency of the project
        for (auto& h : s.spec.hidden) {
          string n = s.spec.Spelled(h);
          if (find(disc.begin(), disc.end(), n) == disc.end()) disc.push_back(n);
        }
      }
    } else if (!s.depfile.empty()) {
      if (auto* f = d.Get(s.depfile)) {
        size_t c = f->data.find(':');
        if (c != string::npos && f->data.substr(0, c) == s.id) {
          size_t i = c + 1;
          while (i < f->data.size()) {
            while (i < f->data.size() && (f->data[i] == ' ' || f->data[i] == '\n')) ++i;
            size_t j = i;
            while (j < f->data.size() && f->data[j] != ' ' && f->data[j] != '\n') ++j;
            if (j > i) disc.push_back(f->data.substr(i, j - i));
            i = j;
          }
        }
      }
    }
    // What another command line reported says nothing about this statement: when the build log's record of the output
    // was written for a different command (the manifest was edited since), the list is obsolete, the statement runs again
    // whatever it says, and a cycle "closed" by it is no cycle of the project (ninja does not load such a list).
    if (!disc.empty() && !s.generator) {
      lp::BuildLogModel bl;
      if (auto* f = d.Get(kLog)) bl = lp::ParseBuildLog(f->data);
      auto e = bl.entries.find(s.id);
      if (e != bl.entries.end()) {
        string cmd = s.cmd;
        if (!s.rspfile_content.empty()) cmd += ";rspfile=" + s.rspfile_content;
        char hex[32];
        snprintf(hex, sizeof hex, "%llx", (unsigned long long)BuildLog::LogEntry::HashCommand(cmd));
        if (e->second.hash != hex) disc.clear();
      }
    }
    if (reported_in_regeneration_ && reported_in_regeneration_->count(s.id) && (!s.deps.empty() || !s.depfile.empty()))
      disc = s.spec.hidden;
    for (auto& x : disc)
      if (find(in.begin(), in.end(), x) == in.end()) { in.push_back(x); if (discovered) discovered->insert(s.id + "\x01" + x); }
    return in;
  }

  void CheckCycle(const Op& op, const RunResult& r, const vfs::Disk& before, const vfs::Disk& after,
                  vector<Violation>* out) {
    const Variant* v = VariantOf(sc, before);
    if (!v || r.crashed) return;
    set<string> regen_ran;
    {
      int last_cycle = 0;
      for (auto& c : r.cmds) last_cycle = max(last_cycle, c.cycle);
      for (auto& c : r.cmds) if (c.cycle < last_cycle && c.finished && c.status == 0) regen_ran.insert(c.spec.id());
      // (a regeneration that left the manifest untouched is followed by the build proper without another load)
      if (v->producer.count("build.ninja"))
        for (auto& c : r.cmds) if (c.spec.id() == "build.ninja" && c.finished && c.status == 0) regen_ran.insert(c.spec.id());
    }
    struct Reset { const set<string>** p; ~Reset() { *p = nullptr; } } reset{&reported_in_regeneration_};
    reported_in_regeneration_ = &regen_ran;
    if (r.hang || r.horizon) {
      Violation x; x.prop = "C17"; x.clause = "hang"; x.detail = "ninja does not terminate";
      out->push_back(x);
      return;
    }
    vector<string> roots = TargetsOf(op, *v);
    if (roots.empty()) return;
    // the manifest is brought up to date before anything else; when that build ran a command, it was planned before
    // the command's report existed, and only the requested targets are scanned with it
    if (v->producer.count("build.ninja") && regen_ran.empty()) roots.push_back("build.ninja");
    // closure + cycle search (iterative DFS with colours) over the effective graph
    set<string> discovered;
    map<string, vector<string>> adj;
    set<string> closure;
    // Who produces a node, as far as ninja can know: declared outputs always; outputs supplied by
    // a dyndep file only once the statement bound to that file has been reached and the file is
    // available (exists before, or is produced in this invocation).
    map<string, int> known_producer;
    for (size_t si = 0; si < v->stmts.size(); ++si)
      for (auto& o : v->stmts[si].outs) known_producer[o] = (int)si;
    set<int> reached;
    vector<string> todo(roots.begin(), roots.end());
    auto reach_stmt = [&](int si) {
      if (!reached.insert(si).second) return;
      const Stmt& s = v->stmts[si];
      if (!s.phony && !s.dyndep.empty() && (before.Get(s.dyndep) || after.Get(s.dyndep)))
        for (auto& o : s.spec.outs)
          if (!known_producer.count(o)) {
            known_producer[o] = si;
            if (closure.count(o)) { closure.erase(o); todo.push_back(o); }  // re-expand with its producer known
          }
    };
    while (!todo.empty()) {
      string n = todo.back(); todo.pop_back();
      if (!closure.insert(n).second) continue;
      auto p = known_producer.find(n);
      if (p == known_producer.end()) continue;
      reach_stmt(p->second);
      const Stmt& s = v->stmts[p->second];
      vector<string> in = EffectiveInputs(*v, s, before, &after, &discovered);
      adj[n] = in;
      for (auto& x : in) todo.push_back(x);
      for (auto& x : s.val) todo.push_back(x);          // validations: new roots, no edge
      for (auto& o : s.outs) if (o != n) { /* sibling outputs share the statement */ }
    }
    // statement-level cycle: node -> producer statement -> inputs
    map<int, int> colour;  // 0 white 1 grey 2 black, per statement
    bool cyclic = false, cycle_needs_discovery = false;
    set<int> cyc_stmts;
    function<bool(int, vector<int>&)> dfs = [&](int si, vector<int>& stack) -> bool {
      colour[si] = 1;
      stack.push_back(si);
      const Stmt& s = v->stmts[si];
      vector<string> in = adj.count(s.id) ? adj[s.id] : EffectiveInputs(*v, s, before, &after, &discovered);
      for (auto& x : in) {
        auto p = known_producer.find(x);
        if (p == known_producer.end()) continue;
        int t = p->second;
        if (colour[t] == 1) {
          cyclic = true;
          bool on = false;
          for (int q : stack) { if (q == t) on = true; if (on) cyc_stmts.insert(q); }
          return true;
        }
        if (colour[t] == 0 && dfs(t, stack)) return true;
      }
      colour[si] = 2;
      stack.pop_back();
      return false;
    };
    for (auto& n : closure) {
      auto p = known_producer.find(n);
      if (p == known_producer.end() || colour[p->second]) continue;
      vector<int> stack;
      if (dfs(p->second, stack)) break;
    }
    if (cyclic) {
      // would the cycle exist without discovered inputs?
      for (int si : cyc_stmts)
        for (auto& dsc : discovered)
          if (dsc.compare(0, v->stmts[si].id.size() + 1, v->stmts[si].id + "\x01") == 0) {
            string dep = dsc.substr(v->stmts[si].id.size() + 1);
            auto p = v->producer.find(dep);
            if (p != v->producer.end() && cyc_stmts.count(p->second)) cycle_needs_discovery = true;
          }
    }
    size_t at = r.out.find("dependency cycle: ");
    bool reported = at != string::npos;
    // dyndep information that only became available during this invocation: when was it loaded?
    int dyndep_load_event = -1;   // index of the Finish event of the (last) dyndep-file producer on the cycle
    if (cyclic)
      for (int si : cyc_stmts) {
        const Stmt& s = v->stmts[si];
        if (s.dyndep.empty()) continue;
        // (a dyndep file that exists but whose producer re-runs is loaded when that producer finishes)
        for (size_t e = 0; e < r.events.size(); ++e)
          if (r.events[e].kind == Event::kFinish && r.cmds[r.events[e].cmd].spec.id() == s.dyndep)
            dyndep_load_event = max(dyndep_load_event, (int)e);
      }
    auto started_before_dyndep_load = [&](const string& id) {
      if (dyndep_load_event < 0) return false;
      for (int e = 0; e < dyndep_load_event; ++e)
        if (r.events[e].kind == Event::kStart && r.cmds[r.events[e].cmd].spec.id() == id) return true;
      return false;
    };
    if (cyclic && reported && r.exit_code == 0) {
      // "stops with a 'dependency cycle' error": the message alone is not a stop
      Violation x; x.prop = "C17"; x.clause = "cycle-reported-but-success";
      size_t nl = r.out.find('\n', at);
      x.detail = "ninja reported '" + r.out.substr(at, nl - at) + "' and exited 0";
      out->push_back(x);
      return;
    }
    if (cyclic && !reported) {
      Violation x; x.prop = "C17"; x.clause = "cycle-not-diagnosed";
      string ids;
      for (int si : cyc_stmts) ids += v->stmts[si].id + " ";
      x.detail = "the graph needed for the targets contains a cycle through {" + ids + "} but ninja reported none (exit " +
                 to_string(r.exit_code) + ", started " + js::Dump(StartedList(r)) + ")";
      x.facts.set("cycle_only_through_discovered_dependency", cycle_needs_discovery);
      // is the discovering statement dirty for a reason of its own (so its deps were never loaded)?
      bool dirty_own = false;
      lp::BuildLogModel bl;
      if (auto* f = before.Get(kLog)) bl = lp::ParseBuildLog(f->data);
      for (int si : cyc_stmts) {
        const Stmt& s = v->stmts[si];
        if (s.phony || (s.deps.empty() && s.depfile.empty())) continue;
        // (the manifest regeneration is a build of its own: whatever made that statement dirty was dealt with there,
        // the build proper starts from a fresh scan that can load what the command just reported)
        if (regen_ran.count(s.id)) continue;
        const vfs::File* o = before.Get(s.id);
        if (!o || !bl.entries.count(s.id)) dirty_own = true;
        for (auto* l : {&s.ex, &s.im})
          for (auto& i : *l) { const vfs::File* f = before.Get(i); if (o && f && f->mtime > o->mtime) dirty_own = true; if (!f) dirty_own = true; }
        for (auto& c : r.cmds) if (c.spec.id() == s.id) dirty_own = true;
      }
      x.facts.set("discovering_statement_dirty_for_its_own_reason", dirty_own);
      bool early = false;
      for (int si : cyc_stmts) {
        const Stmt& cs = v->stmts[si];
        if (cs.phony) continue;
        // finished (not merely started) before the file was loaded: no longer in the plan
        if (dyndep_load_event >= 0)
          for (int e = 0; e < dyndep_load_event; ++e)
            if (r.events[e].kind == Event::kFinish && r.cmds[r.events[e].cmd].spec.id() == cs.id) early = true;
        if (dyndep_load_event >= 0 && !Started(r, cs.id)) early = true;   // was up to date: not in the plan
      }
      // is an edge of the cycle there only because a dyndep file makes a node an (implicit) output of a statement?
      bool via_dyn_out = false, consumer_idle = false;
      for (int si : cyc_stmts) {
        const Stmt& ds = v->stmts[si];
        if (ds.dyndep.empty()) continue;
        for (auto& o : ds.spec.outs) {
          if (find(ds.outs.begin(), ds.outs.end(), o) != ds.outs.end()) continue;   // declared in the manifest
          for (int ti : cyc_stmts) {
            vector<string> tin = EffectiveInputs(*v, v->stmts[ti], before, &after, nullptr);
            if (find(tin.begin(), tin.end(), o) != tin.end()) {
              via_dyn_out = true;
              // the consumer had nothing to do (up to date against the file on disk) and was not run
              if (!v->stmts[ti].phony && !Started(r, v->stmts[ti].id)) consumer_idle = true;
            }
          }
        }
      }
      x.facts.set("cycle_runs_through_an_output_supplied_by_dyndep_information", via_dyn_out);
      x.facts.set("the_consumer_of_that_output_was_up_to_date_and_not_run", consumer_idle);
      x.facts.set("ninja_stopped_with_an_error", r.exit_code != 0);
      // (an undiagnosed cycle ends in success or in 'stuck'; any other error message is some other failure)
      x.facts.set("ninja_stopped_with_an_error_other_than_stuck",
                  r.exit_code != 0 && r.out.find("stuck [this is a bug]") == string::npos);
      x.facts.set("dyndep_file_produced_in_this_build", dyndep_load_event >= 0);
      x.facts.set("a_cycle_statement_was_finished_or_up_to_date_when_the_dyndep_file_was_loaded", early);
      out->push_back(x);
      return;
    }
    if (!cyclic && reported) {
      Violation x; x.prop = "C17"; x.clause = "false-cycle";
      size_t nl = r.out.find('\n', at);
      x.detail = "acyclic graph rejected: " + r.out.substr(at, nl - at);
      out->push_back(x);
      return;
    }
    if (!cyclic) return;
    // check the printed cycle hop by hop
    size_t nl = r.out.find('\n', at);
    string path = r.out.substr(at + 18, nl == string::npos ? string::npos : nl - at - 18);
    size_t sfx = path.find(" [-w phonycycle=err]");
    if (sfx != string::npos) path.resize(sfx);
    // "ninja: build stopped: dependency cycle: a -> b -> a." (mid-build) ends with a full stop
    size_t ls = r.out.rfind('\n', at);
    if (r.out.compare(ls == string::npos ? 0 : ls + 1, 21, "ninja: build stopped:") == 0 && !path.empty() && path.back() == '.')
      path.pop_back();
    vector<string> hops;
    size_t i = 0;
    while (i <= path.size()) {
      size_t j = path.find(" -> ", i);
      if (j == string::npos) { hops.push_back(path.substr(i)); break; }
      hops.push_back(path.substr(i, j - i));
      i = j + 4;
    }
    bool ok = hops.size() >= 2 && hops.front() == hops.back();
    for (size_t h = 0; ok && h + 1 < hops.size(); ++h) {
      auto p = v->producer.find(hops[h]);
      if (p == v->producer.end()) { ok = false; break; }
      vector<string> in = EffectiveInputs(*v, v->stmts[p->second], before, &after, nullptr);
      if (find(in.begin(), in.end(), hops[h + 1]) == in.end()) ok = false;
    }
    if (!ok) {
      Violation x; x.prop = "C17"; x.clause = "printed-cycle-is-not-a-cycle";
      x.detail = "'" + path + "' is not a cycle of the graph";
      out->push_back(x);
    }
    for (auto& c : r.cmds) {
      auto p = v->producer.find(c.spec.id());
      if (p != v->producer.end() && cyc_stmts.count(p->second)) {
        // started before the cycle-closing dyndep information existed: ninja could not know
        if (started_before_dyndep_load(c.spec.id())) continue;
        // ... or it is the manifest regeneration whose own report closes the cycle
        if (regen_ran.count(c.spec.id())) continue;
        Violation x; x.prop = "C17"; x.clause = "command-on-cycle-ran";
        x.detail = "'" + c.spec.id() + "' lies on the dependency cycle but its command was started";
        x.facts.set("stmt", c.spec.id());
        out->push_back(x);
      }
    }
    if (r.exit_code == 0) {
      Violation x; x.prop = "C17"; x.clause = "cycle-exit-status"; x.detail = "cycle reported but ninja exited 0";
      out->push_back(x);
    }
  }

  /// Structural fact for F46-C11: some statement Q reads (through dyndep information) a node that dyndep information makes
  /// an output of statement P, and no chain of declared inputs leads from Q to P.
  bool DyndepOutputConsumerWithoutManifestPath(const Variant& v) {
    for (size_t pi = 0; pi < v.stmts.size(); ++pi) {
      const Stmt& p = v.stmts[pi];
      if (p.phony || p.dyndep.empty()) continue;
      for (auto& n : p.spec.outs) {
        if (find(p.outs.begin(), p.outs.end(), n) != p.outs.end()) continue;   // declared, not dyndep-supplied
        for (size_t qi = 0; qi < v.stmts.size(); ++qi) {
          const Stmt& q = v.stmts[qi];
          if (qi == pi || q.phony) continue;
          // (the consumer knows of the node through its own dyndep file, or names it in the manifest, where it is a source
          // file as far as the manifest goes: either way only the producer's dyndep file says who makes it)
          bool reads = find(q.spec.reads.begin(), q.spec.reads.end(), n) != q.spec.reads.end();
          if (!reads) continue;
          // declared-input closure of q
          set<string> seen;
          vector<string> todo = q.AllDeclaredInputs();
          bool path = false;
          while (!todo.empty() && !path) {
            string x = todo.back();
            todo.pop_back();
            if (!seen.insert(x).second) continue;
            auto pr = v.producer.find(x);
            if (pr == v.producer.end()) continue;
            if ((size_t)pr->second == pi && find(p.outs.begin(), p.outs.end(), x) != p.outs.end()) { path = true; break; }
            for (auto& y : v.stmts[pr->second].AllDeclaredInputs()) todo.push_back(y);
          }
          if (!path) return true;
        }
      }
    }
    return false;
  }

  /// Classification helper for the known finding F1: is the statement dirty by what the manifest alone
  /// says (missing output, no / different log record, declared non-order-only input newer)?  Then
  /// ninja does not load its recorded dependencies.
  bool DirtyByManifest(const Variant& v, const Stmt& s, const vfs::Disk& d) {
    lp::BuildLogModel bl;
    if (auto* f = d.Get(kLog)) bl = lp::ParseBuildLog(f->data);
    for (auto& o : s.outs) {
      const vfs::File* of = d.Get(o);
      if (!of) return true;
      auto e = bl.entries.find(o);
      if (e == bl.entries.end()) { if (!s.generator) return true; continue; }
      if (!s.generator) {
        string cmd = s.cmd;
        if (!s.rspfile_content.empty()) cmd += ";rspfile=" + s.rspfile_content;
        char hex[32];
        snprintf(hex, sizeof hex, "%llx", (unsigned long long)BuildLog::LogEntry::HashCommand(cmd));
        if (e->second.hash != hex) return true;
      }
      for (auto* l : {&s.ex, &s.im})
        for (auto& i : *l) {
          const vfs::File* f = d.Get(i);
          if (!f) return true;
          if (f->mtime > of->mtime || vfs::TickToNs(f->mtime) > e->second.mtime) return true;
          auto p = v.producer.find(i);
          if (p != v.producer.end() && !v.stmts[p->second].phony && DirtyByManifest(v, v.stmts[p->second], d)) return true;
        }
    }
    return false;
  }

  // ---- C10 / C11: metamorphic twin -------------------------------------------------------------
  /// The scenario (dependencies discovered through depfile/deps log, or supplied by dyndep files)
  /// and its twin (the same information written in the manifest) are driven through the same
  /// history; every invocation must start the same statements, and in the scenario every
  /// statement starts only after the producers of its discovered / dyndep-supplied inputs.
  void CheckTwin(const Op& op, const RunResult& r, const vfs::Disk& before, const vfs::Disk& after,
                 const RunResult& rt, const vfs::Disk& twin_before, const vfs::Disk& twin_after,
                 vector<Violation>* out) {
    const char* prop = sc.tags.count("spelling") ? "C14" : sc.tags.count("dyndep") ? "C11" : "C10";
    if (r.hang || r.crashed || r.horizon) return;
    const Variant* v = VariantOf(sc, before);
    if (!v) return;
    const Variant* tv = nullptr;
    {
      const vfs::File* f = twin_before.Get("build.ninja");
      if (f) for (auto& x : sc.twin_variants) if (x.manifest_hash == Fnv(f->data)) tv = &x;
    }
    if (!tv) return;
    // the one permitted difference: a discovered dependency that disappeared
    bool discovered_missing = false;
    for (auto& s : v->stmts)
      if (!s.phony) for (auto& h : s.spec.hidden) if (!before.Get(h) && !v->producer.count(h)) discovered_missing = true;
    if (rt.exit_code != 0 && discovered_missing && rt.out.find("missing and no known rule") != string::npos) return;
    // a source input that only a dyndep file names is missing: the manifest form fails before any command, the dyndep
    // form must fail with the same error as soon as the file that names it has been loaded -- nothing may start after
    // the (last) producer of a dyndep file has finished, and nothing at all when no such producer ran
    if (r.exit_code != 0 && rt.exit_code != 0 && rt.cmds.empty() && rt.out.find("missing and no known rule") != string::npos &&
        r.out.find("missing and no known rule") != string::npos && string(prop) == "C11") {
      set<string> ddfiles;
      for (auto& s : v->stmts) if (!s.dyndep.empty()) ddfiles.insert(s.dyndep);
      int last_dd_finish = -1;
      vector<int> st_ev(r.cmds.size(), -1);
      for (size_t i = 0; i < r.events.size(); ++i) {
        if (r.events[i].kind == Event::kStart) st_ev[r.events[i].cmd] = (int)i;
        if (r.events[i].kind == Event::kFinish && ddfiles.count(r.cmds[r.events[i].cmd].spec.id())) last_dd_finish = (int)i;
      }
      bool late = false;
      for (size_t c = 0; c < r.cmds.size(); ++c) if (st_ev[c] > last_dd_finish) late = true;
      if (!late) return;
    }
    set<string> a, b;
    for (auto& c : r.cmds) if (tv->producer.count(c.spec.id())) a.insert(c.spec.id());
    for (auto& c : rt.cmds) if (v->producer.count(c.spec.id())) b.insert(c.spec.id());
    bool r_fail = r.exit_code != 0, t_fail = rt.exit_code != 0;
    if (a != b || r_fail != t_fail) {
      Violation x;
      x.prop = prop; x.clause = "differs-from-declared-twin";
      string sa, sb;
      for (auto& i : a) sa += i + " ";
      for (auto& i : b) sb += i + " ";
      x.detail = "started {" + sa + "} exit " + to_string(r.exit_code) + ", but with the same information written in the manifest "
                 "ninja starts {" + sb + "} exit " + to_string(rt.exit_code);
      // facts for the known finding: a statement with recorded dependencies that is dirty for a
      // reason of its own (its recorded dependencies are then not loaded)
      bool own = false, missing_is_consumer_or_generated = false;
      lp::BuildLogModel bl;
      if (auto* f = before.Get(kLog)) bl = lp::ParseBuildLog(f->data);
      for (auto& s : v->stmts) {
        if (s.phony || (s.deps.empty() && s.depfile.empty())) continue;
        const vfs::File* o = before.Get(s.id);
        bool dirty = !o || !bl.entries.count(s.id);
        for (auto* l : {&s.ex, &s.im})
          for (auto& i : *l) { const vfs::File* f = before.Get(i); if (!f || (o && f->mtime > o->mtime)) dirty = true; }
        auto p0 = VariantByHash(sc, v->manifest_hash);
        (void)p0;
        if (dirty) own = true;
      }
      for (auto& i : b) if (!a.count(i)) missing_is_consumer_or_generated = true;
      x.facts.set("a_statement_with_recorded_deps_is_dirty_for_its_own_reason", own);
      x.facts.set("scenario_starts_fewer_statements", missing_is_consumer_or_generated);
      bool restat_nowrite = false;
      for (auto& c : r.cmds) {
        auto p = v->producer.find(c.spec.id());
        if (p != v->producer.end() && v->stmts[p->second].restat && c.finished && c.status == 0 && !c.wrote) restat_nowrite = true;
      }
      x.facts.set("restat_statement_ran_without_rewriting", restat_nowrite);
      // F74 in this property's words: the only statements that run here and not in the twin are restat statements by dyndep
      // information whose dyndep file is re-made in this very build *and* that a declared input made look out of date when
      // the plan was drawn up (before anything said restat); the twin, which has restat in the manifest, prunes them
      {
        bool only_f74 = !a.empty(), any_extra = false;
        for (auto& i : b) if (!a.count(i)) only_f74 = false;
        for (auto& i : a) {
          if (b.count(i)) continue;
          any_extra = true;
          auto p = v->producer.find(i);
          if (p == v->producer.end()) { only_f74 = false; continue; }
          const Stmt& ps = v->stmts[p->second];
          bool by_dyndep = !ps.restat && ps.spec.restat && !ps.dyndep.empty() && Started(r, ps.dyndep);
          bool declared_newer = false;
          const vfs::File* o = before.Get(ps.id);
          for (auto* l : {&ps.ex, &ps.im})
            for (auto& in : *l) { const vfs::File* f = before.Get(in); if (o && f && f->mtime > o->mtime) declared_newer = true; }
          // ... or downstream of such a statement only (it runs because that one ran)
          bool downstream = false;
          if (!by_dyndep) {
            set<int> up;
            Upstream(*v, p->second, &up);
            for (int u : up) {
              const Stmt& us = v->stmts[u];
              if (!us.restat && us.spec.restat && !us.dyndep.empty() && Started(r, us.dyndep) && a.count(us.id) && !b.count(us.id)) downstream = true;
            }
          }
          if (!((by_dyndep && declared_newer) || downstream)) only_f74 = false;
        }
        x.facts.set("only_restat_by_dyndep_statements_planned_before_their_remade_dyndep_file_was_loaded_run_in_addition", only_f74 && any_extra);
      }
      out->push_back(x);
    }
    // ordering on discovered / dyndep-supplied inputs (hidden reads and reads beyond the declared ones)
    vector<int> start_ev(r.cmds.size(), -1), fin_ev(r.cmds.size(), -1);
    for (size_t i = 0; i < r.events.size(); ++i) {
      if (r.events[i].kind == Event::kStart) start_ev[r.events[i].cmd] = (int)i;
      if (r.events[i].kind == Event::kFinish) fin_ev[r.events[i].cmd] = (int)i;
    }
    for (size_t c = 0; c < r.cmds.size(); ++c) {
      auto p = v->producer.find(r.cmds[c].spec.id());
      if (p == v->producer.end()) continue;
      const Stmt& s = v->stmts[p->second];
      vector<string> ins = s.spec.hidden;
      for (auto& x : s.spec.reads) ins.push_back(x);
      for (auto& x : ins) {
        auto px = v->producer.find(x);
        if (px == v->producer.end() || v->stmts[px->second].phony) continue;
        // only once the dependency has been reported: the statement has a record from an earlier build
        // (what matters is the record, not the output: a deleted output leaves the depfile / deps-log record behind)
        bool known = true;
        if (!s.deps.empty()) {
          lp::DepsLogModel dlm;
          if (auto* f = before.Get(kDeps)) dlm = lp::ParseDepsLog(f->data);
          known = dlm.deps.count(s.id) > 0;
        } else if (!s.depfile.empty()) {
          known = before.Get(s.depfile) != nullptr;
        }
        if (!known) continue;
        for (size_t c2 = 0; c2 < r.cmds.size(); ++c2) {
          if (r.cmds[c2].spec.id() != v->stmts[px->second].id) continue;
          bool ok = fin_ev[c2] >= 0 && fin_ev[c2] < start_ev[c] && r.cmds[c2].status == 0;
          if (!ok) {
            Violation y;
            y.prop = prop; y.clause = "started-before-discovered-producer";
            y.detail = "'" + s.id + "' started before the producer of its " +
                       (find(s.spec.hidden.begin(), s.spec.hidden.end(), x) != s.spec.hidden.end() ? "discovered" : "dyndep-supplied") +
                       " input '" + x + "' had finished";
            lp::BuildLogModel bl;
            if (auto* f = before.Get(kLog)) bl = lp::ParseBuildLog(f->data);
            const vfs::File* o = before.Get(s.id);
            bool dirty = !o || !bl.entries.count(s.id);
            for (auto* l : {&s.ex, &s.im})
              for (auto& i : *l) { const vfs::File* f = before.Get(i); if (!f || (o && f->mtime > o->mtime)) dirty = true; }
            y.facts.set("a_statement_with_recorded_deps_is_dirty_for_its_own_reason", dirty && (!s.deps.empty() || !s.depfile.empty()));
            y.facts.set("stmt", s.id);
            out->push_back(y);
          }
        }
      }
    }
    // final state: the scenario's own clean-build oracle (reported under this property)
    if (r.exit_code == 0 && op.cfg.edits_during.empty()) {
      vector<Violation> vs;
      CheckContent(op, r, after, &vs, prop);
      for (auto& x : vs) { x.clause = "final-state:" + x.clause; out->push_back(x); }
    }
    // classification fact shared by every report of this invocation
    {
      bool own = false;
      for (auto& s : v->stmts)
        if (!s.phony && (!s.deps.empty() || !s.depfile.empty()) && DirtyByManifest(*v, s, before)) own = true;
      for (auto& x : *out)
        if (x.prop == prop) x.facts.set("a_statement_with_recorded_deps_is_dirty_for_its_own_reason", own);
    }
  }

  // ---- C20: transcript ------------------------------------------------------------------------------
  static string StripAnsi(const string& in) {
    // what ninja documents for non-colour terminals: CSI sequences ESC [ ... <letter> are removed
    string o;
    for (size_t i = 0; i < in.size(); ++i) {
      if (in[i] != '\x1b') { o += in[i]; continue; }
      if (i + 1 >= in.size()) break;
      if (in[i + 1] != '[') continue;   // a bare ESC is dropped, the text after it stays
      i += 2;
      // ECMA-48 5.4: parameter bytes 0x30-0x3F, intermediate bytes 0x20-0x2F, one final byte 0x40-0x7E (not only letters)
      while (i < in.size() && !((unsigned char)in[i] >= 0x40 && (unsigned char)in[i] <= 0x7e)) ++i;
      // the final byte is consumed
    }
    return o;
  }

  /// What a terminal shows after receiving `bytes`: CR returns to column 0, LF starts a new line (ONLCR), ESC [ K erases
  /// to the end of the line, every other control sequence (colours) changes no text, anything else overwrites at the
  /// cursor.  No wrapping: a long line stays one line (wrapping loses nothing either).
  static vector<string> Screen(const string& bytes) {
    vector<string> lines(1);
    size_t row = 0, col = 0;
    for (size_t i = 0; i < bytes.size(); ++i) {
      unsigned char c = bytes[i];
      if (c == '\r') { col = 0; continue; }
      if (c == '\n') { ++row; col = 0; if (row >= lines.size()) lines.resize(row + 1); continue; }
      if (c == 0x1b) {
        if (i + 1 < bytes.size() && bytes[i + 1] == '[') {
          size_t j = i + 2;
          while (j < bytes.size() && !((unsigned char)bytes[j] >= 0x40 && (unsigned char)bytes[j] <= 0x7e)) ++j;
          if (j < bytes.size() && bytes[j] == 'K' && j == i + 2) lines[row].resize(min(lines[row].size(), col));
          i = j;
        }
        continue;   // a bare ESC prints nothing
      }
      if (lines[row].size() < col) lines[row].resize(col, ' ');
      if (col < lines[row].size()) lines[row][col] = (char)c; else lines[row].push_back((char)c);
      ++col;
    }
    return lines;
  }

  /// C20 on a terminal: what the user sees.  Every finished command's output, as a terminal would show it on its own,
  /// appears as consecutive whole lines of the screen; a failed command's block is preceded by FAILED and its command line.
  void CheckTerminal(const Op& op, const RunResult& r, vector<Violation>* out) {
    vector<string> screen = Screen(r.out);
    auto bad = [&](const string& clause, const string& detail, const string& stmt) {
      Violation x; x.prop = "C20"; x.clause = clause; x.detail = detail;
      x.facts.set("stmt", stmt);
      x.facts.set("terminal", true);
      out->push_back(x);
    };
    for (auto& c : r.cmds) {
      if (!c.finished || c.unreaped || c.output.empty()) continue;
      if (c.status == 130) return;
      string shown = c.spec.msvc ? WithoutShowIncludesNotes(c.output) : c.output;
      if (shown.empty()) continue;
      vector<string> want = Screen(shown);
      bool ends_nl = shown.back() == '\n';
      if (ends_nl && !want.empty() && want.back().empty()) want.pop_back();
      if (want.empty()) continue;
      // find `want` as consecutive lines; the last line may be followed by more text only if the output lacked its newline
      bool found = false;
      int count = 0;
      for (size_t s0 = 0; s0 + want.size() <= screen.size(); ++s0) {
        bool ok = true;
        for (size_t k = 0; ok && k < want.size(); ++k) {
          const string& have = screen[s0 + k];
          if (k + 1 == want.size() && !ends_nl) ok = have.compare(0, want[k].size(), want[k]) == 0;
          else ok = have == want[k];
        }
        if (ok) { found = true; ++count; }
      }
      if (!found) {
        bad("terminal-output-lost", "on a terminal the output of '" + c.spec.id() + "' is not visible whole (" +
            (ends_nl ? "" : "it does not end in a newline; ") + "first line: '" + want[0].substr(0, 60) + "')", c.spec.id());
        continue;
      }
      if (count > 1) bad("terminal-output-repeated", "on a terminal the output of '" + c.spec.id() + "' is visible more than once", c.spec.id());
      if (c.status != 0) {
        string whole;
        for (auto& l : screen) whole += l + "\n";
        if (whole.find("FAILED: [code=" + to_string(c.status) + "] ") == string::npos || whole.find(c.spec.line + "\n") == string::npos)
          bad("terminal-failed-block", "on a terminal the FAILED line / command line of '" + c.spec.id() + "' is not visible", c.spec.id());
      }
    }
  }

  /// What ninja shows of a deps=msvc tool's output: everything but the /showIncludes notes.
  static string WithoutShowIncludesNotes(const string& vis) {
    string f;
    size_t pos = 0;
    while (pos < vis.size()) {
      size_t nl = vis.find('\n', pos);
      if (nl == string::npos) nl = vis.size() - 1;
      string line = vis.substr(pos, nl - pos + 1);
      if (line.compare(0, 22, "Note: including file: ") != 0) f += line;
      pos = nl + 1;
    }
    return f;
  }

  void CheckTranscript(const Op& op, const RunResult& r, vector<Violation>* out) {
    if (r.hang || r.crashed || r.horizon) return;
    for (auto& e : r.events) if (e.kind == Event::kInterrupt) return;
    if (op.cfg.env.count("VERIF_TTY_COLS")) { CheckTerminal(op, r, out); return; }
    const string& T = r.out;
    auto bad = [&](const string& clause, const string& detail, const string& stmt = "") {
      Violation x; x.prop = "C20"; x.clause = clause; x.detail = detail;
      if (!stmt.empty()) x.facts.set("stmt", stmt);
      bool regen = false;
      int cycles = 0;
      for (auto& c : r.cmds) cycles = max(cycles, c.cycle);
      for (auto& c : r.cmds) if (c.cycle != cycles) regen = true;
      x.facts.set("manifest_was_regenerated_in_this_invocation", regen);
      out->push_back(x);
    };
    bool verbose = find(op.flags.begin(), op.flags.end(), "-v") != op.flags.end();
    bool custom = op.cfg.env.count("NINJA_STATUS") || find(op.flags.begin(), op.flags.end(), "--status") != op.flags.end();
    // --quiet: no status lines at all; command output, FAILED blocks and the console rule are as ever
    bool quiet = find(op.flags.begin(), op.flags.end(), "--quiet") != op.flags.end();
    // 1+2: every finished command's block
    for (size_t ci = 0; ci < r.cmds.size(); ++ci) {
      const RunCmd& c = r.cmds[ci];
      if (!c.finished || c.unreaped) continue;
      if (c.status == 130) return;
      const Variant* v = VariantByHash(sc, c.manifest_hash);
      string desc = c.spec.line;
      string outs;
      if (v) {
        auto p = v->producer.find(c.spec.id());
        if (p != v->producer.end()) {
          if (!v->stmts[p->second].desc.empty() && !verbose) desc = v->stmts[p->second].desc;
          for (auto& o : v->stmts[p->second].outs) outs += o + " ";
          // outputs its dyndep file gave the statement (loaded before the command could start) follow the declared ones
          if (!v->stmts[p->second].dyndep.empty())
            for (auto& o : c.spec.outs)
              if (find(v->stmts[p->second].outs.begin(), v->stmts[p->second].outs.end(), o) == v->stmts[p->second].outs.end()) outs += o + " ";
        }
      }
      string vis = StripAnsi(c.output);
      if (c.spec.msvc) {
        // /showIncludes lines are filtered out by ninja
        string f;
        size_t pos = 0;
        while (pos < vis.size()) {
          size_t nl = vis.find('\n', pos);
          if (nl == string::npos) nl = vis.size() - 1;
          string line = vis.substr(pos, nl - pos + 1);
          if (line.compare(0, 22, "Note: including file: ") != 0) f += line;
          pos = nl + 1;
        }
        vis = f;
      }
      string status_line = (custom || quiet) ? string() : "] " + desc + "\n";
      string failed_block = c.status != 0 ? "FAILED: [code=" + to_string(c.status) + "] " + outs + "\n" + c.spec.line + "\n" : string();
      string header = status_line + failed_block;
      // dumb terminals: an empty line is inserted when the previous output did not end in a newline
      string header_nl = status_line + "\n" + failed_block;
      bool any_console = false;
      for (auto& cc : r.cmds) if (cc.console) any_console = true;
      if (c.console) {
        // status line printed when it started; its own output follows directly
        string want = "] " + desc + "\n" + c.output, want_nl = "] " + desc + "\n\n" + c.output;
        if (quiet) {
          if (!c.output.empty() && T.find(c.output) == string::npos)
            bad("console-output-broken-up", "console command '" + c.spec.id() + "': its output does not appear whole: something was printed into it", c.spec.id());
        } else if (!custom && T.find(want) == string::npos && T.find(want_nl) == string::npos)
          bad("console-output-not-directly-after-status", "console command '" + c.spec.id() + "': something was printed between its status line and its output", c.spec.id());
        continue;
      }
      if (vis.empty()) {
        // (status lines of silent commands may be coalesced while a console command owns the terminal)
        if (!custom && !(quiet && c.status == 0) && !any_console && T.find(header) == string::npos && T.find(header_nl) == string::npos)
          bad("status-line-missing", "no status line" + string(c.status ? "/FAILED block" : "") + " for '" + c.spec.id() + "'", c.spec.id());
        continue;
      }
      size_t first = T.find(vis);
      if (first == string::npos) {
        bad("output-lost", "the output of '" + c.spec.id() + "' does not appear (whole and contiguous) in the transcript", c.spec.id());
        continue;
      }
      if (T.find(vis, first + 1) != string::npos) {
        bad("output-repeated", "the output of '" + c.spec.id() + "' appears more than once", c.spec.id());
        continue;
      }
      // (in a dumb terminal ninja puts an empty line before a block when the previous output did not
      // end in a newline; that does not separate the block from its status line in any harmful way)
      auto ends_with_at = [&](size_t pos, const string& h) { return pos >= h.size() && T.compare(pos - h.size(), h.size(), h) == 0; };
      // (a custom status format: what the status line looks like is the user's business; the FAILED block is ninja's)
      if (!(custom && c.status == 0) && !(quiet && c.status == 0) && !ends_with_at(first, header) && !ends_with_at(first, header + "\n") && !ends_with_at(first, header_nl))
        bad("output-not-after-its-status-line", "the output of '" + c.spec.id() + "' is not directly preceded by its status line" +
            (c.status ? " and FAILED block" : ""), c.spec.id());
    }
    // 2b: "While a console-pool command owns the terminal, other commands' output is held back and shown afterwards": what
    // a command printed that finished while a console command ran appears after that console command's own output (which
    // the simulated tool writes when it ends)
    {
      vector<int> start_ev(r.cmds.size(), -1), fin_ev(r.cmds.size(), -1);
      for (size_t i = 0; i < r.events.size(); ++i) {
        if (r.events[i].kind == Event::kStart) start_ev[r.events[i].cmd] = (int)i;
        if (r.events[i].kind == Event::kFinish) fin_ev[r.events[i].cmd] = (int)i;
      }
      for (size_t ci = 0; ci < r.cmds.size(); ++ci) {
        const RunCmd& c = r.cmds[ci];
        // (also a console command that ninja abandoned with the build -- a start failure elsewhere -- and that ran on to its end
        // while ninja waited for it: it owned the terminal until then)
        if (!c.console || !c.finished || c.output.empty() || fin_ev[ci] < 0) continue;
        size_t cpos = T.find(c.output);
        if (cpos == string::npos) continue;
        for (size_t ni = 0; ni < r.cmds.size(); ++ni) {
          const RunCmd& n = r.cmds[ni];
          if (n.console || !n.finished || n.unreaped || n.output.empty() || n.spec.msvc) continue;
          if (!(fin_ev[ni] > start_ev[ci] && fin_ev[ni] < fin_ev[ci])) continue;
          string nvis = StripAnsi(n.output);
          size_t npos = T.find(nvis);
          if (npos != string::npos && npos < cpos)
            bad("output-shown-while-console-owned", "'" + n.spec.id() + "' finished while the console command '" + c.spec.id() +
                "' owned the terminal, and its output was shown before that command had ended", n.spec.id());
        }
      }
    }
    // 2d: "every started command is also reported finished" -- in an invocation that was not interrupted (neither by a
    // signal nor by a command that died of one: both returned above) no command is left behind running, and none ends
    // without ninja ever asking for its result
    for (auto& c : r.cmds) {
      if (c.finished && !c.unreaped) continue;
      Violation x; x.prop = "C20"; x.clause = "started-command-never-reported-finished";
      x.detail = "'" + c.spec.id() + "' was started and " + (c.finished ? "ran to its end, but ninja never took its result: no status line, its output dropped"
                                                                         : "was still running when ninja exited");
      x.facts.set("stmt", c.spec.id());
      // Builder::Build gives the whole build up on the spot -- Cleanup(), return -- when a command cannot be started (its
      // output directory or response file cannot be made, no pipe, no process) or when the result of a finished one cannot
      // be processed (log write error, unparsable dyndep file): the final message then names no failed subcommand
      bool gave_up = T.find("ninja: build stopped: ") != string::npos && T.find("subcommand failed") == string::npos &&
                     T.find("subcommands failed") == string::npos && T.find("cannot make progress due to previous errors") == string::npos &&
                     T.find("interrupted by user") == string::npos;
      x.facts.set("the_build_was_given_up_on_the_spot_for_a_reason_other_than_a_failed_command", gave_up);
      out->push_back(x);
      break;
    }
    // 2c: a status format without counters (NINJA_STATUS without a placeholder): every finished command still has a line of
    // its own, also when several commands are described by the same text
    if (op.cfg.env.count("NINJA_STATUS") && op.cfg.env.at("NINJA_STATUS").find('%') == string::npos && !verbose) {
      const string& pre = op.cfg.env.at("NINJA_STATUS");
      map<string, int> want_lines;
      bool any_console2 = false;
      for (auto& c : r.cmds) if (c.console) any_console2 = true;
      for (auto& c : r.cmds) {
        if (!c.finished || c.unreaped || c.status == 130) continue;
        const Variant* v = VariantByHash(sc, c.manifest_hash);
        string desc = c.spec.line;
        if (v) { auto p = v->producer.find(c.spec.id()); if (p != v->producer.end() && !v->stmts[p->second].desc.empty()) desc = v->stmts[p->second].desc; }
        want_lines[desc]++;
      }
      if (!any_console2)
        for (auto& kv : want_lines) {
          string line = pre + kv.first + "\n";
          int have = 0;
          for (size_t at = T.find(line); at != string::npos; at = T.find(line, at + 1))
            if (at == 0 || T[at - 1] == '\n') have++;
          if (have < kv.second)
            bad("status-line-missing", to_string(kv.second) + " commands described as '" + kv.first + "' finished and the transcript has " +
                to_string(have) + " status line(s) for them");
        }
    }
    // 3: counters
    vector<array<long, 5>> cnt;   // s f t r u  (default format: f t only)
    {
      size_t pos = 0;
      while (pos < T.size()) {
        size_t nl = T.find('\n', pos);
        if (nl == string::npos) nl = T.size();
        string line = T.substr(pos, nl - pos);
        pos = nl + 1;
        long a, b, c2, d, e;
        if (op.cfg.env.count("NINJA_STATUS")) {
          for (size_t q = 0; q < line.size(); ++q) {
            if (!isdigit((unsigned char)line[q]) || (q && isdigit((unsigned char)line[q - 1]))) continue;
            int used = 0;
            if (sscanf(line.c_str() + q, "%ld/%ld/%ld/%ld/%ld|%n", &a, &b, &c2, &d, &e, &used) == 5 && used > 0) {
              cnt.push_back({a, b, c2, d, e});
              break;
            }
          }
        } else if (!custom) {
          // a status line may be glued to the end of an output that lacks a trailing newline
          for (size_t q = line.find('['); q != string::npos; q = line.find('[', q + 1)) {
            int used = 0;
            if (sscanf(line.c_str() + q, "[%ld/%ld] %n", &a, &b, &used) == 2 && used > 0) { cnt.push_back({-1, a, b, -1, -1}); break; }
          }
        }
      }
    }
    long last_f = 0;
    size_t finished_cmds = 0, started_cmds = r.cmds.size();
    for (auto& c : r.cmds) if (c.finished) finished_cmds++;
    for (auto& k : cnt) {
      if (k[1] > k[2]) { bad("finished-exceeds-total", "status line shows " + to_string(k[1]) + " finished of " + to_string(k[2])); break; }
      if (k[0] >= 0) {
        if (k[0] > k[2]) { bad("started-exceeds-total", "status line shows " + to_string(k[0]) + " started of " + to_string(k[2])); break; }
        if (k[1] > k[0]) { bad("finished-exceeds-started", "status line shows more finished than started"); break; }
        if (k[3] < 0 || k[3] > k[0]) { bad("running-counter", "running counter out of range in a status line"); break; }
        if (k[4] != k[2] - k[0]) { bad("remaining-counter", "remaining != total - started in a status line"); break; }
      }
      last_f = k[1];
    }
    (void)started_cmds;
    // a build that brought the manifest up to date and was followed by the build proper was a successful build of its own:
    // its last status line shows finished == total as well (the counters start again with the next build)
    {
      int cycles = 0;
      for (auto& c : r.cmds) cycles = max(cycles, c.cycle);
      vector<size_t> resets;   // index of the first status line of each build after the first
      for (size_t i = 1; i < cnt.size(); ++i) if (cnt[i][1] <= cnt[i - 1][1]) resets.push_back(i);
      bool consoles = false;
      for (auto& c : r.cmds) if (c.console) consoles = true;
      // (without console commands every finished command has exactly one status line, in the order of the completions)
      vector<const RunCmd*> fin;
      for (auto& e : r.events) if (e.kind == Event::kFinish && !r.cmds[e.cmd].unreaped) fin.push_back(&r.cmds[e.cmd]);
      (void)cycles;
      if (!consoles && !resets.empty() && fin.size() == cnt.size())
        for (size_t cy = 0; cy < resets.size(); ++cy) {
          auto& k = cnt[resets[cy] - 1];
          // (a restat command that left its outputs alone prunes the plan after its own status line)
          const RunCmd* last = fin[resets[cy] - 1];
          if (last->status != 0) break;
          if (last->spec.restat && !last->wrote) continue;
          if (k[1] != k[2]) {
            bad("final-count", "the build that brought the manifest up to date succeeded, and its last status line reads " +
                to_string(k[1]) + "/" + to_string(k[2]) + " (finished != total)");
            break;
          }
        }
    }
    if (r.exit_code == 0 && !cnt.empty() && finished_cmds > 0) {
      auto& k = cnt.back();
      // a console command's completion prints no status line: skip when one finished last
      bool any_console_last = false;
      for (size_t e = r.events.size(); e-- > 0;)
        if (r.events[e].kind == Event::kFinish) {
          const RunCmd& lc = r.cmds[r.events[e].cmd];
          // ... and a restat command that left its outputs untouched prunes the plan only after its
          // own status line was printed (the total it shows is the one before pruning)
          any_console_last = lc.console || (lc.spec.restat && !lc.wrote);
          break;
        }
      if (k[1] != k[2] && !any_console_last)
        bad("final-count", "after a successful build the last status line reads " + to_string(k[1]) + "/" + to_string(k[2]) +
            " (finished != total)");
    }
    (void)last_f;
  }

  /// C06: limits and liveness on one execution.
  /// Is this invocation a client of the jobserver pool?  (An explicit -j makes ninja ignore the pool.)
  static bool UnderJobserver(const Op& op, const RunResult& r) {
    if (op.cfg.js_tokens < 0 || r.js_total < 0) return false;
    for (auto& f : op.flags) if (f.compare(0, 2, "-j") == 0) return false;
    return true;
  }

  void CheckLimits(const Op& op, const RunResult& r, vector<Violation>* out, const vfs::Disk* after = nullptr) {
    // "it always terminates, either having run everything needed or with an error": exit 0 of a real
    // build (not a tool, not -n) while an output in the closure of the targets does not exist
    if (after && r.exit_code == 0 && !r.hang && !r.crashed && !r.horizon && !op.tool && !op.dry_run) {
      const Variant* v = VariantOf(sc, *after);
      if (v) {
        vector<string> roots = TargetsOf(op, *v);
        set<int> stmts;
        set<string> nodes;
        Closure(*v, roots, &stmts, &nodes);
        for (int si : stmts) {
          const Stmt& s = v->stmts[si];
          if (s.phony) continue;
          for (auto& o : s.spec.outs) {
            if (after->Get(o)) continue;
            Violation x; x.prop = "C06"; x.clause = "finished-early";
            x.detail = "ninja exited 0 although '" + o + "' (needed for the requested targets) does not exist: it stopped before "
                       "having run everything needed, without an error";
            x.facts.set("stmt", s.id);
            out->push_back(x);
            break;
          }
        }
      }
    }
    if (r.hang) {
      Violation x; x.prop = "C06"; x.clause = "hang";
      x.detail = "ninja waits forever: nothing is running and no event can arrive";
      out->push_back(x);
    }
    if (r.horizon) {
      Violation x; x.prop = "C06"; x.clause = "horizon";
      x.detail = "invocation did not finish within the step horizon";
      out->push_back(x);
    }
    if (r.out.find("stuck [this is a bug]") != string::npos) {
      Violation x; x.prop = "C06"; x.clause = "stuck";
      x.detail = "ninja reported 'stuck [this is a bug]'";
      out->push_back(x);
    }
    // ninja has gone (exit(), not a kill) and a command it started is neither finished nor stopped: it was left behind --
    // the Fatal() shape (F75, F83, F85), where neither Cleanup() nor any destructor runs
    if (!r.crashed && !r.hang && !r.horizon && !op.tool && !op.dry_run)
      for (auto& c : r.cmds)
        if (!c.finished && !c.killed) {
          Violation x; x.prop = "C06"; x.clause = "exited-with-commands-running";
          x.detail = "ninja exited (status " + to_string(r.exit_code) + ") while '" + c.spec.id() + "', which it had started, was still running";
          x.facts.set("stmt", c.spec.id());
          x.facts.set("exit", r.exit_code);
          out->push_back(x);
          break;
        }
    // "every token is returned by the time ninja exits on any path" (not when the process was killed: r.crashed)
    if (op.cfg.js_tokens >= 0 && r.js_total >= 0 && !r.crashed && !r.hang && !r.horizon && r.js_final != r.js_total) {
      Violation x; x.prop = "C06";
      x.clause = r.js_final < r.js_total ? "jobserver-token-leaked" : "jobserver-token-invented";
      x.detail = "the jobserver pool and its other client held " + to_string(r.js_total) + " token(s) when ninja started and " +
                 to_string(r.js_final) + " after it exited with " + to_string(r.exit_code);
      x.facts.set("exit", r.exit_code);
      out->push_back(x);
    }
    if (op.cfg.js_tokens >= 0 && r.js_total >= 0 && !UnderJobserver(op, r)) {
      for (auto& e : r.events)
        if ((e.kind == Event::kStart || e.kind == Event::kWait) && e.held > 0) {
          Violation x; x.prop = "C06"; x.clause = "jobserver-used-despite-explicit-j";
          x.detail = "ninja was given -j explicitly and still took " + to_string(e.held) + " token(s) from the jobserver pool";
          out->push_back(x);
          break;
        }
    }
    // concurrency: replay the event list
    map<string, int> pool_use;
    int running = 0;
    map<pair<string, int>, int> starts;
    for (auto& e : r.events) {
      if (e.kind == Event::kStart) {
        const RunCmd& rc = r.cmds[e.cmd];
        const Variant* v = VariantByHash(sc, rc.manifest_hash);
        string pool;
        int depth = 0;
        if (v) {
          auto p = v->producer.find(rc.spec.id());
          if (p != v->producer.end()) pool = v->stmts[p->second].pool;
          if (pool == "console") depth = 1;
          else if (!pool.empty()) { auto d = v->pools.find(pool); if (d != v->pools.end()) depth = d->second; }
        }
        running++;
        if (++starts[{rc.spec.id(), rc.cycle}] > 1) {
          Violation x; x.prop = "C06"; x.clause = "started-twice";
          x.detail = "'" + rc.spec.id() + "' was started twice in one invocation";
          x.facts.set("stmt", rc.spec.id());
          out->push_back(x);
        }
        const bool js = UnderJobserver(op, r);
        if (js && e.held >= 0 && running > e.held + 1) {
          Violation x; x.prop = "C06"; x.clause = "over-jobserver-tokens";
          x.detail = to_string(running) + " commands running while ninja holds " + to_string(e.held) +
                     " token(s) of the jobserver pool besides its implicit slot";
          x.facts.set("stmt", rc.spec.id());
          out->push_back(x);
        }
        if (!js && op.j > 0 && running > op.j) {
          Violation x; x.prop = "C06"; x.clause = "over-parallelism";
          x.detail = to_string(running) + " commands running with -j" + to_string(op.j);
          out->push_back(x);
        }
        if (depth > 0 && ++pool_use[pool] > depth) {
          Violation x; x.prop = "C06"; x.clause = "over-pool-depth";
          x.detail = to_string(pool_use[pool]) + " commands of pool '" + pool + "' (depth " + to_string(depth) + ") running";
          x.facts.set("pool", pool);
          out->push_back(x);
        }
        if (pool == "console" && !rc.console) {
          Violation x; x.prop = "C06"; x.clause = "console-flag";
          x.detail = "console-pool command started without the console";
          out->push_back(x);
        }
      } else if (e.kind == Event::kFinish || e.kind == Event::kKilled || e.kind == Event::kReap) {
        const RunCmd& rc = r.cmds[e.cmd];
        // a tool that closes its output early is done for ninja's poll loop but occupies its slot until it is waited for
        if (e.kind == Event::kFinish && rc.spec.detach) continue;
        if (e.kind == Event::kReap && !rc.spec.detach) continue;
        const Variant* v = VariantByHash(sc, rc.manifest_hash);
        if (v) {
          auto p = v->producer.find(rc.spec.id());
          if (p != v->producer.end() && !v->stmts[p->second].pool.empty()) pool_use[v->stmts[p->second].pool]--;
        }
        running--;
      }
    }
    CheckIdle(op, r, out);
  }

  /// Statements ninja can know it needs: reachable from the targets through declared inputs (and the
  /// dyndep file binding), and through dyndep-supplied inputs only of statements whose dyndep
  /// information is loaded at the moment in question (`loaded`).
  void KnownWanted(const Variant& v, const vector<string>& roots, const function<bool(const Stmt&)>& loaded,
                   set<int>* out) {
    vector<string> todo(roots.begin(), roots.end());
    set<string> seen;
    while (!todo.empty()) {
      string nname = todo.back();
      todo.pop_back();
      if (!seen.insert(nname).second) continue;
      auto p = v.producer.find(nname);
      if (p == v.producer.end()) continue;
      const Stmt& s = v.stmts[p->second];
      if (!out->insert(p->second).second) continue;
      for (auto& x : s.AllDeclaredInputs()) todo.push_back(x);
      if (!s.dyndep.empty()) {
        todo.push_back(s.dyndep);
        if (loaded(s)) for (auto& x : s.spec.reads) todo.push_back(x);
      }
    }
  }

  /// Is the dyndep information of `s` loaded at event index `at` of run `r` (cycle `cycle`)?  Loaded at
  /// scan time when the file's producer does not run in this invocation, otherwise once it finished.
  bool DyndepLoadedAt(const Variant& v, const Stmt& s, const RunResult& r, int cycle, int at, const vector<int>& fin_ev) {
    auto pd = v.producer.find(s.dyndep);
    if (pd == v.producer.end()) return true;
    const string& did = v.stmts[pd->second].id;
    bool ran = false;
    for (size_t c = 0; c < r.cmds.size(); ++c) {
      if (r.cmds[c].spec.id() != did || r.cmds[c].cycle != cycle) continue;
      ran = true;
      if (fin_ev[c] >= 0 && fin_ev[c] < at && r.cmds[c].status == 0) return true;
    }
    return !ran;
  }

  /// "No slot idles": at every wait, no statement that is started later was already startable.
  void CheckIdle(const Op& op, const RunResult& r, vector<Violation>* out) {
    if (r.crashed || r.hang || r.horizon) return;
    // with a load limit the capacity is smaller than -j by design
    if (find(op.flags.begin(), op.flags.end(), "-l") != op.flags.end()) return;
    size_t n = r.cmds.size();
    vector<int> start_ev(n, -1), fin_ev(n, -1);
    for (size_t i = 0; i < r.events.size(); ++i) {
      const Event& e = r.events[i];
      if (e.kind == Event::kStart) start_ev[e.cmd] = (int)i;
      if (e.kind == Event::kFinish) fin_ev[e.cmd] = (int)i;
    }
    int failures = 0;
    for (size_t i = 0; i < r.events.size(); ++i) {
      const Event& w = r.events[i];
      if (w.kind == Event::kFinish && w.status != 0) failures++;
      if (w.kind != Event::kWait) continue;
      if (op.k > 0 && failures >= op.k) break;
      const bool js = UnderJobserver(op, r);
      if (!js && op.j > 0 && (int)w.running.size() >= op.j) continue;
      // under a jobserver a slot is free when the pool is readable; ninja need not be asleep then: when it watches the
      // pool, ppoll() returns at once.  Idle = a readable pool it does not watch.
      if (js && !(w.avail > 0 && !w.watch)) continue;
      for (size_t c = 0; c < n; ++c) {
        if (start_ev[c] < (int)i) continue;  // already started
        const RunCmd& rc = r.cmds[c];
        const Variant* v = VariantByHash(sc, rc.manifest_hash);
        if (!v) continue;
        // Only within one manifest cycle: the manifest must not have changed since.
        bool same_cycle = true;
        for (int rcx : w.running) if (r.cmds[rcx].cycle != rc.cycle) same_cycle = false;
        if (!same_cycle) continue;
        auto p = v->producer.find(rc.spec.id());
        if (p == v->producer.end()) continue;
        const Stmt& s = v->stmts[p->second];
        // Bringing the manifest up to date is a build of its own (of build.ninja and what it needs) that ends before
        // the requested targets are looked at -- also when a restat generator left the manifest alone and it is not
        // read again: while a command of that build runs nothing outside it is startable.
        if (v->producer.count("build.ninja")) {
          set<int> mf;
          Upstream(*v, v->producer.at("build.ninja"), &mf);
          mf.insert(v->producer.at("build.ninja"));
          bool regen_running = false;
          for (int rcx : w.running) {
            auto px = v->producer.find(r.cmds[rcx].spec.id());
            if (px != v->producer.end() && mf.count(px->second)) regen_running = true;
          }
          if (regen_running && !mf.count(p->second)) continue;
        }
        // ninja must be able to know that it needs the statement: one reachable only through
        // dyndep-supplied inputs is unknown until that dyndep file has been loaded
        {
          set<int> known;
          KnownWanted(*v, TargetsOf(op, *v),
                      [&](const Stmt& t) { return DyndepLoadedAt(*v, t, r, rc.cycle, (int)i, fin_ev); }, &known);
          if (!known.count(p->second)) continue;
        }
        // all producers (transitively) that run in this invocation finished before this wait,
        // and nothing that is to run later is upstream of it
        set<int> up;
        Upstream(*v, p->second, &up);
        bool ready = true;
        bool prior_cycle_cmd = false;
        for (size_t c2 = 0; c2 < n && ready; ++c2) {
          if (r.cmds[c2].cycle != rc.cycle) { if (start_ev[c2] < (int)i && fin_ev[c2] < 0) prior_cycle_cmd = true; continue; }
          auto p2 = v->producer.find(r.cmds[c2].spec.id());
          if (p2 == v->producer.end() || !up.count(p2->second)) continue;
          if (!(fin_ev[c2] >= 0 && fin_ev[c2] < (int)i && r.cmds[c2].status == 0)) ready = false;
        }
        if (!ready || prior_cycle_cmd) continue;
        // was the manifest already loaded (this cycle started)?  Require some command of the same
        // cycle to have started before the wait, or the wait to be in the same cycle.
        bool cycle_started = false;
        for (size_t c2 = 0; c2 < n; ++c2)
          if (r.cmds[c2].cycle == rc.cycle && start_ev[c2] >= 0 && start_ev[c2] < (int)i) cycle_started = true;
        if (!cycle_started) continue;
        // dyndep: a statement whose dyndep file is produced in this build cannot be known ready
        // before that producer finished -- covered by Upstream (dyndep file is an input).
        // pool room
        int depth = 0;
        if (s.pool == "console") depth = 1;
        else if (!s.pool.empty()) { auto d = v->pools.find(s.pool); if (d != v->pools.end()) depth = d->second; }
        if (depth > 0) {
          int use = 0;
          for (int rcx : w.running) {
            auto px = v->producer.find(r.cmds[rcx].spec.id());
            if (px != v->producer.end() && v->stmts[px->second].pool == s.pool) use++;
          }
          if (use >= depth) continue;
        }
        Violation x;
        x.prop = "C06"; x.clause = "idle-slot";
        x.detail = "ninja waited with " + to_string(w.running.size()) + " running (" +
                   (js ? to_string(w.avail) + " token(s) in the jobserver pool, not watched" : "-j" + to_string(op.j)) +
                   ") although '" + s.id + "' was startable (it was started later)";
        x.facts.set("stmt", s.id);
        out->push_back(x);
        return;
      }
    }
  }

  // ---- one ninja operation from one world: all schedules ---------------------------------------

  struct Succ {
    vfs::Disk disk;
    vector<int> choices;
    bool tainted = false;
    bool expand = true;
    bool is_base = false;   // successful, content-correct full default build: a base for C03
    set<string> restat_pruned;
    bool abnormal = false;
    int64_t crash_at = -1;
    int tear = -1;
    unsigned orphans = 0;
    int64_t io_fail_at = -1;
    vfs::Disk twin;
  };

  void RunSchedules(const World& w, int opi, vector<Succ>* succ) {
    const Op& op = sc.ops[opi];
    int bound = dev_bound >= 0 ? dev_bound : sc.dev_bound;
    set<string> succ_keys;
    set<string> outcome_sigs;
    uint64_t nsched = 0;
    unique_ptr<RunResult> baseline;
    if (!op.cfg.faults.empty() && Want("C05")) {
      vfs::Disk d0 = w.disk;
      RunConfig cfg0 = op.cfg;
      cfg0.faults.clear();
      cfg0.allow_interrupt = false;
      baseline.reset(new RunResult(RunNinja(&d0, cfg0, {})));
      st.invocations++;
    }
    vfs::Disk twin_after = w.twin;
    unique_ptr<RunResult> twin_res;
    if (!sc.twin_variants.empty()) {
      // (tools are applied to the twin as well, so that the two worlds stay in step; only builds are compared)
      RunConfig tcfg = op.cfg;
      tcfg.allow_interrupt = false;
      twin_res.reset(new RunResult(RunNinja(&twin_after, tcfg, {})));
      st.invocations++;
    }
    function<void(const vector<int>&)> rec = [&](const vector<int>& prefix) {
      if (TimeUp()) { st.complete = false; return; }
      vfs::Disk d = w.disk;
      g_crumb.hist = &w.hist; g_crumb.op = opi; g_crumb.prefix = &prefix;
      RunResult r = RunNinja(&d, op.cfg, prefix);
      g_crumb.prefix = nullptr;
      st.invocations++;
      st.schedules++;
      nsched++;
      st.commands += r.cmds.size();
      st.max_running = max(st.max_running, r.max_running);
      if (r.js_total >= 0) {
        st.js_runs++;
        st.js_spins += r.js_spins;
        for (auto& e : r.events) if (e.kind == Event::kToken) st.js_moves++;
      }
      vector<Step> hist = w.hist;
      hist.push_back({opi, r.choices});
      if (r.exit_code == -777) {
        fprintf(stderr, "HARNESS ERROR: replay divergence in %s\n", sc.name.c_str());
        _exit(2);
      }
      vector<Violation> vs;
      bool edited_during = !op.cfg.edits_during.empty();
      bool success = r.exit_code == 0 && !r.hang && !r.crashed && !r.horizon;
      bool content_bad = false;
      if (Want("C17") && op.tool && (r.hang || r.horizon)) {
        Violation x; x.prop = "C17"; x.clause = "tool-does-not-terminate";
        x.detail = "'" + op.label + "' does not terminate on this graph";
        vs.push_back(x);
      }
      if (props.count("C14")) CheckSpelledArgs(op, r, w.disk, d, &vs);
      if (props.count("C14") && op.compare_output_with_twin && twin_res && !w.abnormal && r.out != twin_res->out) {
        Violation x; x.prop = "C14"; x.clause = "tool-output-depends-on-spelling";
        x.detail = "'" + op.label + "' prints {" + r.out.substr(0, 200) + "} here and {" + twin_res->out.substr(0, 200) +
                   "} in the project that spells every path canonically";
        vs.push_back(x);
      }
      if (props.count("C08")) CheckLogHandling(op, r, w.disk, d, &vs);
      if (props.count("C09")) CheckDepsLogHandling(op, r, w.disk, d, &vs);
      if (op.tool && op.tool_kind.compare(0, 5, "clean") == 0) {
        if (Want("C18")) CheckClean(op, r, w.disk, d, &vs);
      } else if (op.tool && (op.tool_kind == "restat" || op.tool_kind == "recompact")) {
        // log maintenance tools: judged by CheckLogHandling only
      } else if (op.tool || op.dry_run) {
        if (Want("C19")) CheckReadOnly(op, r, w.disk, d, &vs);
      }
      if (!op.tool && !op.dry_run) {
        if (success && !edited_during) {
          size_t n0 = vs.size();
          CheckContent(op, r, d, &vs, "C01", &w.disk);
          content_bad = vs.size() > n0;
          if (!content_bad && Want("C02")) CheckConverge(op, r, d, &vs, &w.disk);
        }
        if (Want("C04") || Want("C05") || Want("C16")) CheckOrder(r, &vs);
        if (Want("C16")) CheckRspLifecycle(r, d, &vs);
        if (Want("C05")) CheckFailures(op, r, w.disk, d, baseline.get(), &vs);
        if (Want("C05") && !op.tool && !op.dry_run) CheckMissingSource(op, r, w.disk, &vs);
        if (Want("C05") && !op.cfg.faults.empty()) CheckRetry(op, r, w.disk, d, &vs);
        if (Want("C06")) CheckLimits(op, r, &vs, &d);
        if (Want("C17")) CheckCycle(op, r, w.disk, d, &vs);
        if (Want("C20")) CheckTranscript(op, r, &vs);
        if (twin_res && !op.tool && (Want("C10") || Want("C11") || Want("C14"))) {
          bool sig = false;
          for (auto& c : r.cmds) if (c.finished && c.status == 130) sig = true;
          for (auto& e : r.events) if (e.kind == Event::kInterrupt) sig = true;
          if (!w.abnormal && !sig) {
            size_t nv0 = vs.size();
            CheckTwin(op, r, w.disk, d, *twin_res, w.twin, twin_after, &vs);
            // F46 seen from C11: ninja learns that a node is some statement's (dyndep-supplied) output only when it scans
            // that statement; a consumer that names the node through its own dyndep file and has no manifest path to the
            // producer may be scanned first, or alone, and takes the node for a source file
            if (vs.size() > nv0)
              if (const Variant* fv = VariantOf(sc, w.disk)) {
                bool f46 = DyndepOutputConsumerWithoutManifestPath(*fv);
                for (size_t vi = nv0; vi < vs.size(); ++vi)
                  vs[vi].facts.set("a_consumer_of_a_dyndep_supplied_output_has_no_manifest_path_to_its_producer", f46);
                // F91: the depfile scanner decides by the *spelling* whether a name left of a colon is a dependency seen
                // before (gcc -MP) or a new output; the loader then refuses the "output" nobody declared
                bool mp = false;
                for (auto& st : fv->stmts)
                  if (st.spec.dmp && !st.spec.dspell.empty() && !st.spec.depfile.empty() && st.deps.empty()) mp = true;
                mp = mp && r.out.find("as an output, but no such output was declared") != string::npos;
                for (size_t vi = nv0; vi < vs.size(); ++vi)
                  vs[vi].facts.set("a_plain_depfile_names_a_dependency_again_as_a_target_of_its_own_under_another_spelling_and_is_refused", mp);
              }
          } else if (r.exit_code == 0 && op.cfg.edits_during.empty()) {
            // After an interrupted build the two projects are legitimately apart (ninja removes more of a command with a
            // depfile than of one without): no lock-step comparison, but what a later successful build leaves is
            // still judged -- the recorded dependency must not have been lost with the interrupted command's debris.
            // (Only where ninja still had every statement's dependency information when this build started: with a
            // depfile or record gone -- removed with an interrupted command's outputs -- the project is back to a first
            // build, where a header nobody declared cannot be ordered.)
            const char* tprop = sc.tags.count("spelling") ? "C14" : sc.tags.count("dyndep") ? "C11" : "C10";
            bool all_info = true;
            if (const Variant* cv = VariantOf(sc, w.disk))
              for (auto& cs : cv->stmts)
                if (!cs.phony && (!cs.deps.empty() || !cs.depfile.empty()) && !DiscoveredDepsAvailable(cs, w.disk)) all_info = false;
            if (all_info) {
              vector<Violation> cvs;
              CheckContent(op, r, d, &cvs, tprop);
              for (auto& x : cvs) { x.clause = "final-state:" + x.clause; vs.push_back(x); }
            }
          }
        }
        if (op.expect_error && Want("C11") && !r.hang && !r.crashed && r.exit_code == 0) {
          Violation x; x.prop = "C11"; x.clause = "invalid-dyndep-accepted";
          x.detail = "the dyndep information is invalid for this graph but the build succeeded (started " +
                     js::Dump(StartedList(r)) + ")";
          vs.push_back(x);
        }
        if (Want("C07")) {
          CheckInterrupt(r, w.disk, d, &vs);
          if (w.abnormal) CheckUnexpectedError(op, r, &vs);
        }
        if (Want("C03") && w.base && w.nchanges <= 2 && op.cfg.faults.empty() &&
            !op.cfg.allow_interrupt && !edited_during && !sc.tags.count("manifest-regen") &&
            !(r.exit_code != 0 && r.out.find("missing and no known rule to make it") != string::npos))   // refused: a missing source
          CheckMinimal(op, r, *w.base, w.disk, w.base_restat_pruned, &vs);
      }
      if (w.abnormal && Want("C07")) {
        // anything going wrong in the build that follows an interrupted/killed one counts for C07
        size_t nv = vs.size();
        for (size_t i = 0; i < nv; ++i)
          if (vs[i].prop == "C01" || vs[i].prop == "C02") {
            Violation x = vs[i];
            x.clause = "after-abnormal-exit:" + x.prop + "/" + x.clause;
            x.prop = "C07";
            vs.push_back(x);
          }
      }
      for (auto& v : vs)
        if (Want(v.prop.c_str()) || (v.prop == "C01" && !props.empty())) Report(v, hist);
      // outcome signature for vacuity statistics
      string sig = to_string(r.exit_code) + "|";
      {
        vector<string> ids;
        for (auto& c : r.cmds) ids.push_back(c.spec.id() + ":" + to_string(c.status));
        sort(ids.begin(), ids.end());
        for (auto& s : ids) sig += s + ",";
      }
      string key = WorldKey(d);
      outcome_sigs.insert(sig + "|" + to_string(Fnv(key)));
      st.outcome_kinds.insert(r.hang ? "hang" : r.crashed ? "crash" : "exit" + to_string(r.exit_code));
      if (succ_keys.insert(key).second) {
        Succ s;
        s.disk = d;
        s.choices = r.choices;
        s.tainted = content_bad;
        // the scenario and its twin have parted ways (reported above, known or not): what follows would compare two
        // different histories and only repeat the same finding in other words
        for (auto& v : vs)
          if (v.clause == "started-before-discovered-producer" || v.clause == "differs-from-declared-twin") s.tainted = true;
        s.expand = !op.no_expand && !r.hang && !r.horizon;
        s.is_base = success && !content_bad && !edited_during && op.targets.empty() && op.cfg.faults.empty() &&
                    !op.tool && !op.dry_run;
        s.abnormal = w.abnormal;
        s.twin = twin_after;
        for (auto& e : r.events) if (e.kind == Event::kInterrupt) s.abnormal = true;
        for (auto& c : r.cmds) if (c.finished && c.status == 130) s.abnormal = true;
        if (s.is_base)
          if (const Variant* bv = VariantOf(sc, d))
            for (size_t si = 0; si < bv->stmts.size(); ++si) {
              const Stmt& bs = bv->stmts[si];
              if (bs.phony || (bs.deps.empty() && bs.depfile.empty()) || Started(r, bs.id)) continue;
              if (!DiscoveredDepsAvailable(bs, w.disk)) continue;   // missing information is not the F2 shape
              set<int> up;
              Upstream(*bv, (int)si, &up);
              for (int u : up)
                for (auto& c : r.cmds)
                  if (c.spec.id() == bv->stmts[u].id && bv->stmts[u].restat && c.finished && c.status == 0 && !c.wrote)
                    s.restat_pruned.insert(bs.id);
            }
        succ->push_back(s);
      }
      if (samples.size() < 3 && r.cmds.size() >= 2 && (nsched == 1 || nsched == 3)) {
        J s = J::Obj();
        s.set("scenario", sc.name);
        J h = J::Arr();
        for (auto& stp : hist) h.push(sc.ops[stp.op].label);
        s.set("history", h);
        J ch = J::Arr();
        for (int c : r.choices) ch.push(c);
        s.set("schedule_choices", ch);
        s.set("started", StartedList(r));
        s.set("exit", r.exit_code);
        samples.push_back(s);
      }
      if (op.crash && (Want("C07") || Want("C08") || Want("C09") || Want("C04")) && !r.hang && !r.horizon) {
        // every crash point of this schedule; for write operations with and without a torn part
        for (uint64_t k = 0; k < r.ops; ++k) {
          for (int tear : {-1, 7}) {
            vfs::Disk dc = w.disk;
            RunConfig cc = op.cfg;
            cc.crash_at = (int64_t)k;
            cc.crash_tear = tear;
            RunResult rc = RunNinja(&dc, cc, r.choices);
            st.invocations++;
            st.crash_runs++;
            if (!rc.crashed) continue;
            vector<int> orphans;
            for (size_t c = 0; c < rc.cmds.size(); ++c)
              if (!rc.cmds[c].finished && !rc.cmds[c].killed) orphans.push_back((int)c);
            for (unsigned mask = 0; mask < (1u << orphans.size()); ++mask) {
              vfs::Disk dm = dc;
              RunResult rm = rc;
              for (size_t oi = 0; oi < orphans.size(); ++oi)
                if (mask & (1u << oi)) CompleteOrphan(&dm, &rm, cc, orphans[oi]);
              if (Want("C09") && mask == 0) {
                vector<Violation> cv;
                CheckDepsLogSurvivesFault(op, w.disk, dm, "ninja dies at mutating operation " + to_string(k) + (tear >= 0 ? " (write lands partly)" : ""), &cv);
                vector<Step> ch = w.hist;
                ch.push_back({opi, r.choices, (int64_t)k, tear, 0});
                for (auto& x : cv) Report(x, ch);
              }
              if (Want("C08") && mask == 0) {
                vector<Violation> cv;
                CheckLogSurvivesFault(op, w.disk, dm, "ninja dies at mutating operation " + to_string(k) + (tear >= 0 ? " (write lands partly)" : ""), &cv);
                vector<Step> ch = w.hist;
                ch.push_back({opi, r.choices, (int64_t)k, tear, 0});
                for (auto& x : cv) Report(x, ch);
              }
              string ckey = WorldKey(dm);
              st.crash_worlds++;
              if (!succ_keys.insert(ckey).second) continue;
              Succ s;
              s.disk = dm;
              s.choices = r.choices;
              s.abnormal = true;
              s.expand = true;
              s.crash_at = (int64_t)k;
              s.tear = tear;
              s.orphans = mask;
              succ->push_back(s);
            }
          }
          // the same operation fails with an I/O error instead (disk full, permission, ...): ninja
          // must neither hang nor report 'stuck', and the tree must be recoverable
          {
            vfs::Disk df = w.disk;
            RunConfig cf = op.cfg;
            cf.fail_at = (int64_t)k;
            RunResult rf = RunNinja(&df, cf, r.choices);
            st.invocations++;
            st.io_fault_runs++;
            vector<Violation> fv;
            if (rf.hang || rf.horizon || rf.out.find("stuck [this is a bug]") != string::npos) {
              Violation x; x.prop = "C07"; x.clause = "io-error-hang";
              x.detail = "an I/O error at mutating operation " + to_string(k) + " makes ninja hang or report 'stuck'";
              fv.push_back(x);
            }
            // what is started after a failed operation still finds its directories and its response file (a write error
            // that shows only when the file is closed must not be swallowed)
            if (Want("C04") && !rf.hang && !rf.horizon) CheckOrder(rf, &fv);
            // (one fault per history for I/O errors: an error on top of the debris of an earlier kill is a double fault)
            if (Want("C09") && !rf.hang && !rf.horizon && !w.abnormal)
              CheckDepsLogSurvivesFault(op, w.disk, df, "mutating operation " + to_string(k) + " fails with an I/O error (exit " + to_string(rf.exit_code) + ")", &fv);
            if (Want("C08") && !rf.hang && !rf.horizon && !w.abnormal)
              CheckLogSurvivesFault(op, w.disk, df, "mutating operation " + to_string(k) + " fails with an I/O error (exit " + to_string(rf.exit_code) + ")", &fv);
            vector<Step> fh = w.hist;
            fh.push_back({opi, r.choices});
            fh.back().io_fail_at = (int64_t)k;
            for (auto& x : fv) Report(x, fh);
            string fkey = WorldKey(df);
            if (succ_keys.insert(fkey).second && !rf.hang && !rf.horizon) {
              Succ s;
              s.disk = df;
              s.choices = r.choices;
              s.abnormal = true;
              s.expand = true;
              s.twin = twin_after;
              s.io_fail_at = (int64_t)k;
              succ->push_back(s);
            }
          }
        }
      }
      // branch
      int devs = 0;
      for (size_t i = 0; i < r.choices.size(); ++i) {
        if (i >= prefix.size()) {
          for (int alt = 1; alt < r.arity[i]; ++alt) {
            if (bound >= 0 && devs + r.cost[i] > bound) { st.dev_capped++; continue; }
            vector<int> np(r.choices.begin(), r.choices.begin() + i);
            np.push_back(alt);
            rec(np);
          }
        }
        if (r.choices[i] != 0) devs += r.cost[i];
      }
    };
    rec({});
    if (outcome_sigs.size() > 1) st.multi_outcome_points++;
    st.max_schedules_per_point = max<uint64_t>(st.max_schedules_per_point, nsched);
  }

  // ---- BFS ------------------------------------------------------------------------------------------

  void SetLogPaths() {
    string bd = sc.builddir.empty() ? "" : sc.builddir + "/";
    kLog = bd + ".ninja_log"; kDeps = bd + ".ninja_deps"; kLock = bd + ".ninja_lock";
  }

  void Explore(int depth_override) {
    World w0;
    SetLogPaths();
    for (auto& d : sc.dirs) w0.disk.MkdirP(d);
    for (auto& kv : sc.files) {
      size_t sl = kv.first.rfind('/');
      if (sl != string::npos) w0.disk.MkdirP(kv.first.substr(0, sl));
      w0.disk.Write(kv.first, kv.second);
    }
    if (!sc.twin_variants.empty()) {
      w0.twin = w0.disk;
      for (auto& kv : sc.twin_variants[0].files) w0.twin.Write(kv.first, kv.second);
    }
    for (auto& kv : sc.variants[0].files) w0.disk.Write(kv.first, kv.second);
    // init ops, default schedule
    bool last_init_ok = false;
    for (int opi : sc.init) {
      const Op& op = sc.ops[opi];
      if (op.kind == Op::kNinja) {
        RunResult r = RunNinja(&w0.disk, op.cfg, {});
        st.invocations++;
        last_init_ok = r.exit_code == 0;
        if (!op.expect_error && r.out.find("ninja: error: build.ninja:") != string::npos) {
          if (!sc.twin_variants.empty()) {
            // the project and its twin say the same thing in two ways: when ninja reads the twin and refuses this one, that
            // is a verdict (about spellings, dyndep or discovered information), not a mistake of the generator
            vfs::Disk td = w0.twin;
            RunResult rt = RunNinja(&td, op.cfg, {});
            st.invocations++;
            if (rt.out.find("ninja: error: build.ninja:") == string::npos) {
              Violation x;
              x.prop = sc.tags.count("spelling") ? "C14" : sc.tags.count("dyndep") ? "C11" : "C10";
              x.clause = "manifest-refused-unlike-its-twin";
              x.detail = "ninja refuses the manifest (" + r.out.substr(0, 200) + ") and reads the twin that says the same in other words";
              vector<Step> h = w0.hist;
              h.push_back({opi, r.choices});
              if (Want(x.prop.c_str())) Report(x, h);
              return;
            }
          }
          // a scenario generator wrote a manifest ninja does not accept: not a verdict about ninja
          fprintf(stderr, "HARNESS ERROR: initial build of %s: %s\n", sc.name.c_str(), r.out.c_str());
          exit(2);
        }
        w0.hist.push_back({opi, r.choices});
        if (!sc.twin_variants.empty()) { RunNinja(&w0.twin, op.cfg, {}); st.invocations++; }
      } else {
        ApplySimple(op, &w0.disk);
        if (!sc.twin_variants.empty()) ApplySimple(op, &w0.twin, true);
        w0.hist.push_back({opi, {}});
      }
    }
    if (!sc.init.empty() && sc.ops[sc.init.back()].kind == Op::kNinja && sc.ops[sc.init.back()].targets.empty() &&
        sc.ops[sc.init.back()].cfg.faults.empty() && last_init_ok)   // a converged base needs a build that succeeded
      w0.base = make_shared<vfs::Disk>(w0.disk);
    // Visited set: 128-bit digests of the canonical keys (two independent 64-bit hashes); the keys
    // themselves are ~1 KiB each and made the deep tiers run out of memory.
    struct KeyHash { size_t operator()(const pair<uint64_t, uint64_t>& k) const { return (size_t)(k.first ^ (k.second * 0x9e3779b97f4a7c15ull)); } };
    unordered_set<pair<uint64_t, uint64_t>, KeyHash> seen;
    auto digest = [](const string& k) {
      uint64_t a = 1469598103934665603ull, b = 0x2545f4914f6cdd1dull;
      for (unsigned char c : k) { a = (a ^ c) * 1099511628211ull; b = (b + c) * 0x9e3779b97f4a7c15ull; b ^= b >> 29; }
      return make_pair(a, b);
    };
    deque<pair<World, int>> frontier;
    seen.insert(digest(WorldKey(w0.disk)));
    frontier.push_back({w0, 0});
    st.states = 1;
    int depth = depth_override >= 0 ? depth_override : sc.depth;
    uint64_t pops = 0;
    const uint64_t kMaxStates = 3000000;   // per scenario; beyond it the scenario is reported as incomplete
    while (!frontier.empty()) {
      if (TimeUp() || st.states > kMaxStates) { st.complete = false; break; }
      if ((++pops & 255) == 0 && RssMiB() > kScenarioMiB) { st.complete = false; st.memory_stop = true; break; }
      World w = frontier.front().first;
      int dpt = frontier.front().second;
      frontier.pop_front();
      if (dpt >= depth) continue;
      for (size_t opi = 0; opi < sc.ops.size(); ++opi) {
        const Op& op = sc.ops[opi];
        if (op.kind == Op::kNinja) {
          vector<Succ> succ;
          RunSchedules(w, (int)opi, &succ);
          for (auto& s : succ) {
            st.transitions++;
            string key = WorldKey(s.disk);
            if (!seen.insert(digest(key)).second) continue;
            st.states++;
            if (s.tainted) { st.tainted++; continue; }
            if (!s.expand) continue;
            if (dpt + 1 >= depth) continue;   // leaves are counted, not stored
            World nw;
            nw.disk = s.disk;
            nw.hist = w.hist;
            nw.hist.push_back({(int)opi, s.choices, s.crash_at, s.tear, s.orphans, s.io_fail_at});
            if (s.is_base) { nw.base = make_shared<vfs::Disk>(nw.disk); nw.base_restat_pruned = s.restat_pruned; }
            nw.abnormal = s.abnormal;
            nw.twin = s.twin;
            frontier.push_back({nw, dpt + 1});
          }
        } else {
          World nw = w;
          if (!ApplySimple(op, &nw.disk)) continue;
          if (!sc.twin_variants.empty()) ApplySimple(op, &nw.twin, true);
          st.transitions++;
          string key = WorldKey(nw.disk);
          if (!seen.insert(digest(key)).second) continue;
          st.states++;
          if (dpt + 1 >= depth) continue;
          nw.hist.push_back({(int)opi, {}});
          nw.nchanges = w.nchanges + 1;
          frontier.push_back({nw, dpt + 1});
        }
      }
    }
  }

  // ---- replay of one history with a printed trace -----------------------------------------------------
  bool replay_json = false;
  J replay_steps = J::Arr();

  int Replay(const vector<Step>& hist) {
    World w;
    SetLogPaths();
    for (auto& d : sc.dirs) w.disk.MkdirP(d);
    for (auto& kv : sc.files) {
      size_t sl = kv.first.rfind('/');
      if (sl != string::npos) w.disk.MkdirP(kv.first.substr(0, sl));
      w.disk.Write(kv.first, kv.second);
    }
    for (auto& kv : sc.variants[0].files) w.disk.Write(kv.first, kv.second);
    int bad = 0;
    bool abnormal = false;
    for (size_t i = 0; i < hist.size(); ++i) {
      const Op& op = sc.ops[hist[i].op];
      if (!replay_json) dprintf(100, "--- step %zu: %s\n", i, op.label.c_str());
      if (op.kind != Op::kNinja) { ApplySimple(op, &w.disk); continue; }
      vfs::Disk before = w.disk;
      RunConfig rcfg = op.cfg;
      rcfg.crash_at = hist[i].crash_at;
      rcfg.crash_tear = hist[i].tear;
      rcfg.fail_at = hist[i].io_fail_at;
      RunResult r = RunNinja(&w.disk, rcfg, hist[i].choices);
      if (hist[i].io_fail_at >= 0) {
        dprintf(100, "%s    (mutating operation %lld failed with an I/O error) exit=%d\n", r.out.c_str(), (long long)hist[i].io_fail_at, r.exit_code);
        abnormal = true;
        continue;
      }
      if (hist[i].crash_at >= 0) {
        vector<int> orphans;
        for (size_t c = 0; c < r.cmds.size(); ++c)
          if (!r.cmds[c].finished && !r.cmds[c].killed) orphans.push_back((int)c);
        for (size_t oi = 0; oi < orphans.size(); ++oi)
          if (hist[i].orphans & (1u << oi)) CompleteOrphan(&w.disk, &r, rcfg, orphans[oi]);
        dprintf(100, "%s    ninja killed at mutating operation %lld (tear=%d), %zu orphan(s), completed mask=%u\n",
                r.out.c_str(), (long long)hist[i].crash_at, hist[i].tear, orphans.size(), hist[i].orphans);
        abnormal = true;
        continue;
      }
      bool symbolic = false;
      for (int cz : hist[i].choices) if (cz < 0) symbolic = true;
      if (!symbolic && (r.exit_code == -777 || r.choices != hist[i].choices)) {
        // a shorter recorded choice list is a prefix: fine; anything else is a divergence
        bool prefix_ok = r.choices.size() >= hist[i].choices.size() &&
                         equal(hist[i].choices.begin(), hist[i].choices.end(), r.choices.begin());
        if (!prefix_ok) { dprintf(100, "REPLAY DIVERGED\n"); return 2; }
      }
      if (replay_json) {
        J stp = J::Obj();
        stp.set("step", (long long)i);
        stp.set("exit", r.exit_code);
        stp.set("hang", r.hang);
        stp.set("started", StartedList(r));
        J fin = J::Arr();
        for (auto& e : r.events) if (e.kind == Event::kFinish) fin.push(r.cmds[e.cmd].spec.id());
        stp.set("finished_in_order", fin);
        stp.set("no_work", r.out.find("ninja: no work to do.") != string::npos);
        stp.set("out", r.out);
        J files = J::Obj();
        for (auto& kv : w.disk.files)
          if (!kv.second.dir && kv.first != kLog && kv.first != kDeps && kv.first != kLock) files.set(kv.first, kv.second.data);
        stp.set("files", files);
        replay_steps.push(stp);
      } else {
      dprintf(100, "%s", r.out.c_str());
      dprintf(100, "    exit=%d hang=%d started=%s\n", r.exit_code, r.hang, js::Dump(StartedList(r)).c_str());
      }
      bool abnormal_after = abnormal;  // monitors of this step see the state before it
      for (auto& e : r.events) if (e.kind == Event::kInterrupt) abnormal_after = true;
      for (auto& c : r.cmds) if (c.finished && c.status == 130) abnormal_after = true;
      if (i + 1 == hist.size()) {
        vector<Violation> vs;
        bool success = r.exit_code == 0 && !r.hang && !r.crashed;
        if (props.count("C08")) CheckLogHandling(op, r, before, w.disk, &vs);
        if (props.count("C09")) CheckDepsLogHandling(op, r, before, w.disk, &vs);
        if (op.tool && op.tool_kind.compare(0, 5, "clean") == 0) CheckClean(op, r, before, w.disk, &vs);
        else if (op.tool && (op.tool_kind == "restat" || op.tool_kind == "recompact")) {}
        else if (op.tool || op.dry_run) CheckReadOnly(op, r, before, w.disk, &vs);
        if (!op.tool && !op.dry_run) {
          if (success && op.cfg.edits_during.empty()) {
            size_t n0 = vs.size();
            CheckContent(op, r, w.disk, &vs, "C01", &before);
            if (vs.size() == n0) CheckConverge(op, r, w.disk, &vs, &before);
          }
          CheckOrder(r, &vs);
          CheckRspLifecycle(r, w.disk, &vs);
          unique_ptr<RunResult> baseline;
          if (!op.cfg.faults.empty()) {
            vfs::Disk d0 = before;
            RunConfig cfg0 = op.cfg;
            cfg0.faults.clear();
            baseline.reset(new RunResult(RunNinja(&d0, cfg0, {})));
          }
          CheckFailures(op, r, before, w.disk, baseline.get(), &vs);
          if (!op.cfg.faults.empty()) CheckRetry(op, r, before, w.disk, &vs);
          CheckLimits(op, r, &vs);
          CheckInterrupt(r, before, w.disk, &vs);
          CheckCycle(op, r, before, w.disk, &vs);
          CheckTranscript(op, r, &vs);
          if (abnormal) {
            CheckUnexpectedError(op, r, &vs);
            size_t nv = vs.size();
            for (size_t q = 0; q < nv; ++q)
              if (vs[q].prop == "C01" || vs[q].prop == "C02") {
                Violation x = vs[q];
                x.clause = "after-abnormal-exit:" + x.prop + "/" + x.clause;
                x.prop = "C07";
                vs.push_back(x);
              }
          }
        }
        for (auto& v : vs) {
          if (!Want(v.prop.c_str())) continue;
          dprintf(100, "VIOLATION %s/%s: %s\n", v.prop.c_str(), v.clause.c_str(), v.detail.c_str());
          bad++;
        }
      }
      abnormal = abnormal_after;
    }
    if (replay_json) { dprintf(100, "%s\n", js::Dump(replay_steps).c_str()); return bad ? 1 : 0; }
    for (auto& kv : w.disk.files)
      dprintf(100, "    %-14s %s t=%lld %s\n", kv.first.c_str(), kv.second.dir ? "d" : "f", (long long)kv.second.mtime,
              kv.first[0] == '.' ? "" : vx::JsonEscape(kv.second.data.substr(0, 40)).c_str());
    return bad ? 1 : 0;
  }
};

// ---------------------------------------------------------------------------------------------

static J HistToJson(const Scenario& sc, const vector<Step>& h) {
  J a = J::Arr();
  for (auto& s : h) {
    J o = J::Obj();
    o.set("op", s.op);
    o.set("label", sc.ops[s.op].label);
    J c = J::Arr();
    for (int x : s.choices) c.push(x);
    o.set("choices", c);
    if (s.io_fail_at >= 0) o.set("io_fail_at", (long long)s.io_fail_at);
    if (s.crash_at >= 0) {
      o.set("crash_at", (long long)s.crash_at);
      o.set("tear", s.tear);
      o.set("orphans", (long long)s.orphans);
    }
    a.push(o);
  }
  return a;
}

int main(int argc, char** argv) {
  vx::Args a(argc, argv);
  nx::InitCapture();
  if (!a.Has("replay")) {
    // an alternate stack, so that a stack overflow (unbounded recursion in ninja) is reported too
    static char altstack[1 << 16];
    stack_t ss;
    ss.ss_sp = altstack;
    ss.ss_size = sizeof altstack;
    ss.ss_flags = 0;
    sigaltstack(&ss, nullptr);
    for (int sig : {SIGSEGV, SIGABRT, SIGBUS, SIGFPE, SIGILL}) {
      struct sigaction sa;
      memset(&sa, 0, sizeof sa);
      sa.sa_handler = CrashHandler;
      sa.sa_flags = SA_ONSTACK;
      sigaction(sig, &sa, nullptr);
    }
  }
  string file = a.Get("scenarios");
  long shard = a.GetInt("shard", 0), nshards = a.GetInt("nshards", 1);
  set<string> props;
  {
    string p = a.Get("props");
    size_t i = 0;
    while (i < p.size()) {
      size_t j = p.find(',', i);
      if (j == string::npos) j = p.size();
      props.insert(p.substr(i, j - i));
      i = j + 1;
    }
  }
  double budget = atof(a.Get("seconds", "0").c_str());
  double t0 = Explorer::Now();
  string line;
  long idx = -1;
  Stats total;
  J viol = J::Arr();
  J samples = J::Arr();
  uint64_t scenarios = 0, incomplete = 0, trivial = 0;
  J incomplete_names = J::Arr();
  map<int, int> known_kept;
  int unknown_kept = 0;
  if (a.Has("known")) {
    ifstream kf(a.Get("known"));
    stringstream ks;
    ks << kf.rdbuf();
    J kj;
    if (!js::Parse(ks.str(), &kj)) { fprintf(stderr, "bad known-findings file\n"); return 2; }
    for (auto& f : kj["findings"].a) {
      KnownFinding k;
      k.prop = f["property"].str();
      const J& m = f["match"];
      if (!m["clause"].is_null()) k.clauses.insert(m["clause"].str());
      for (auto& c : m["clauses"].a) k.clauses.insert(c.str());
      if (!m["name_contains"].is_null() || !m["tags_any"].is_null()) continue;   // predicates of other engines
      k.facts = m["facts"];
      g_known.push_back(k);
    }
  }
  if (a.Has("replay")) {
    // replay=<file with {"scenario": {...}, "history": [...]}>
    ifstream rf(a.Get("replay"));
    stringstream ss;
    ss << rf.rdbuf();
    J rj;
    if (!js::Parse(ss.str(), &rj)) { fprintf(stderr, "bad replay file\n"); return 2; }
    Scenario sc;
    string err;
    if (!LoadScenario(rj["scenario"], &sc, &err)) { fprintf(stderr, "bad scenario: %s\n", err.c_str()); return 2; }
    Explorer ex(sc);
    ex.props = props;
    vector<Step> hist;
    for (auto& s : rj["history"].a) {
      Step st;
      st.op = (int)s["op"].num();
      for (auto& c : s["choices"].a) st.choices.push_back((int)c.num());
      st.crash_at = s["crash_at"].is_null() ? -1 : s["crash_at"].num();
      st.tear = (int)s["tear"].num(-1);
      st.orphans = (unsigned)s["orphans"].num(0);
      st.io_fail_at = s["io_fail_at"].is_null() ? -1 : s["io_fail_at"].num();
      hist.push_back(st);
    }
    if (a.Has("json")) {
      ex.replay_json = true;
      ex.props.insert("none");
      ex.Replay(hist);
      return 0;
    }
    int rc1 = ex.Replay(hist);
    dprintf(100, "=== second replay\n");
    Explorer ex2(sc);
    ex2.props = props;
    int rc2 = ex2.Replay(hist);
    if (rc1 != rc2) { dprintf(100, "REPLAYS DISAGREE\n"); return 2; }
    return rc1;
  }
  // Scenarios are explored in forked workers that are recycled when they have grown (see RssMiB): the
  // parent only merges their reports.  `progress` (shared memory) names the scenario a worker is in,
  // so that a worker killed by a crash inside ninja costs exactly that scenario.
  long* progress = (long*)mmap(nullptr, 4096, PROT_READ | PROT_WRITE, MAP_SHARED | MAP_ANONYMOUS, -1, 0);
  auto run_batch = [&](long start, int wfd) {
    long next = -1;   // -1: file exhausted, -2: deadline, >= 0: continue there
    uint64_t memory_stops = 0;
  ifstream in(file);
    if (!in) { fprintf(stderr, "cannot open %s\n", file.c_str()); _exit(2); }
    while (getline(in, line)) {
      if (line.empty()) continue;
      ++idx;
      if (idx % nshards != shard) continue;
      if (idx < start) continue;
      progress[0] = idx;
      J sj;
      if (!js::Parse(line, &sj)) { fprintf(stderr, "bad scenario json at line %ld\n", idx); _exit(2); }
      Scenario sc;
      string err;
      if (!LoadScenario(sj, &sc, &err)) { fprintf(stderr, "scenario %ld: %s\n", idx, err.c_str()); _exit(2); }
      Explorer ex(sc);
      g_crumb = Crumb();
      g_crumb.scenario_index = idx;
      ex.props = props;
      ex.dev_bound = (int)a.GetInt("devbound", -1);
      if (budget > 0) ex.deadline = t0 + budget;
      ex.Explore((int)a.GetInt("depth", -1));
      scenarios++;
      if (!ex.st.complete) { incomplete++; incomplete_names.push(sc.name); }
      if (ex.st.multi_outcome_points == 0) trivial++;
      total.states += ex.st.states;
      total.transitions += ex.st.transitions;
      total.invocations += ex.st.invocations;
      total.schedules += ex.st.schedules;
      total.commands += ex.st.commands;
      total.multi_outcome_points += ex.st.multi_outcome_points;
      total.max_schedules_per_point = max(total.max_schedules_per_point, ex.st.max_schedules_per_point);
      total.tainted += ex.st.tainted;
      total.dev_capped += ex.st.dev_capped;
      total.crash_runs += ex.st.crash_runs;
      total.crash_worlds += ex.st.crash_worlds;
      total.io_fault_runs += ex.st.io_fault_runs;
      total.max_running = max(total.max_running, ex.st.max_running);
      total.js_runs += ex.st.js_runs; total.js_moves += ex.st.js_moves; total.js_spins += ex.st.js_spins;
      for (auto& k : ex.st.outcome_kinds) total.outcome_kinds.insert(k);
      for (auto& v : ex.violations) {
        J o = J::Obj();
        o.set("prop", v.prop);
        o.set("clause", v.clause);
        o.set("detail", v.detail);
        o.set("facts", v.facts);
        o.set("scenario_name", sc.name);
        o.set("scenario_index", idx);
        o.set("family", sc.family);
        J tg = J::Arr();
        for (auto& t : sc.tags) tg.push(t);
        o.set("tags", tg);
        o.set("history", HistToJson(sc, v.hist));
        if (v.known >= 0) { if (known_kept[v.known]++ < 5) viol.push(o); }
        else if (unknown_kept++ < 400) viol.push(o);
      }
      for (auto& s : ex.samples) if (samples.a.size() < 6) samples.push(s);
      if (ex.st.memory_stop) memory_stops++;
      if (budget > 0 && Explorer::Now() > t0 + budget) { incomplete++; next = -2; break; }
      if (RssMiB() > kRecycleMiB) { next = idx + 1; break; }
    }

      J out = J::Obj();
    out.set("scenarios", scenarios);
    out.set("incomplete_scenarios", incomplete);
    out.set("incomplete_scenario_names", incomplete_names);
    out.set("single_outcome_scenarios", trivial);
    out.set("states", total.states);
    out.set("transitions", total.transitions);
    out.set("invocations", total.invocations);
    out.set("schedules", total.schedules);
    out.set("commands", total.commands);
    out.set("multi_outcome_points", total.multi_outcome_points);
    out.set("max_schedules_per_point", total.max_schedules_per_point);
    out.set("tainted_worlds", total.tainted);
    out.set("dev_capped", total.dev_capped);
    out.set("crash_runs", total.crash_runs);
    out.set("crash_worlds", total.crash_worlds);
    out.set("io_fault_runs", total.io_fault_runs);
    out.set("max_running", total.max_running);
    out.set("desc_allocs", (long long)nx::g_desc_allocs);
    out.set("js_runs", total.js_runs);
    out.set("js_moves", total.js_moves);
    out.set("js_spins", total.js_spins);
    J ok = J::Arr();
    for (auto& k : total.outcome_kinds) ok.push(k);
    out.set("outcome_kinds", ok);
    out.set("violations", viol);
    out.set("samples", samples);
    out.set("seconds", Explorer::Now() - t0);

    out.set("next", (long long)next);
    out.set("memory_stops", memory_stops);
    string txt = js::Dump(out);
    size_t off = 0;
    while (off < txt.size()) {
      ssize_t n = write(wfd, txt.data() + off, txt.size() - off);
      if (n <= 0) break;
      off += (size_t)n;
    }
  };
  J merged = J::Obj();
  bool first = true;
  long start = 0;
  int crashed_workers = 0;
  while (start >= 0) {
    int pfd[2];
    if (pipe(pfd) != 0) { perror("pipe"); return 2; }
    progress[0] = -1;
    fflush(stdout); fflush(stderr);
    pid_t pid = fork();
    if (pid < 0) { perror("fork"); return 2; }
    if (pid == 0) {
      close(pfd[0]);
      run_batch(start, pfd[1]);
      close(pfd[1]);
      _exit(0);
    }
    close(pfd[1]);
    string txt;
    char buf[65536];
    for (;;) {
      ssize_t n = read(pfd[0], buf, sizeof buf);
      if (n <= 0) break;
      txt.append(buf, (size_t)n);
    }
    close(pfd[0]);
    int wst = 0;
    waitpid(pid, &wst, 0);
    J part;
    bool ok = WIFEXITED(wst) && WEXITSTATUS(wst) == 0 && js::Parse(txt, &part);
    if (!ok) {
      if (WIFEXITED(wst) && WEXITSTATUS(wst) == 2) return 2;   // harness error, already reported on stderr
      // the worker died inside ninja (its fatal-signal handler has printed NXCRASH) or was killed
      crashed_workers++;
      if (!(WIFEXITED(wst) && WEXITSTATUS(wst) == 97))
        fprintf(stderr, "nx worker for scenario %ld ended abnormally (wait status %d)\n", progress[0], wst);
      if (progress[0] < 0) return 3;
      start = progress[0] + 1;
      continue;
    }
    long long next = part["next"].num(-1);
    if (first) { merged = part; first = false; }
    else {
      for (auto& kv : part.o) {
        const string& k = kv.first;
        if (k == "next" || k == "seconds") continue;
        if (kv.second.t == J::kNum) {
          double cur = merged[k].n;
          bool is_max = k == "max_schedules_per_point" || k == "max_running";
          merged.set(k, J(is_max ? max(cur, kv.second.n) : cur + kv.second.n));
        } else if (k == "violations" || k == "samples" || k == "outcome_kinds") {
          J arr = merged[k];
          for (auto& x : kv.second.a) {
            if (k == "outcome_kinds") { bool have = false; for (auto& y : arr.a) if (y.s == x.s) have = true; if (have) continue; }
            if (k == "samples" && arr.a.size() >= 6) continue;
            if (k == "violations" && arr.a.size() >= 2000) continue;
            arr.push(x);
          }
          merged.set(k, arr);
        }
      }
    }
    start = next >= 0 ? (long)next : -1;
  }
  if (first) { merged = J::Obj(); merged.set("scenarios", 0); merged.set("violations", J::Arr()); merged.set("samples", J::Arr()); merged.set("outcome_kinds", J::Arr()); }
  merged.set("crashed_workers", crashed_workers);
  merged.set("seconds", Explorer::Now() - t0);
  J& out = merged;
  dprintf(100, "%s\n", js::Dump(out).c_str());
  return crashed_workers ? 97 : 0;
}
