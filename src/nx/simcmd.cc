// The simulated command language shared by engine A (in-process simulator, simproc.cc) and engine B
// (src/rb/vcmd.cc, run by the real ninja binary): parsing of a command line and the content function.
#include <algorithm>
#include <stdio.h>
#include <string.h>

#include "nx.h"

using namespace std;

namespace nx {

const char kMissing[] = "\x01MISSING";

uint64_t Fnv(const string& s) {
  uint64_t h = 1469598103934665603ULL;
  for (unsigned char c : s) { h ^= c; h *= 1099511628211ULL; }
  return h;
}
string Hex64(uint64_t v) {
  char b[20];
  snprintf(b, sizeof b, "%016llx", (unsigned long long)v);
  return b;
}

// paths inside a command line are written with %20 for a space and %25 for a percent sign
static string DecodePath(const string& s) {
  // %XX (two hex digits) stands for the byte XX
  string o;
  auto hv = [](char c) { return c >= '0' && c <= '9' ? c - '0' : (c >= 'a' && c <= 'f') ? c - 'a' + 10 : (c >= 'A' && c <= 'F') ? c - 'A' + 10 : -1; };
  for (size_t i = 0; i < s.size(); ++i) {
    if (s[i] == '%' && i + 2 < s.size() + 0 + 1 && i + 2 <= s.size() - 1 + 0 && hv(s[i + 1]) >= 0 && hv(s[i + 2]) >= 0) {
      o += (char)(hv(s[i + 1]) * 16 + hv(s[i + 2]));
      i += 2;
    } else {
      o += s[i];
    }
  }
  return o;
}

static vector<string> SplitComma(const string& s) {
  vector<string> r;
  size_t i = 0;
  while (i <= s.size()) {
    size_t j = s.find(',', i);
    if (j == string::npos) j = s.size();
    if (j > i) r.push_back(DecodePath(s.substr(i, j - i)));
    i = j + 1;
  }
  return r;
}

static string Unhex(const string& s) {
  string o;
  auto v = [](char c) { return c <= '9' ? c - '0' : (c | 32) - 'a' + 10; };
  for (size_t i = 0; i + 1 < s.size(); i += 2) o += (char)(v(s[i]) * 16 + v(s[i + 1]));
  return o;
}

CmdSpec ParseCmd(const string& line) {
  CmdSpec c;
  c.line = line;
  if (line.compare(0, 4, "sim ") != 0) return c;
  size_t i = 4;
  while (i < line.size()) {
    size_t j = line.find(' ', i);
    if (j == string::npos) j = line.size();
    string tok = line.substr(i, j - i);
    i = j + 1;
    size_t eq = tok.find('=');
    if (eq == string::npos) continue;
    string k = tok.substr(0, eq), v = tok.substr(eq + 1);
    if (k == "o") c.outs = SplitComma(v);
    else if (k == "r") c.reads = SplitComma(v);
    else if (k == "h") c.hidden = SplitComma(v);
    else if (k == "d") c.depfile = DecodePath(v);
    else if (k == "rsp") c.rsp = DecodePath(v);
    else if (k == "p") c.print = Unhex(v);
    else if (k == "msvc") c.msvc = v != "0";
    else if (k == "nl") c.notes_last = v != "0";
    else if (k == "mp") c.msvc_prefix = Unhex(v);
    else if (k == "dt") c.detach = v != "0";
    else if (k == "restat") c.restat = v != "0";
    else if (k == "gen") c.gen = v != "0";
    else if (k == "copy") c.copy = v != "0";
    else if (k == "depall") c.depall = v != "0";
    else if (k == "dall") c.dall = v != "0";
    else if (k == "dmp") c.dmp = v != "0";
    else if (k == "po") {
      string t = Unhex(v);
      size_t a = 0;
      while (a < t.size()) {
        size_t b = t.find(';', a);
        if (b == string::npos) b = t.size();
        string kv = t.substr(a, b - a);
        size_t e = kv.find(':');
        if (e != string::npos) c.per_out[kv.substr(0, e)] = SplitComma(kv.substr(e + 1));
        a = b + 1;
      }
    }
    else if (k == "dsp") {
      string t = Unhex(v);
      size_t a = 0;
      while (a < t.size()) {
        size_t b = t.find(';', a);
        if (b == string::npos) b = t.size();
        string kv = t.substr(a, b - a);
        size_t e = kv.find('=');
        if (e != string::npos) c.dspell[kv.substr(0, e)] = kv.substr(e + 1);
        a = b + 1;
      }
    }
  }
  c.valid = !c.outs.empty();
  return c;
}

string ContentOf(const CmdSpec& c, const string& out,
                 const vector<pair<string, string>>& reads, const string& rsp_content) {
  if (c.copy) {
    // several outputs: the i-th output is a copy of the i-th file read (a generator that writes a manifest in parts)
    size_t idx = std::find(c.outs.begin(), c.outs.end(), out) - c.outs.begin();
    if (idx >= reads.size()) idx = 0;
    return reads.empty() ? string() : reads[idx].second;
  }
  string key = c.gen ? string("gen") : c.line;
  key += "|rsp=" + rsp_content;
  auto po = c.per_out.find(out);
  for (auto& r : reads) {
    if (po != c.per_out.end() && std::find(po->second.begin(), po->second.end(), r.first) == po->second.end()) continue;
    key += "|" + r.first + "=" + r.second;
  }
  return "H" + Hex64(Fnv(key)) + ":" + out + "\n";
}


string DepfileEscape(const string& n) {
  string o;
  for (size_t i = 0; i < n.size(); ++i) {
    if (n[i] == ' ') {
      for (size_t j = i; j > 0 && n[j - 1] == '\\'; --j) o += '\\';
      o += "\\ ";
    } else if (n[i] == '#') {
      o += "\\#";
    } else if (n[i] == '$') {
      o += "$$";
    } else {
      o += n[i];
    }
  }
  return o;
}

string DepfileText(const CmdSpec& s) {
  string d = DepfileEscape(s.Spelled(s.outs[0]));
  if (s.dall) for (size_t i = 1; i < s.outs.size(); ++i) d += " " + DepfileEscape(s.Spelled(s.outs[i]));
  d += ":";
  if (s.depall) for (const string& r : s.reads) d += " " + DepfileEscape(s.Spelled(r));
  for (const string& h : s.hidden) d += " " + DepfileEscape(s.Spelled(h));
  d += "\n";
  if (s.dmp) for (const string& h : s.hidden) d += DepfileEscape(h) + ":\n";
  return d;
}

}  // namespace nx
