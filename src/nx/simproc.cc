// Seam S1: the members declared in ninja's subprocess.h, implemented over simulated commands.
// RealCommandRunner, Builder, Plan and Pool stay real; this file owns which running command(s)
// finish at each wait, with which status and output, and whether an interrupt arrives.
#include <dirent.h>
#include <errno.h>
#include <fcntl.h>
#include <setjmp.h>
#include <stdio.h>
#include <stdlib.h>
#include <string.h>
#include <sys/ioctl.h>
#include <sys/stat.h>
#include <unistd.h>

#include <algorithm>

#include "nx.h"
#include "subprocess.h"

using namespace std;

namespace nx {

int Chooser::Choose(int n, int dev_cost) {
  size_t i = taken.size();
  int c = 0;
  if (i < prefix.size()) {
    c = prefix[i];
    if (c >= n) { diverged = true; c = 0; }
    // negative values are symbolic and resolved by the caller (-1: the youngest running command)
  }
  taken.push_back(c);
  arity.push_back(n);
  cost.push_back(dev_cost);
  return c;
}

// ---- per-invocation state shared with nxmain.cc ---------------------------------------------
Cur g_cur;

static void Record(Event::Kind k, int cmd, int status = 0) {
  Event e;
  e.kind = k;
  e.cmd = cmd;
  e.status = status;
  e.tick = vfs::disk->now;
  e.op_index = vfs::op_count;
  g_cur.res->events.push_back(e);
}

// ---- seam S6a: the jobserver pool -------------------------------------------------------------------
// A real FIFO under /dev/shm, one per worker process.  ninja's own client code (jobserver-posix.cc) opens, reads
// and writes it; the harness plays the pool's owner and one other client ("make" with further jobs), whose
// takes and returns are choice points.  Within one process nothing else touches the FIFO: deterministic.
static struct {
  int fd = -1;
  string path;
  bool on = false;
  int total = 0, ext_held = 0, ext_max = 0, moves_left = 0;
  char byte = '+';
} g_js;

bool JsOn() { return g_js.on; }

int JsAvail() {
  int n = 0;
  if (ioctl(g_js.fd, FIONREAD, &n) != 0) return 0;
  return n;
}

int JsNinjaHolds() { return g_js.total - JsAvail() - g_js.ext_held; }

void JsBegin(const RunConfig& cfg) {
  g_js.on = cfg.js_tokens >= 0;
  if (!g_js.on) return;
  if (g_js.fd < 0) {
    g_js.path = "/dev/shm/nxjs." + to_string((long)getpid());
    unlink(g_js.path.c_str());
    if (mkfifo(g_js.path.c_str(), 0600) != 0) { perror("nx: mkfifo"); _exit(2); }
    g_js.fd = open(g_js.path.c_str(), O_RDWR | O_NONBLOCK | O_CLOEXEC);
    if (g_js.fd < 0) { perror("nx: open fifo"); _exit(2); }
    static string path_copy;
    path_copy = g_js.path;
    atexit([] { unlink(path_copy.c_str()); });
  }
  char c;
  while (read(g_js.fd, &c, 1) == 1) {}
  g_js.byte = (char)cfg.js_byte;
  for (int i = 0; i < cfg.js_tokens; ++i) (void)!write(g_js.fd, &g_js.byte, 1);
  g_js.ext_held = cfg.js_ext_held;
  g_js.ext_max = max(cfg.js_ext_max, cfg.js_ext_held);
  g_js.moves_left = cfg.js_moves;
  g_js.total = cfg.js_tokens + cfg.js_ext_held;
  if (!cfg.env.count("MAKEFLAGS")) setenv("MAKEFLAGS", (" -j8 --jobserver-auth=fifo:" + g_js.path).c_str(), 1);
}

void JsEnd(RunResult* res) {
  if (!g_js.on) return;
  res->js_total = g_js.total;
  res->js_final = JsAvail() + g_js.ext_held;
  g_js.on = false;
  // exit() does not run destructors: the client's two descriptors stay open, as they would until the process is gone
  vector<int> leaked;
  if (DIR* dir = opendir("/proc/self/fd")) {
    while (struct dirent* e = readdir(dir)) {
      int fd = atoi(e->d_name);
      if (fd <= 2 || fd == g_js.fd || fd == dirfd(dir)) continue;
      char buf[256];
      ssize_t n = readlink(("/proc/self/fd/" + string(e->d_name)).c_str(), buf, sizeof buf - 1);
      if (n > 0 && string(buf, (size_t)n) == g_js.path) leaked.push_back(fd);
    }
    closedir(dir);
  }
  for (int fd : leaked) close(fd);
}

/// The other client of the pool acts: any number of takes / returns while its budget of moves lasts.
static void JsExternalMoves() {
  while (g_js.on && g_js.moves_left > 0) {
    bool can_take = g_js.ext_held < g_js.ext_max && JsAvail() > 0;
    bool can_give = g_js.ext_held > 0;
    if (!can_take && !can_give) return;
    int c = g_cur.ch->Choose(1 + (can_take ? 1 : 0) + (can_give ? 1 : 0));
    if (c <= 0) return;
    bool take = can_take && c == 1;
    Event e;
    e.kind = Event::kToken;
    e.tick = vfs::disk->now;
    e.op_index = vfs::op_count;
    if (take) {
      char ch;
      if (read(g_js.fd, &ch, 1) == 1) g_js.ext_held++;
      e.status = -1;
    } else {
      (void)!write(g_js.fd, &g_js.byte, 1);
      g_js.ext_held--;
      e.status = +1;
    }
    g_js.moves_left--;
    g_cur.res->events.push_back(e);
  }
}

static string DirOf(const string& p) {
  size_t i = p.rfind('/');
  return i == string::npos ? string() : p.substr(0, i);
}

static int StartCmd(const string& command, bool console) {
  RunResult& R = *g_cur.res;
  RunCmd rc;
  rc.spec = ParseCmd(command);
  rc.console = console;
  rc.start_tick = vfs::disk->now;
  rc.cycle = (int)vfs::manifest_reads;
  if (const vfs::File* mf = vfs::disk->Get("build.ninja")) rc.manifest_hash = Fnv(mf->data);
  const CmdSpec& s = rc.spec;
  for (const string& r : s.reads) {
    const vfs::File* f = vfs::disk->Get(r);
    rc.snapshot.push_back({r, f && !f->dir ? f->data : string(kMissing)});
  }
  for (const string& r : s.hidden) {
    const vfs::File* f = vfs::disk->Get(r);
    rc.snapshot.push_back({r, f && !f->dir ? f->data : string(kMissing)});
  }
  if (!s.rsp.empty()) {
    const vfs::File* f = vfs::disk->Get(s.rsp);
    rc.rsp_content = f ? f->data : string(kMissing);
  }
  for (const string& o : s.outs)
    if (!vfs::disk->ParentOk(o)) rc.missing_dirs.push_back(o);
  if (!s.depfile.empty() && !vfs::disk->ParentOk(s.depfile)) rc.missing_dirs.push_back(s.depfile);
  R.cmds.push_back(rc);
  int idx = (int)R.cmds.size() - 1;
  Record(Event::kStart, idx);
  if (JsOn()) R.events.back().held = JsNinjaHolds();
  return idx;
}

// The command's process exits: perform its effects on the disk.
static void FinishCmd(int idx) {
  RunResult& R = *g_cur.res;
  RunCmd& rc = R.cmds[idx];
  const CmdSpec& s = rc.spec;
  rc.finished = true;
  rc.finish_tick = vfs::disk->now;
  if (!s.valid) {
    rc.status = 127;
    rc.output = "/bin/sh: 1: " + s.line + ": not found\n";
    Record(Event::kFinish, idx, rc.status);
    return;
  }
  auto f = g_cur.cfg->faults.find(s.id());
  bool depfile_dir = f != g_cur.cfg->faults.end() && f->second.depfile_dir && !s.depfile.empty();
  if (f != g_cur.cfg->faults.end() && !depfile_dir) {
    const Fault& ft = f->second;
    if (ft.touch) {
      for (const string& o : s.outs)
        if (vfs::disk->Write(o, "GARBAGE from failed " + s.id() + "\n")) rc.wrote = true;
    }
    if (ft.bad_depfile && !s.depfile.empty()) vfs::disk->Write(s.depfile, "this is what a compiler that died half way leaves\n");
    if (ft.trim_depfile && !s.depfile.empty()) vfs::disk->Write(s.depfile, DepfileEscape(s.outs[0]) + ":\n");
    rc.status = ft.by_signal ? 130 : ft.exit_code;
    rc.output = s.print + "error: " + s.id() + " failed\n";
    Record(Event::kFinish, idx, rc.status);
    return;
  }
  // A declared read that does not exist makes the tool fail like a compiler would.
  for (size_t i = 0; i < s.reads.size(); ++i) {
    if (rc.snapshot[i].second == kMissing) {
      rc.status = 1;
      rc.output = "sim: " + s.reads[i] + ": No such file or directory\n";
      Record(Event::kFinish, idx, rc.status);
      return;
    }
  }
  if (!rc.missing_dirs.empty()) {
    rc.status = 1;
    rc.output = "sim: cannot create " + rc.missing_dirs[0] + ": No such file or directory\n";
    Record(Event::kFinish, idx, rc.status);
    return;
  }
  if (!s.rsp.empty() && rc.rsp_content == kMissing) {
    rc.status = 1;
    rc.output = "sim: " + s.rsp + ": No such file or directory\n";
    Record(Event::kFinish, idx, rc.status);
    return;
  }
  for (const string& o : s.outs) {
    string content = ContentOf(s, o, rc.snapshot, rc.rsp_content);
    const vfs::File* old = vfs::disk->Get(o);
    if (s.restat && old && !old->dir && old->data == content) continue;
    vfs::disk->Write(o, content);
    rc.wrote = true;
  }
  if (!s.depfile.empty()) {
    const vfs::File* df = vfs::disk->Get(s.depfile);
    if (depfile_dir || (df && df->dir)) {
      // a directory where the dependency file should be: made by this (faulty) run, or left by an earlier one, in which case
      // the tool cannot write its dependencies and says so
      if (depfile_dir && !(df && df->dir)) { vfs::disk->Remove(s.depfile); vfs::disk->MkdirP(s.depfile); }
      rc.status = 1;
      if (depfile_dir) rc.told = 0; else rc.output = "sim: " + s.depfile + ": Is a directory\n";
      rc.output += s.print;
      Record(Event::kFinish, idx, rc.status);
      return;
    }
    vfs::disk->Write(s.depfile, DepfileText(s));
  }
  if (s.msvc && !s.notes_last)
    for (const string& h : s.hidden) rc.output += s.msvc_prefix + s.Spelled(h) + "\n";
  rc.output += s.print;
  if (s.msvc && s.notes_last) {
    if (!rc.output.empty() && rc.output.back() != '\n') rc.output += "\n";
    for (size_t i = 0; i < s.hidden.size(); ++i)
      rc.output += s.msvc_prefix + s.Spelled(s.hidden[i]) + (i + 1 < s.hidden.size() ? "\n" : "");
  }
  rc.status = 0;
  Record(Event::kFinish, idx, 0);
}

/// A command that was still running when ninja died runs to completion on its own.
void CompleteOrphan(vfs::Disk* d, RunResult* res, const RunConfig& cfg, int idx) {
  Cur saved = g_cur;
  vfs::Disk* saved_disk = vfs::disk;
  g_cur.res = res;
  g_cur.cfg = &cfg;
  vfs::disk = d;
  FinishCmd(idx);
  vfs::disk = saved_disk;
  g_cur = saved;
}

}  // namespace nx

using namespace nx;

// ---- subprocess.h members ------------------------------------------------------------------------

volatile sig_atomic_t SubprocessSet::interrupted_;
volatile sig_atomic_t SubprocessSet::s_sigchld_received;

Subprocess::Subprocess(bool use_console) : fd_(-1), pid_(-1), use_console_(use_console) {}
Subprocess::~Subprocess() {}
ExitStatus Subprocess::Finish() {
  // the real Finish() is a blocking waitpid(): only now is the process known to be gone
  if (g_cur.res && pid_ >= 0 && pid_ < (int)g_cur.res->cmds.size()) Record(Event::kReap, pid_);
  return exit_status_;
}
bool Subprocess::Done() const { return fd_ == -2; }
const string& Subprocess::GetOutput() const { return buf_; }

SubprocessSet::SubprocessSet() {}
SubprocessSet::~SubprocessSet() { Clear(); }
void SubprocessSet::SetInterruptedFlag(int signum) { interrupted_ = signum; }
void SubprocessSet::HandlePendingInterruption() {}

Subprocess* SubprocessSet::Add(const string& command, bool use_console) {
  extern void nx_seam_enter();
  nx_seam_enter();
  Subprocess* s = new Subprocess(use_console);
  s->pid_ = StartCmd(command, use_console);
  running_.push_back(s);
  if ((int)running_.size() + (int)finished_.size() > g_cur.res->max_running)
    g_cur.res->max_running = (int)running_.size() + (int)finished_.size();
  return s;
}

static void Complete(SubprocessSet* set, size_t pos) {
  Subprocess* s = set->running_[pos];
  FinishCmd(s->pid_);
  const RunCmd& rc = g_cur.res->cmds[s->pid_];
  if (s->use_console_ && !rc.output.empty()) {
    // a console command owns the terminal: what it prints goes there directly, not through ninja
    fflush(stdout);
    (void)!write(1, rc.output.data(), rc.output.size());
  }
  // The real Finish() maps signal deaths by SIGINT/SIGTERM/SIGHUP to ExitInterrupted.
  s->exit_status_ = (ExitStatus)(rc.told >= 0 ? rc.told : rc.status);
  if (!s->use_console_) s->buf_ = rc.output;
  s->fd_ = -2;  // Done()
  set->finished_.push(s);
}

SubprocessSet::WorkResult SubprocessSet::DoWork() {
  extern void nx_seam_enter();
  nx_seam_enter();
  RunResult& R = *g_cur.res;
  const RunConfig& cfg = *g_cur.cfg;
  if (++g_cur.waits > cfg.step_horizon) AbortInvocation(2);

  // what the other client of the jobserver pool does while ninja is on its way into ppoll()
  const bool js = JsOn();
  const bool watch = js && jobserver_fd_ >= 0;
  if (js) JsExternalMoves();
  const int avail = js ? JsAvail() : 0;

  Event w;
  w.kind = Event::kWait;
  w.tick = vfs::disk->now;
  w.op_index = vfs::op_count;
  for (Subprocess* s : running_) w.running.push_back(s->pid_);
  if (js) { w.avail = avail; w.watch = watch; w.held = JsNinjaHolds(); }
  R.events.push_back(w);

  // Environment edits that fire while a given command runs (scheduled before any completion).
  for (size_t i = 0; i < cfg.edits_during.size(); ++i) {
    if (g_cur.edit_done.size() <= i) g_cur.edit_done.resize(i + 1, false);
    if (g_cur.edit_done[i]) continue;
    const string& trig = get<0>(cfg.edits_during[i]);
    for (Subprocess* s : running_) {
      if (R.cmds[s->pid_].spec.id() == trig) {
        vfs::disk->Write(get<1>(cfg.edits_during[i]), get<2>(cfg.edits_during[i]));
        g_cur.edit_done[i] = true;
        Event e; e.kind = Event::kEdit; e.cmd = s->pid_; e.tick = vfs::disk->now;
        R.events.push_back(e);
        break;
      }
    }
  }

  size_t n = running_.size();
  // a readable pool ends ppoll() at once when ninja watches it
  bool token_alt = watch && avail > 0;
  if (token_alt && g_cur.last_token_wake && R.cmds.size() == g_cur.cmds_at_wake && avail == g_cur.avail_at_wake) {
    // ninja was told so a moment ago and neither took a token nor started anything: ppoll() keeps returning at once and
    // ninja spins until something else happens.  Commands do end: the next event is a completion (or an interrupt); with
    // nothing running the spinning never ends.
    R.js_spins++;
    token_alt = false;
    if (n == 0) AbortInvocation(2);
  }
  g_cur.last_token_wake = false;
  if (n == 0 && !token_alt) {
    // ppoll() on an empty set with no signal pending blocks forever.
    AbortInvocation(1);
  }

  // Alternatives, default first: each single command (oldest first), then larger subsets
  // (by size, lexicographic), then the interrupt.
  vector<vector<size_t>> alts;
  for (size_t i = 0; i < n; ++i) alts.push_back({i});
  if (cfg.subsets && n >= 2) {
    if ((int)n <= cfg.max_subset_running) {
      for (size_t size = 2; size <= n; ++size) {
        for (unsigned mask = 0; mask < (1u << n); ++mask) {
          if ((size_t)__builtin_popcount(mask) != size) continue;
          vector<size_t> v;
          for (size_t i = 0; i < n; ++i) if (mask & (1u << i)) v.push_back(i);
          alts.push_back(v);
        }
      }
    } else {
      vector<size_t> all;
      for (size_t i = 0; i < n; ++i) all.push_back(i);
      alts.push_back(all);
    }
  }
  // With a readable pool the default is "a token is available" (ppoll returns at once); the completions are then
  // commands that finish at that very instant.
  const int base = token_alt ? 1 : 0;
  int nalt = base + (int)alts.size() + (cfg.allow_interrupt ? 1 : 0);
  int c = g_cur.ch->Choose(nalt);
  if (c >= 0) {
    if (token_alt && c == 0) {
      // "only react to jobserver tokens if no other work was done"
      if (js) JsExternalMoves();   // ... and the token may be gone again before ninja tries to take it
      g_cur.last_token_wake = true;
      g_cur.cmds_at_wake = R.cmds.size();
      g_cur.avail_at_wake = JsAvail();
      return WorkResult::JobserverTokenAvailable;
    }
    c -= base;
  }
  if (c == -2) {
    // symbolic: the running command whose id is alphabetically last finishes alone (independent of start order)
    size_t best = 0;
    for (size_t i = 1; i < n; ++i)
      if (R.cmds[running_[i]->pid_].spec.id() > R.cmds[running_[best]->pid_].spec.id()) best = i;
    c = (int)best;
  } else if (c < 0) {
    c = (int)n - 1;   // symbolic: the most recently started command finishes alone
  }
  if (c >= (int)alts.size()) {
    interrupted_ = SIGINT;
    Record(Event::kInterrupt, -1);
    // A console command shares the terminal's foreground process group: Ctrl-C reaches it together with ninja, and the real
    // DoWork() reaps console processes (CheckConsoleProcessTerminated) *before* it looks at the interrupt.  Such a command is
    // then a finished one that nobody has asked for yet, not a running one -- and still an interrupted command.
    if (cfg.allow_interrupt) {
      for (size_t i = 0; i < running_.size(); ++i) {
        Subprocess* s = running_[i];
        if (!s->use_console_) continue;
        // 0: still alive when ninja looks, 1: gone without having written, 2: gone after writing part,
        // 3: it ended by itself, normally, in that very moment (a tool that handles the signal and exits with its work done)
        int died = g_cur.ch->Choose(4);
        if (died <= 0) continue;
        if (died == 3) {
          Complete(this, i);
          running_.erase(running_.begin() + i);
          --i;
          continue;
        }
        RunCmd& rc = R.cmds[s->pid_];
        rc.killed = true;
        const CmdSpec& sp = rc.spec;
        if (died == 2 && sp.valid) {
          for (const string& o : sp.outs)
            if (vfs::disk->Write(o, "PARTIAL from killed " + sp.id() + "\n")) rc.wrote = true;
          if (!sp.depfile.empty()) vfs::disk->Write(sp.depfile, sp.outs[0] + ": \n");
        }
        Record(Event::kKilled, s->pid_);
        s->exit_status_ = ExitInterrupted;
        s->fd_ = -2;
        finished_.push(s);
        running_.erase(running_.begin() + i);
        --i;
      }
    }
    return WorkResult::Interrupted;
  }
  // Completions are noticed in running_ order (as the real poll loop does).
  const vector<size_t>& pick = alts[c];
  for (size_t k = 0; k < pick.size(); ++k) Complete(this, pick[k]);
  for (size_t k = pick.size(); k-- > 0;) running_.erase(running_.begin() + pick[k]);
  if (js) JsExternalMoves();
  return WorkResult::SubprocFinished;
}

Subprocess* SubprocessSet::NextFinished() {
  if (finished_.empty()) return NULL;
  Subprocess* s = finished_.front();
  finished_.pop();
  return s;
}

void SubprocessSet::Clear() {
  if (!g_cur.res) { running_.clear(); return; }
  extern void nx_seam_enter();
  nx_seam_enter();
  // kill(-pid, signal) for every running command: each had either not yet touched its outputs,
  // or already (partially) written them and its depfile.
  {
    // completions ninja never asked for: to ninja they are commands it abandoned together with the running ones
    std::queue<Subprocess*> q = finished_;
    while (!q.empty()) { g_cur.res->cmds[q.front()->pid_].unreaped = true; q.pop(); }
  }
  if (interrupted_ == 0) {
    // Not a signal: the build is given up because of an error (or because a *command* died of the interrupt signal).
    // The real Clear() then sends "signal 0", i.e. nothing, and ~Subprocess waits for every command: they run to
    // completion, unobserved (ninja looks at no result any more and cleans up after them as after interrupted ones).
    for (Subprocess* s : running_) {
      FinishCmd(s->pid_);
      g_cur.res->cmds[s->pid_].unreaped = true;
      // (a console command writes to the terminal itself, up to its end, while ~Subprocess waits for it)
      const RunCmd& rc = g_cur.res->cmds[s->pid_];
      if (s->use_console_ && !rc.output.empty()) {
        fflush(stdout);
        (void)!write(1, rc.output.data(), rc.output.size());
      }
      delete s;
    }
    running_.clear();
    return;
  }
  for (Subprocess* s : running_) {
    RunCmd& rc = g_cur.res->cmds[s->pid_];
    rc.killed = true;
    const CmdSpec& sp = rc.spec;
    // what the victim had done when the signal reached it: nothing yet; (part of) its outputs and its depfile; or its
    // depfile only (a compiler writes the dependency file while it preprocesses, the object at the very end)
    int touched = g_cur.cfg->allow_interrupt ? g_cur.ch->Choose(sp.valid && !sp.depfile.empty() ? 3 : 2) : 0;
    if (touched == 1 && sp.valid) {
      for (const string& o : sp.outs)
        if (vfs::disk->Write(o, "PARTIAL from killed " + sp.id() + "\n")) rc.wrote = true;
      if (!sp.depfile.empty()) vfs::disk->Write(sp.depfile, sp.outs[0] + ": \n");
    } else if (touched == 2) {
      vfs::disk->Write(sp.depfile, sp.outs[0] + ": \n");
    }
    Record(Event::kKilled, s->pid_);
    delete s;
  }
  running_.clear();
}
