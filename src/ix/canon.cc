// C14: bounded-exhaustive check of CanonicalizePath against a component-stack reference.
// Usage: canon alpha=<hex bytes> maxlen=N shard=i nshards=n [replay=<hex path>]
#include <set>

#include "ixutil.h"
#include "util.h"

using namespace std;

// R-canon: ten-line reference (component stack), written from the property text / manual.
static string RefCanon(const string& p) {
  if (p.empty()) return p;
  bool abs = p[0] == '/';
  vector<string> st;
  size_t i = 0;
  while (i <= p.size()) {
    size_t j = p.find('/', i);
    if (j == string::npos) j = p.size();
    string c = p.substr(i, j - i);
    i = j + 1;
    if (c.empty() || c == ".") continue;
    if (c == ".." && !st.empty() && st.back() != "..") { st.pop_back(); continue; }
    st.push_back(c);
  }
  string r = abs ? "/" : "";
  for (size_t k = 0; k < st.size(); ++k) { if (k) r += '/'; r += st[k]; }
  if (r.empty()) r = ".";
  return r;
}

struct Result {
  uint64_t evaluations = 0, changed = 0, fixpoints = 0, dotdot_kept = 0, became_dot = 0;
  uint64_t violations = 0;
  string first_bad, first_why;
};

static const unsigned char kCanary = 0xA5;

// Runs the real routine on an exact-size heap buffer with canaries on both sides
// (not NUL-terminated), returns false with *why on any disagreement.
static bool CheckOne(const string& s, Result* r, string* why) {
  size_t n = s.size();
  unsigned char* raw = (unsigned char*)malloc(n + 16);
  memset(raw, kCanary, n + 16);
  char* buf = (char*)raw + 8;
  memcpy(buf, s.data(), n);
  size_t len = n;
  uint64_t bits = 0xdeadbeef;
  CanonicalizePath(buf, &len, &bits);
  bool ok = true;
  for (int k = 0; k < 8; ++k)
    if (raw[k] != kCanary || raw[8 + n + k] != kCanary) { *why = "wrote outside the buffer"; ok = false; }
  if (ok && len > n) { *why = "result longer than input"; ok = false; }
  string got = ok ? string(buf, len) : string();
  free(raw);
  if (!ok) return false;
  string ref = RefCanon(s);
  if (got != ref) { *why = "got '" + got + "' expected '" + ref + "'"; return false; }
  if (n && bits != 0) { *why = "slash_bits != 0 on POSIX"; return false; }
  if (n && (s[0] == '/') != (got[0] == '/')) { *why = "leading slash not preserved"; return false; }
  // Idempotence, through the std::string overload (second entry point).
  string again = got;
  uint64_t b2;
  CanonicalizePath(&again, &b2);
  if (again != got) { *why = "not idempotent: '" + got + "' -> '" + again + "'"; return false; }
  if (got != s) r->changed++; else r->fixpoints++;
  if (got.compare(0, 2, "..") == 0 || got.find("/..") != string::npos) r->dotdot_kept++;
  if (got == "." && s != ".") r->became_dot++;
  return true;
}

int main(int argc, char** argv) {
  vx::Args a(argc, argv);
  if (a.Has("replay")) {
    string s = vx::Unhex(a.Get("replay"));
    Result r; string why;
    bool ok = CheckOne(s, &r, &why);
    printf("input=%s ref=%s %s\n", vx::JsonEscape(s).c_str(), vx::JsonEscape(RefCanon(s)).c_str(),
           ok ? "OK" : ("VIOLATION: " + why).c_str());
    return ok ? 0 : 1;
  }
  string alpha = vx::Unhex(a.Get("alpha", "61622e2f"));
  int maxlen = (int)a.GetInt("maxlen", 8);
  int minlen = (int)a.GetInt("minlen", 0);
  long shard = a.GetInt("shard", 0), nshards = a.GetInt("nshards", 1);
  Result r;
  vector<string> samples;
  for (int len = minlen; len <= maxlen; ++len) {
    vx::Odometer od(len, (int)alpha.size());
    uint64_t idx = 0;
    string s(len, 'x');
    do {
      if ((long)(idx++ % nshards) != shard) continue;
      for (int k = 0; k < len; ++k) s[k] = alpha[od.d[k]];
      r.evaluations++;
      string why;
      if (!CheckOne(s, &r, &why)) {
        if (!r.violations++) { r.first_bad = s; r.first_why = why; }
      } else if (samples.size() < 4 && len == maxlen && (idx % 9973) == 1) {
        samples.push_back(s + " -> " + RefCanon(s));
      }
    } while (od.Next());
  }
  printf("{\"evaluations\":%llu,\"changed\":%llu,\"fixpoints\":%llu,\"dotdot_kept\":%llu,"
         "\"became_dot\":%llu,\"violations\":%llu,\"first_bad\":\"%s\",\"first_why\":\"%s\",\"samples\":[",
         (unsigned long long)r.evaluations, (unsigned long long)r.changed,
         (unsigned long long)r.fixpoints, (unsigned long long)r.dotdot_kept,
         (unsigned long long)r.became_dot, (unsigned long long)r.violations,
         vx::Hex(r.first_bad).c_str(), vx::JsonEscape(r.first_why).c_str());
  for (size_t i = 0; i < samples.size(); ++i)
    printf("%s\"%s\"", i ? "," : "", vx::JsonEscape(samples[i]).c_str());
  printf("]}\n");
  return 0;
}
