// C15: depfile round trip.  Names are encoded the way GCC/Clang write Makefile-style depfiles
// (reference encoder below, after libcpp/mkdeps.c and clang's DependencyFile.cpp), laid out in
// several ways, parsed by the real DepfileParser, and must come back as exactly the same names.
// usage: depfile maxlen=N pairlen=M shard=i nshards=n | replay=<hex depfile>
#include <algorithm>

#include "depfile_parser.h"
#include "ixutil.h"

using namespace std;

// '*' and ';' stand for the printable characters the compilers write unescaped but the scanner's plain-text
// class lacks (* ; < > ^ ` |), see the known finding F32.
static string kAlpha = string("a \\#$:%~*;") + "\xC3";   // alpha=<hex> replaces it (second pass: the other name characters)

// R-depfile: the compilers' quoting.  `escape_colon`: some producers write "\:" for a colon.
static string Encode(const string& n, bool escape_colon) {
  string o;
  for (size_t i = 0; i < n.size(); ++i) {
    char c = n[i];
    if (c == ' ') {
      for (size_t j = i; j > 0 && n[j - 1] == '\\'; --j) o += '\\';  // double the preceding backslashes
      o += "\\ ";
    } else if (c == '#') {
      o += "\\#";
    } else if (c == '$') {
      o += "$$";
    } else if (c == ':' && escape_colon) {
      o += "\\:";
    } else {
      o += c;
    }
  }
  return o;
}

// Names the dialect can represent unambiguously.
static bool Representable(const string& n, bool as_target, bool escape_colon = false) {
  if (n.empty()) return false;
  if (n.back() == ':') return false;                 // "x:" is "x" plus the rule separator
  size_t bs = 0;
  for (size_t i = n.size(); i > 0 && n[i - 1] == '\\'; --i) bs++;
  if (bs % 2) return false;                          // an odd run of trailing backslashes merges with the separator;
                                                     // an even one is written as it is and ends the name (2N stay 2N)
  for (size_t i = 0; i + 1 < n.size(); ++i) {
    // backslashes before '#' are representable: the compilers add one, the scanner takes one off and keeps the rest
    // (N backslashes + '#' are written as N+1 + '#'); before ':' a backslash reads as an escape unless the producer escapes
    // colons ("a\\:b" for the name "a\:b": the last backslash belongs to the colon, the others are literal)
    if (n[i] == '\\' && n[i + 1] == ':' && !escape_colon) return false;
    if (n[i] == ':' && n[i + 1] == ' ') return false;                          // reads as end of target
    if (n[i] == '$' && n[i + 1] == '$') {}                                     // fine: "$$$$"
  }
  (void)as_target;
  return true;
}

struct Res { uint64_t files = 0, names = 0, violations = 0, rejected_ok = 0, known_bsdollar = 0, known_sep = 0;
             string first_bad, first_why, kb_bad, kb_why, ks_bad, ks_why; };

static bool Same(const vector<StringPiece>& got, const vector<string>& want) {
  if (got.size() != want.size()) return false;
  for (size_t i = 0; i < got.size(); ++i) if (got[i].AsString() != want[i]) return false;
  return true;
}

static string Show(const vector<StringPiece>& v) {
  string s = "[";
  for (auto& p : v) s += "'" + vx::JsonEscape(p.AsString()) + "' ";
  return s + "]";
}

static bool CheckFile(const string& text, const vector<string>& outs, const vector<string>& ins, Res* r, string* why) {
  r->files++;
  string content = text;  // Parse needs a NUL-terminated mutable buffer
  DepfileParser p;
  string err;
  if (!p.Parse(&content, &err)) { *why = "rejected: " + err; return false; }
  vector<string> uniq;
  for (auto& i : ins) if (find(uniq.begin(), uniq.end(), i) == uniq.end()) uniq.push_back(i);
  if (!Same(p.outs_, outs)) { *why = "targets read back as " + Show(p.outs_); return false; }
  if (!Same(p.ins_, uniq)) { *why = "dependencies read back as " + Show(p.ins_); return false; }
  return true;
}

static vector<string> Layouts(const vector<string>& enc_outs, const vector<string>& enc_ins) {
  vector<string> v;
  string t;
  for (auto& o : enc_outs) t += o + " ";
  t.pop_back();
  string one = t + ":";
  for (auto& i : enc_ins) one += " " + i;
  v.push_back(one + "\n");                                   // one line
  string cont = t + ": \\\n";
  for (size_t k = 0; k < enc_ins.size(); ++k) cont += " " + enc_ins[k] + (k + 1 < enc_ins.size() ? " \\\n" : "\n");
  if (enc_ins.empty()) cont = t + ":\n";
  v.push_back(cont);                                         // continuation per name
  string two;
  for (auto& i : enc_ins) two += t + ": " + i + "\n";
  if (enc_ins.empty()) two = t + ":\n";
  v.push_back(two);                                          // one rule per dependency
  v.push_back(one + "  \n\n");                               // trailing whitespace, empty line
  string crlf = one + "\r\n";
  v.push_back(crlf);                                         // CRLF
  string dup = one;
  if (!enc_ins.empty()) dup += " " + enc_ins[0];
  v.push_back(dup + "\n");                                   // duplicated dependency
  string contcrlf = t + ": \\\r\n";
  for (size_t k = 0; k < enc_ins.size(); ++k) contcrlf += " " + enc_ins[k] + (k + 1 < enc_ins.size() ? " \\\r\n" : "\r\n");
  if (!enc_ins.empty()) v.push_back(contcrlf);               // CRLF continuations
  return v;
}

int main(int argc, char** argv) {
  vx::Args a(argc, argv);
  if (a.Has("replay")) {
    string text = vx::Unhex(a.Get("replay"));
    string content = text;
    DepfileParser p;
    string err;
    bool ok = p.Parse(&content, &err);
    printf("depfile %s\n -> %s outs=%s ins=%s %s\n", vx::JsonEscape(text).c_str(), ok ? "accepted" : "rejected",
           Show(p.outs_).c_str(), Show(p.ins_).c_str(), err.c_str());
    vector<string> outs, ins;
    size_t i = 0;
    string wo = vx::Unhex(a.Get("outs")), wi = vx::Unhex(a.Get("ins"));
    auto split = [](const string& s) { vector<string> v; size_t i = 0; while (i < s.size()) { size_t j = s.find('\0', i); if (j == string::npos) j = s.size(); v.push_back(s.substr(i, j - i)); i = j + 1; } return v; };
    (void)i;
    outs = split(wo); ins = split(wi);
    Res r; string why;
    if (a.Has("expect_reject")) return ok ? 1 : 0;
    bool good = CheckFile(text, outs, ins, &r, &why);
    if (!good) printf("VIOLATION: %s\n", why.c_str());
    return good ? 0 : 1;
  }
  if (a.Has("structures")) {
    // Rule structures: every depfile of 1..R rules over the names a b c d, one target and 0..2 dependencies per rule
    // (sharded).  Reference: a rule whose target was named as a dependency earlier and that has dependencies of its own
    // makes the file invalid; otherwise outs = the targets that were not dependencies before, ins = the dependencies in
    // order of first appearance, each once.
    int maxrules = (int)a.GetInt("structures", 3);
    long shard = a.GetInt("shard", 0), nshards = a.GetInt("nshards", 1);
    const vector<string> N = {"a", "b", "c", "d"};
    struct Rule { int t; vector<int> d; };
    vector<Rule> rules;
    for (int t = 0; t < 4; ++t) {
      rules.push_back({t, {}});
      for (int x = 0; x < 4; ++x) {
        rules.push_back({t, {x}});
        for (int y = 0; y < 4; ++y) if (y != x) rules.push_back({t, {x, y}});
      }
    }
    Res r;
    uint64_t idx = 0, accepted = 0, rejected = 0;
    string first_bad, first_why;
    for (int nr = 1; nr <= maxrules; ++nr) {
      vx::Odometer od(nr, (int)rules.size());
      do {
        if ((long)(idx++ % nshards) != shard) continue;
        string text;
        vector<string> outs, ins;
        bool invalid = false;
        for (int k = 0; k < nr; ++k) {
          const Rule& ru = rules[od.d[k]];
          text += N[ru.t] + ":";
          for (int d : ru.d) text += " " + N[d];
          text += "\n";
          bool t_is_dep = find(ins.begin(), ins.end(), N[ru.t]) != ins.end();
          if (t_is_dep && !ru.d.empty()) invalid = true;
          if (invalid) continue;
          if (!t_is_dep && find(outs.begin(), outs.end(), N[ru.t]) == outs.end()) outs.push_back(N[ru.t]);
          for (int d : ru.d) if (find(ins.begin(), ins.end(), N[d]) == ins.end()) ins.push_back(N[d]);
        }
        r.names++;
        string why;
        if (invalid) {
          string content = text, err;
          DepfileParser p;
          r.files++;
          if (p.Parse(&content, &err) || err.empty()) {
            if (!r.violations++) { first_bad = text; first_why = "a dependency reappears as a target that has dependencies of its own, and the depfile was accepted"; }
          } else rejected++;
        } else {
          if (!CheckFile(text, outs, ins, &r, &why)) {
            if (!r.violations++) {
              first_bad = text;
              string o, i;
              for (auto& x : outs) o += x + string(1, '\0');
              for (auto& x : ins) i += x + string(1, '\0');
              first_why = why + " |outs=" + vx::Hex(o) + " |ins=" + vx::Hex(i);
            }
          } else accepted++;
        }
      } while (od.Next());
    }
    // ... and every text without a ':' that names something: all strings up to 6 tokens over name, blank, tab, CR, LF,
    // backslash-newline, CRLF (how a file can end matters: the last name may be closed by the end of the input)
    if (shard == 0) {
      const vector<string> tok = {"a", " ", "\t", "\r", "\n", "\\\n", "\r\n", "b"};
      for (int len = 1; len <= 6; ++len) {
        vx::Odometer od(len, (int)tok.size());
        do {
          string text;
          bool named = false;
          for (int k = 0; k < len; ++k) { text += tok[od.d[k]]; if (od.d[k] == 0 || od.d[k] == 7) named = true; }
          if (!named) continue;
          string content = text, err;
          DepfileParser p;
          r.files++;
          r.names++;
          if (p.Parse(&content, &err) || err.empty()) {
            if (!r.violations++) { first_bad = text; first_why = "depfile without ':' was accepted"; }
          } else rejected++;
        } while (od.Next());
      }
    }
    printf("{\"cases\":%llu,\"files\":%llu,\"accepted_ok\":%llu,\"rejected_ok\":%llu,\"violations\":%llu,\"first_bad\":\"%s\",\"first_why\":\"%s\"}\n",
           (unsigned long long)r.names, (unsigned long long)r.files, (unsigned long long)accepted, (unsigned long long)rejected,
           (unsigned long long)r.violations, vx::Hex(first_bad).c_str(), vx::JsonEscape(first_why).c_str());
    return 0;
  }
  if (a.Has("alpha")) kAlpha = vx::Unhex(a.Get("alpha"));
  int maxlen = (int)a.GetInt("maxlen", 3), pairlen = (int)a.GetInt("pairlen", 2);
  long shard = a.GetInt("shard", 0), nshards = a.GetInt("nshards", 1);
  vector<string> names;
  for (int len = 1; len <= maxlen; ++len) {
    vx::Odometer od(len, (int)kAlpha.size());
    do {
      string s(len, 'x');
      for (int k = 0; k < len; ++k) s[k] = kAlpha[od.d[k]];
      if (Representable(s, false) || Representable(s, false, true)) names.push_back(s);
    } while (od.Next());
  }
  Res r;
  vector<string> samples;
  uint64_t idx = 0;
  auto fail = [&](const string& text, const string& why, const vector<string>& outs, const vector<string>& ins) {
    // classification fact for the known finding: some name contains a backslash directly before '$'
    bool bsdollar = false;
    for (auto* l : {&outs, &ins}) for (auto& n : *l) if (n.find("\\$") != string::npos) bsdollar = true;
    if (bsdollar) {
      if (!r.known_bsdollar++) { r.kb_bad = text; r.kb_why = why; }
      return;
    }
    // ... or: some name contains a printable character that the scanner does not count as part of a name
    bool sepchar = false;
    for (auto* l : {&outs, &ins}) for (auto& n : *l) if (n.find_first_of("*;<>^`|") != string::npos) sepchar = true;
    if (sepchar) {
      if (!r.known_sep++) { r.ks_bad = text; r.ks_why = why; }
      return;
    }
    if (!r.violations++) {
      r.first_bad = text;
      r.first_why = why;
      string o, i;
      for (auto& x : outs) o += x + string(1, '\0');
      for (auto& x : ins) i += x + string(1, '\0');
      r.first_why += " |outs=" + vx::Hex(o) + " |ins=" + vx::Hex(i);
    }
  };
  auto run_case = [&](const vector<string>& outs, const vector<string>& ins) {
    if ((long)(idx++ % nshards) != shard) return;
    for (int ec = 0; ec < 2; ++ec) {
      vector<string> eo, ei;
      bool any_colon = false;
      for (auto& o : outs) { eo.push_back(Encode(o, ec)); if (o.find(':') != string::npos) any_colon = true; }
      for (auto& i : ins) { ei.push_back(Encode(i, ec)); if (i.find(':') != string::npos) any_colon = true; }
      if (ec && !any_colon) continue;
      bool representable = true;
      for (auto* l : {&outs, &ins}) for (auto& n : *l) if (!Representable(n, false, ec != 0)) representable = false;
      if (!representable) continue;
      for (auto& text : Layouts(eo, ei)) {
        string why;
        if (!CheckFile(text, outs, ins, &r, &why)) fail(text, why, outs, ins);
      }
    }
    r.names++;
    if (samples.size() < 4 && (idx % 977) == 5) samples.push_back(Layouts({Encode(outs[0], false)}, {ins.empty() ? string() : Encode(ins[0], false)})[0]);
  };
  for (auto& n : names) {
    run_case({"T.o"}, {n});           // every name as the single dependency
    run_case({n}, {"d.h"});           // every name as the target
    run_case({"T.o"}, {"x.h", n, "y.h"});
    run_case({"T.o", n}, {"x.h"});    // as a second target
  }
  vector<string> small;
  for (auto& n : names) if ((int)n.size() <= pairlen) small.push_back(n);
  for (auto& x : small)
    for (auto& y : small) {
      if (x == y) continue;
      run_case({"T.o"}, {x, y});
      run_case({x}, {y});
    }
  // a target whose own name ends in a colon (or two): GCC and Clang write the name as it is, followed by the rule's colon
  // ("x:: d.h"); exactly one colon is the separator
  for (auto& n : small) {
    if ((long)(idx++ % nshards) != shard) continue;
    if (n.find_first_of("*;<>^`|") != string::npos || n.find("\\$") != string::npos) continue;   // F32 / F16 names
    for (const char* tail : {":", "::"}) {
      string name = n + tail;
      bool inner_sep = false;
      for (size_t i = 0; i + 1 < name.size(); ++i) if (name[i] == ':' && name[i + 1] == ' ') inner_sep = true;
      if (inner_sep || !Representable(n, false) || n.back() == '\\') continue;   // ("\\:" reads as an escaped colon)
      for (const char* deps : {" d.h\n", " d.h \\\n e.h\n"}) {
        string text = Encode(name, false) + ":" + deps;
        vector<string> ins = {"d.h"};
        if (string(deps).find("e.h") != string::npos) ins.push_back("e.h");
        string why;
        if (!CheckFile(text, {name}, ins, &r, &why)) fail(text, why, {name}, ins);
      }
    }
  }
  // rejection side: no ':' at all; a dependency re-used as a target with dependencies
  for (auto& n : small) {
    if ((long)(idx++ % nshards) != shard) continue;
    if (n.find(':') != string::npos) continue;
    if (n.find_first_of("*;<>^`|") != string::npos) continue;   // such names do not survive the scanner (F32)
    {
      string text = "T.o " + Encode(n, false) + "\n";
      string content = text, err;
      DepfileParser p;
      r.files++;
      if (p.Parse(&content, &err) || err.empty()) fail(text, "depfile without ':' was accepted", {}, {});
      else r.rejected_ok++;
    }
    {
      string text = "T.o: " + Encode(n, false) + "\n" + Encode(n, false) + ": other.h\n";
      string content = text, err;
      DepfileParser p;
      r.files++;
      if (p.Parse(&content, &err) || err.empty()) fail(text, "a dependency re-used as a target with dependencies was accepted", {}, {});
      else r.rejected_ok++;
    }
    // the same with an already known dependency listed before the new one, in several layouts
    for (const char* sep : {" ", " \\\n ", " \\\r\n "}) {
      string e = Encode(n, false);
      string text = "T.o: " + e + sep + "x.h\n" + e + ":" + sep + "x.h" + sep + "other.h\n";
      string content = text, err;
      DepfileParser p;
      r.files++;
      if (p.Parse(&content, &err) || err.empty()) fail(text, "a dependency re-used as a target with dependencies was accepted", {}, {});
      else r.rejected_ok++;
    }
    // tolerated: the dependency reappears as a target WITHOUT dependencies (gcc -MP)
    {
      string e = Encode(n, false);
      string text = "T.o: " + e + " x.h\n" + e + ":\nx.h:\n";
      string why;
      if (!CheckFile(text, {"T.o"}, {n, "x.h"}, &r, &why)) fail(text, "-MP style phony rules: " + why, {"T.o"}, {n, "x.h"});
    }
  }
  printf("{\"cases\":%llu,\"files\":%llu,\"representable_names\":%llu,\"rejected_ok\":%llu,\"violations\":%llu,"
         "\"first_bad\":\"%s\",\"first_why\":\"%s\",\"backslash_dollar_failures\":%llu,\"bsd_bad\":\"%s\",\"bsd_why\":\"%s\","
         "\"separator_character_failures\":%llu,\"sep_bad\":\"%s\",\"sep_why\":\"%s\",\"samples\":[",
         (unsigned long long)r.names, (unsigned long long)r.files, (unsigned long long)names.size(),
         (unsigned long long)r.rejected_ok, (unsigned long long)r.violations, vx::Hex(r.first_bad).c_str(),
         vx::JsonEscape(r.first_why).c_str(), (unsigned long long)r.known_bsdollar, vx::Hex(r.kb_bad).c_str(),
         vx::JsonEscape(r.kb_why).c_str(), (unsigned long long)r.known_sep, vx::Hex(r.ks_bad).c_str(),
         vx::JsonEscape(r.ks_why).c_str());
  for (size_t i = 0; i < samples.size(); ++i) printf("%s\"%s\"", i ? "," : "", vx::JsonEscape(samples[i]).c_str());
  printf("]}\n");
  return 0;
}
