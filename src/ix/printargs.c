/* Prints every argument as one line of hex.  Used by the C16 check behind a real /bin/sh. */
#include <stdio.h>
int main(int argc, char** argv) {
  for (int i = 1; i < argc; ++i) {
    for (const unsigned char* p = (const unsigned char*)argv[i]; *p; ++p) printf("%02x", *p);
    printf("\n");
  }
  return 0;
}
