// C13: bounded-exhaustive enumeration of short inputs over per-format token alphabets, run through
// the real parsers / loaders in an ASan+UBSan build.  Every input runs in a forked worker that
// publishes the index it is working on; when the worker dies (sanitizer report, abort, stack
// overflow, watchdog) that index identifies the offending input, which is reported, and a new
// worker continues behind it.
// usage: fuzzall format=<name> maxlen=N shard=i nshards=n | format=<name> replay=<hex input>
#include <fcntl.h>
#include <setjmp.h>
#include <signal.h>
#include <sys/mman.h>
#include <sys/resource.h>
#include <sys/wait.h>
#include <unistd.h>
#include <dlfcn.h>

#include <functional>

#include "build.h"
#include "build_log.h"
#include "clparser.h"
#include "depfile_parser.h"
#include "deps_log.h"
#include "disk_interface.h"
#include "dyndep.h"
#include "dyndep_parser.h"
#include "elide_middle.h"
#include "graph.h"
#include "ixutil.h"
#include "jobserver.h"
#include "manifest_parser.h"
#include "simfs.h"
#include "state.h"
#include "status_printer.h"
#include "util.h"

// ninja's own front end, for the code that digests a loaded log on the way to a build (NinjaMain)
#define main ninja_cc_main
#include "ninja.cc"
#undef main

using namespace std;

// ---- exit() interposition: Fatal() is a legitimate way to report an error --------------------
static jmp_buf g_jmp;
static bool g_in_test = false;
extern "C" __attribute__((noreturn)) void exit(int code) noexcept {
  if (g_in_test) longjmp(g_jmp, 1);
  static auto real = (void (*)(int))dlsym(RTLD_NEXT, "exit");
  real(code);
  _exit(code);
}

struct MemReader : public FileReader {
  map<string, string> files;
  Status ReadFile(const string& path, string* contents, string* err) override {
    // like a file system: "./f", "sub/../f" and "f" are the same file
    vector<string> comps;
    size_t i = 0;
    while (i <= path.size()) {
      size_t j = path.find('/', i);
      if (j == string::npos) j = path.size();
      string c = path.substr(i, j - i);
      if (c == "..") { if (!comps.empty()) comps.pop_back(); }
      else if (!c.empty() && c != ".") comps.push_back(c);
      i = j + 1;
    }
    string norm;
    for (auto& c : comps) norm += (norm.empty() ? "" : "/") + c;
    auto it = files.find(norm);
    if (it == files.end()) { *err = "No such file or directory"; return NotFound; }
    *contents = it->second;
    return Okay;
  }
};

struct MemDisk : public DiskInterface {
  map<string, string> files;
  // (headers are newer than everything else: a statement whose discovered dependency changed)
  TimeStamp Stat(const string& path, string* err) const override {
    if (!files.count(path)) return 0;
    return path.size() > 2 && path.compare(path.size() - 2, 2, ".h") == 0 ? 2 : 1;
  }
  bool MakeDir(const string&) override { return true; }
  bool WriteFile(const string& path, const string& contents, bool) override { files[path] = contents; return true; }
  Status ReadFile(const string& path, string* contents, string* err) override {
    auto it = files.find(path);
    if (it == files.end()) { *err = "No such file or directory"; return NotFound; }
    *contents = it->second;
    return Okay;
  }
  int RemoveFile(const string& path) override { return files.erase(path) ? 0 : 1; }
};

struct Counts { uint64_t accepted = 0, rejected = 0; };
static Counts* g_counts;

// ---- the formats ------------------------------------------------------------------------------------
static void RunManifest(const string& in) {
  State state;
  MemReader r;
  r.files["build.ninja"] = in;
  r.files["f"] = "rule q\n  command = c\nx = inner\n";
  r.files["g"] = "include build.ninja\n";        // includes the top-level file back
  r.files["h"] = "subninja ./sub/../h\n";        // includes itself under another spelling
  ManifestParser p(&state, &r);
  string err;
  bool ok = p.Load("build.ninja", &err);
  if (ok) {
    // touch what a build would evaluate
    for (Edge* e : state.edges_) {
      if (!e->is_phony()) { e->EvaluateCommand(true); e->GetBinding("description"); e->GetUnescapedDepfile(); }
    }
    g_counts->accepted++;
  } else {
    g_counts->rejected++;
  }
}

// rule variables referring to each other: the text is the value part of three bindings of one rule, separated by '|'
// (command | description | depfile); every binding is evaluated the way a build and the tools do.  A reference cycle
// is reported through Fatal("cycle in rule variables"); everything else expands.
static void RunRuleVars(const string& in) {
  string v[3];
  int k = 0;
  for (char c : in) { if (c == '|') { if (++k > 2) return; } else v[k] += c; }
  if (v[0].empty()) return;   // a rule needs a command
  State state;
  MemReader r;
  r.files["build.ninja"] = "rule r\n  command = " + v[0] + "\n" + (v[1].empty() ? "" : "  description = " + v[1] + "\n") +
                           (v[2].empty() ? "" : "  depfile = " + v[2] + "\n") + "build o: r i\n  pool = console\n";
  ManifestParser p(&state, &r);
  string err;
  if (!p.Load("build.ninja", &err)) { g_counts->rejected++; return; }
  for (Edge* e : state.edges_) {
    if (e->is_phony()) continue;
    e->GetBinding("description");
    e->EvaluateCommand(true);
    e->GetUnescapedDepfile();
    e->GetBinding("command");
  }
  g_counts->accepted++;
}

static void RunDepfile(const string& in) {
  string content = in;
  DepfileParser p;
  string err;
  if (p.Parse(&content, &err)) g_counts->accepted++; else g_counts->rejected++;
}

// a depfile as the dependency scan meets it: the statement's depfile on disk, loaded by ImplicitDepLoader::LoadDepFile
// (plain depfile mode) on the way to deciding what is dirty
static void RunDepfileLoad(const string& in) {
  State state;
  MemReader r;
  r.files["build.ninja"] = "rule cc\n  command = cc\n  depfile = $out.d\nbuild a: cc a.c\nbuild b: cc a\n";
  ManifestParser p(&state, &r);
  string err;
  if (!p.Load("build.ninja", &err)) return;
  MemDisk disk;
  disk.files["a.c"] = "";
  disk.files["a"] = "";
  disk.files["a.d"] = in;
  disk.files["x.h"] = "";
  DependencyScan scan(&state, nullptr, nullptr, &disk, nullptr, nullptr);
  if (scan.RecomputeDirty(state.LookupNode("b"), nullptr, &err)) {
    g_counts->accepted++;
    // what a build does next: the plan walks every input of every statement it wants
    Plan plan;
    string perr;
    plan.AddTarget(state.LookupNode("b"), &perr);
    for (Edge* e : state.edges_) for (Node* n : e->inputs_) if (n->path().empty()) abort();
  } else g_counts->rejected++;
}

static void RunDyndep(const string& in) {
  State state;
  MemReader r;
  // two statements bound to the same dyndep file (the loader walks the file's out-edges while it
  // splices new inputs in), one statement without a binding
  r.files["build.ninja"] = "rule r\n  command = c\nbuild out: r in || dd\n  dyndep = dd\nbuild out2x: r in || dd\n  dyndep = dd\n"
                           "build out3: r in\n";
  ManifestParser mp(&state, &r);
  string err;
  if (!mp.Load("build.ninja", &err)) abort();
  {
    DyndepFile ddf;
    DyndepParser p(&state, &r, &ddf);
    if (p.ParseTest(in, &err)) g_counts->accepted++; else g_counts->rejected++;
  }
  // ... and through the loader, which applies the parsed information to the graph
  MemDisk md;
  md.files["dd"] = in;
  DyndepLoader loader(&state, &md);
  DyndepFile ddf2;
  err.clear();
  loader.LoadDyndeps(state.GetNode("dd", 0), &ddf2, &err);
}

static vfs::Disk g_disk;
static void RunBuildLog(const string& in) {
  g_disk.files.clear();
  g_disk.Write(".ninja_log", in);
  vfs::disk = &g_disk;
  vfs::active = true;
  BuildLog log;
  string err;
  LoadStatus st = log.Load(".ninja_log", &err);
  for (auto& kv : log.entries()) (void)kv.second->command_hash;
  {
    // what a build does next with the entries: the previous elapsed time of every statement whose output is on record
    BuildConfig config;
    NinjaMain nm("ninja", config);
    MemReader r;
    r.files["build.ninja"] = "rule r\n  command = c\nbuild a: r\nbuild 1 7: r\n";
    ManifestParser p(&nm.state_, &r);
    string e2;
    if (p.Load("build.ninja", &e2) && nm.build_log_.Load(".ninja_log", &e2) != LOAD_ERROR) nm.ParsePreviousElapsedTimes();
  }
  vfs::active = false;
  if (st == LOAD_SUCCESS) g_counts->accepted++; else g_counts->rejected++;
}

// a dyndep file as the tools meet it: `-t query`, `-t graph` and `-t clean` load the dyndep files of what they walk and go
// on after an error, which they report themselves (text of the file ends up in their messages)
static void RunDyndepTools(const string& in) {
  g_disk.files.clear();
  g_disk.Write("build.ninja", "rule r\n  command = c\nbuild out: r in || dd\n  dyndep = dd\nbuild top: r out\n");
  g_disk.Write("dd", in);
  g_disk.Write("in", "");
  vfs::disk = &g_disk;
  vfs::active = true;
  {
    BuildConfig config;
    config.dry_run = true;
    NinjaMain nm("ninja", config);
    ManifestParser p(&nm.state_, &nm.disk_interface_);
    string err;
    if (p.Load("build.ninja", &err)) {
      Options o = {};
      char t0[] = "top", t1[] = "out";
      char* av[] = {t0, t1, nullptr};
      int rc = nm.ToolQuery(&o, 2, av);
      rc |= nm.ToolGraph(&o, 2, av);
      Cleaner cleaner(&nm.state_, config, &nm.disk_interface_);
      rc |= cleaner.CleanAll();
      if (rc == 0) g_counts->accepted++; else g_counts->rejected++;
    }
  }
  vfs::active = false;
}

static void RunDepsLog(const string& in) {
  g_disk.files.clear();
  static const char hdr[] = "# ninjadeps\n\x04\x00\x00\x00";
  g_disk.Write(".ninja_deps", string(hdr, 16) + in);
  vfs::disk = &g_disk;
  vfs::active = true;
  State state;
  DepsLog log;
  string err;
  LoadStatus st = log.Load(".ninja_deps", &state, &err);
  for (Node* n : log.nodes()) if (n) (void)log.GetDeps(n);
  // what the next session does with whatever was accepted: recompact it, load the result again
  if (st == LOAD_SUCCESS) {
    string err2;
    log.Recompact(".ninja_deps", &err2);
    State state2;
    DepsLog log2;
    log2.Load(".ninja_deps", &state2, &err2);
    for (Node* n : log2.nodes()) if (n) (void)log2.GetDeps(n);
  }
  vfs::active = false;
  if (st == LOAD_SUCCESS && err.empty()) g_counts->accepted++; else g_counts->rejected++;
}

static void RunShowIncludes(const string& in) {
  for (const char* prefix : {"", "Note: "}) {
    CLParser p;
    string out, err;
    if (p.Parse(in, prefix, &out, &err)) g_counts->accepted++; else g_counts->rejected++;
  }
}

// A NUL-terminated copy in a heap block of exactly the needed size: reading one byte past the
// terminator is visible to ASan (std::string's inline buffer would hide it).
struct ExactCStr {
  char* p;
  explicit ExactCStr(const string& s) : p((char*)malloc(s.size() + 1)) { memcpy(p, s.data(), s.size()); p[s.size()] = 0; }
  ~ExactCStr() { free(p); }
};

static void RunMakeflags(const string& in0) {
  ExactCStr in(in0);
  Jobserver::Config c1, c2;
  string err;
  bool a = Jobserver::ParseMakeFlagsValue(in.p, &c1, &err);
  bool b = Jobserver::ParseNativeMakeFlagsValue(in.p, &c2, &err);
  if (a || b) g_counts->accepted++; else g_counts->rejected++;
}

static void RunNinjaStatus(const string& in) {
  BuildConfig config;
  StatusPrinter sp(config);
  ExactCStr fmt(in);
  string s = sp.FormatProgressStatus(fmt.p, 1234);
  (void)s;
  g_counts->accepted++;
}

static void RunStatusOpt(const string& in) {
  BuildConfig config;
  ExactCStr fmt(in);
  config.progress_status_format = fmt.p;
  StatusPrinter sp(config);  // Fatal() on an invalid format
  for (const char* v : {"started", "finished", "total", "running", "remaining", "percent", "rate", "elapsed"})
    (void)v;
  g_counts->accepted++;
}

static void RunElide(const string& in) {
  for (size_t w = 0; w <= 8; ++w) {
    string s = in;
    ElideMiddleInPlace(s, w);
  }
  g_counts->accepted++;
}

static void RunCanonPath(const string& in) {
  // heap buffer of the exact size: one byte of overrun is visible to ASan
  char* b = (char*)malloc(in.size() ? in.size() : 1);
  memcpy(b, in.data(), in.size());
  size_t len = in.size();
  uint64_t bits;
  CanonicalizePath(b, &len, &bits);
  free(b);
  g_counts->accepted++;
}

// structural stress cases that short strings cannot express
static vector<pair<string, function<void()>>> StressCases() {
  vector<pair<string, function<void()>>> v;
  auto manifest_files = [](map<string, string> files) {
    return [files]() {
      State state;
      MemReader r;
      r.files = files;
      ManifestParser p(&state, &r);
      string err;
      p.Load("build.ninja", &err);
    };
  };
  v.push_back({"manifest including itself", manifest_files({{"build.ninja", "include build.ninja\n"}})});
  v.push_back({"manifest subninja-ing itself", manifest_files({{"build.ninja", "subninja build.ninja\n"}})});
  v.push_back({"include cycle through one intermediate", manifest_files({{"build.ninja", "include a.ninja\n"}, {"a.ninja", "include build.ninja\n"}})});
  v.push_back({"subninja cycle through one intermediate", manifest_files({{"build.ninja", "subninja a.ninja\n"}, {"a.ninja", "subninja ./build.ninja\n"}})});
  {
    map<string, string> files;
    for (int i = 0; i < 1000; ++i) files[i ? "n" + to_string(i) : "build.ninja"] = "include n" + to_string(i + 1) + "\n";
    files["n1000"] = "x = 1\n";
    v.push_back({"include nesting depth 1000", manifest_files(files)});
  }
  {
    // ... and far beyond what any project has: the parser calls itself once per level (w5_C13_2)
    map<string, string> files;
    for (int i = 0; i < 40000; ++i) files[i ? "n" + to_string(i) : "build.ninja"] = "include n" + to_string(i + 1) + "\n";
    files["n40000"] = "x = 1\n";
    v.push_back({"include nesting depth 40000", manifest_files(files)});
  }
  // a directory where a file is expected: opening it works, reading it fails (EISDIR) -- through the real ReadFile()
  for (const char* how : {"include sub\n", "subninja sub\n", "rule r\n  command = c\n  depfile = sub\nbuild a: r in\n",
                          "rule r\n  command = c\nbuild a: r in || sub\n  dyndep = sub\n"}) {
    string text = how;
    v.push_back({"a directory where a file is read: " + text.substr(0, text.find('\n')) + (text.find("depfile") != string::npos ? " (depfile)" :
                                                                                         text.find("dyndep") != string::npos ? " (dyndep)" : ""),
                 [text]() {
      g_disk.files.clear();
      g_disk.Write("build.ninja", text);
      g_disk.Write("in", "");
      g_disk.Write("a", "");
      g_disk.MkdirP("sub");
      vfs::disk = &g_disk;
      vfs::active = true;
      {
        BuildConfig config;
        NinjaMain nm("ninja", config);
        ManifestParser p(&nm.state_, &nm.disk_interface_);
        string err;
        if (p.Load("build.ninja", &err)) {
          DependencyScan scan(&nm.state_, nullptr, nullptr, &nm.disk_interface_, nullptr, nullptr);
          if (Node* n = nm.state_.LookupNode("a")) scan.RecomputeDirty(n, nullptr, &err);
        }
      }
      vfs::active = false;
    }});
  }
  // -d explain: explanations are formatted into a fixed buffer; names of every length around its size, in the three places
  // where text from a file ends up in one (a depfile's target, a missing output, an input newer than the output)
  for (size_t len : {size_t(1), size_t(500), size_t(1000), size_t(1023), size_t(1024), size_t(1025), size_t(1100), size_t(3000), size_t(70000)}) {
    v.push_back({"-d explain with a name of " + to_string(len) + " characters", [len]() {
      string name(len, 'n');
      State state;
      MemReader r;
      r.files["build.ninja"] = "rule cc\n  command = cc\n  depfile = a.d\nbuild a: cc a.c\nbuild " + name + ": cc " + name + ".c\nbuild c: cc " + name + ".in\n";
      ManifestParser p(&state, &r);
      string err;
      if (!p.Load("build.ninja", &err)) return;
      MemDisk disk;
      disk.files["a.c"] = "";
      disk.files["a"] = "";
      disk.files["a.d"] = name + "x: x.h\n";      // names another target: "expected depfile ... to mention 'a', got '<name>x'"
      disk.files[name + ".c"] = "";                // <name> itself does not exist: "output <name> doesn't exist"
      disk.files[name + ".in"] = "";
      disk.files["c"] = "";
      Explanations expl;
      DependencyScan scan(&state, nullptr, nullptr, &disk, nullptr, &expl);
      for (const char* t : {"a", "c"})
        if (Node* n = state.LookupNode(t)) { err.clear(); scan.RecomputeDirty(n, nullptr, &err); }
      if (Node* n = state.LookupNode(name)) { err.clear(); scan.RecomputeDirty(n, nullptr, &err); }
      size_t total = 0;
      for (Edge* e : state.edges_) {
        vector<string> out;
        for (Node* o : e->outputs_) expl.LookupAndAppend(o, &out);
        for (auto& x : out) total += x.size() + strlen(x.c_str());
      }
      if (total == (size_t)-1) abort();
    }});
  }
  v.push_back({"rule variable cycle", []() {
    State state;
    MemReader r;
    r.files["build.ninja"] = "rule r\n  command = $a\n  a = $b\n  b = $a\nbuild o: r\n";
    ManifestParser p(&state, &r);
    string err;
    if (p.Load("build.ninja", &err)) for (Edge* e : state.edges_) e->EvaluateCommand();
  }});
  v.push_back({"file-level variable referring to itself", manifest_files({{"build.ninja", "x = $x y\nx = $x $x\nbuild $x: phony\n"}})});
  v.push_back({"300 KiB build log line", []() { RunBuildLog("# ninja log v7\n1\t2\t3\t" + string(300 << 10, 'n') + "\tabc\n1\t2\t3\ta\tb\n"); }});
  v.push_back({"deps record at the size limit", []() {
    uint32_t size = (1u << 19) - 4;
    string rec((const char*)&size, 4);
    rec += string(size - 4, 'p');
    uint32_t ck = ~0u;
    rec += string((const char*)&ck, 4);
    RunDepsLog(rec);
    uint32_t over = (1u << 19);
    RunDepsLog(string((const char*)&over, 4) + string(64, 'x'));
  }});
  v.push_back({"manifest of 200000 statements on one line continuation", []() {
    string m = "rule r\n  command = c\nbuild o: r";
    for (int i = 0; i < 20000; ++i) m += " $\n  i" + to_string(i);
    m += "\n";
    RunManifest(m);
  }});
  v.push_back({"dependency chain of 100000 statements: the dirty scan of the last target", []() {
    // nothing bounds the depth of the scan but the size of the input: one recursion level per statement of the chain
    string m = "rule r\n  command = c\n";
    for (int i = 1; i <= 100000; ++i) m += "build n" + to_string(i) + ": r n" + to_string(i - 1) + "\n";
    State state;
    MemReader r;
    r.files["build.ninja"] = m;
    ManifestParser p(&state, &r);
    string err;
    if (!p.Load("build.ninja", &err)) return;
    MemDisk disk;
    disk.files["n0"] = "";
    DependencyScan scan(&state, nullptr, nullptr, &disk, nullptr, nullptr);
    scan.RecomputeDirty(state.LookupNode("n100000"), nullptr, &err);
  }});
  return v;
}

struct Format {
  const char* name;
  vector<string> tokens;
  void (*fn)(const string&);
};

static vector<Format> Formats() {
  vector<Format> f;
  f.push_back({"manifest",
               {"rule r\n", "  command = c\n", "build o: r i\n", "build ", "o", ":", " r", " | ", " || ", " |@ ", "\n", "  ",
                "x = 1\n", "$x", "${x}", "$", "$\n", "$ ", "$:", "default o\n", "pool p\n  depth = 1\n", "include f\n",
                "subninja f\n", "\t", "\r\n", "#c\n", " phony", "=", string(1, '\0'), "  pool = p\n", "  dyndep = i\n", "$$"},
               RunManifest});
  // includes: every way a file can reach itself again, in every spelling
  f.push_back({"manifest_include",
               {"include ", "subninja ", "build.ninja", "./build.ninja", "sub/../build.ninja", ".//build.ninja", "g", "./g", "h", "./h", "f", "\n",
                "rule r\n  command = c\n", "build x: r\n", "$\n", " "},
               RunManifest});
  // version declarations: what follows `ninja_required_version = ` / `ninja_dyndep_version = ` is parsed as numbers
  f.push_back({"version_lines", {"ninja_required_version = ", "ninja_dyndep_version = ", "1", ".", "x", "$x", "\n", "-", " ", "99999999999999999999",
                                 "build out: dyndep\n", "rule r\n  command = c\n"},
               [](const string& in) { RunManifest(in); RunDyndep(in); }});
  f.push_back({"rule_vars", {"x", "|", "$command", "$description", "$depfile", " ", "$out", "${command}", "$in"}, RunRuleVars});
  f.push_back({"depfile", {"a", " ", "\\", "#", "$", ":", "\n", "\r", string(1, '\0'), "\x80", "%", "\t"}, RunDepfile});
  f.push_back({"depfile_load", {"a", " ", "\\", "#", "$", ":", "\n", "\r", "b", "./a", "a.c", "x.h", "./x.h", "x.h ./x.h"}, RunDepfileLoad});
  f.push_back({"dyndep",
               {"ninja_dyndep_version = 1\n", "ninja_dyndep_version = 1.0\n", "ninja_dyndep_version = 2\n", "build out: dyndep",
                " | ", "in2", " out2", "\n", "  restat = 1\n", "build ", "out", ":", " dyndep", "$", "$\n", "#c\n", "x = 1\n",
                string(1, '\0'), "\r\n", " out2x", "in", "out2x", "dd", "build in: dyndep\n", "build out2x: dyndep\n", "build out: dyndep | dd\n",
                "build out3: dyndep\n"},
               RunDyndep});
  f.push_back({"dyndep_tools",
               {"ninja_dyndep_version = 1\n", "build out: dyndep", " | ", "\n", "build ", "out", ": dyndep", "%s%s%s%s%n", "%n", "x", "$", "  restat = ",
                "ninja_dyndep_version = ", "%d%999999d"},
               RunDyndepTools});
  f.push_back({"ninja_log",
               {"# ninja log v7\n", "# ninja log v6\n", "# ninja log v", "1", "\t", "a", "\n", "99999999999999999999", "-1",
                "deadbeef", string(1, '\0'), "\r", "7"},
               RunBuildLog});
  // whole records behind a valid header: every field drawn from a value alphabet with the extremes of the types they
  // are read into (int start/end times, 64-bit mtime, hex hash)
  f.push_back({"ninja_log_records",
               {"0\t", "1\t", "-1\t", "2147483647\t", "-2147483648\t", "99999999999999999999\t", "a\t", "1 7\t", "ffffffffffffffffff\n", "b\n"},
               [](const string& in) { RunBuildLog("# ninja log v7\n" + in); }});
  {
    vector<string> w;
    for (uint32_t x : {0u, 1u, 4u, 8u, 12u, 16u, 0x80000000u, 0x80000004u, 0x80000008u, 0x8000000cu, 0x80000010u, 0x7fffffffu,
                       0xffffffffu, 0xfffffffeu, 0xfffffffdu, 2u, 3u, 0x61616161u, 0x00000061u, 0x80000014u})
      w.push_back(string((const char*)&x, 4));
    w.push_back(string(1, '\0'));
    w.push_back("ab");
    f.push_back({"ninja_deps", w, RunDepsLog});
  }
  f.push_back({"showincludes", {"Note: including file: ", "foo.h", "\n", "\r\n", " ", "C:\\x.h", "bar.cc", string(1, '\0'), ":", "Note: ", "\r"},
               RunShowIncludes});
  f.push_back({"makeflags", {" ", "-j", "--jobserver-auth=", "--jobserver-fds=", "fifo:", "3,4", "/p", "-", "n", "--", "=", "1",
                             "-1,", "99999999999", ","},
               RunMakeflags});
  f.push_back({"ninja_status", {"%", "s", "t", "r", "u", "f", "o", "c", "p", "e", "w", "E", "W", "x", "[", " "}, RunNinjaStatus});
  f.push_back({"status_opt", {"$", "started", "{", "}", "finished", " ", "$$", "total", "x", "description", "$\n", ":", "percent"},
               RunStatusOpt});
  f.push_back({"elide", {"\x1b", "[", "0", ";", "m", "a"}, RunElide});
  f.push_back({"canonpath", {"a", ".", "/", "..", "\\"}, RunCanonPath});
  return f;
}

static string Compose(const Format& f, uint64_t idx, int len) {
  string s;
  vector<int> d(len);
  for (int i = len - 1; i >= 0; --i) { d[i] = idx % f.tokens.size(); idx /= f.tokens.size(); }
  for (int i = 0; i < len; ++i) s += f.tokens[d[i]];
  return s;
}

struct Shared {
  volatile uint64_t current;     // index being processed
  volatile uint64_t done;        // 1 when the range is finished
  Counts counts;
};

static void RunGuarded(const function<void()>& fn) {
  g_in_test = true;
  if (setjmp(g_jmp) == 0) fn();
  else g_counts->rejected++;  // Fatal(): an error was reported
  g_in_test = false;
}

int main(int argc, char** argv) {
  vx::Args a(argc, argv);
  string fname = a.Get("format");
  long shard = a.GetInt("shard", 0), nshards = a.GetInt("nshards", 1);
  int maxlen = (int)a.GetInt("maxlen", 3);
  int timeout_s = (int)a.GetInt("timeout", 8);   // per input; the inputs are a few bytes and take microseconds
  // keep ninja's own chatter (warnings from loaders) out of our report
  int devnull = open("/dev/null", O_WRONLY);
  int report_fd = dup(1);
  dup2(devnull, 1);
  dup2(devnull, 2);
  Shared* sh = (Shared*)mmap(NULL, sizeof(Shared), PROT_READ | PROT_WRITE, MAP_SHARED | MAP_ANONYMOUS, -1, 0);
  g_counts = &sh->counts;

  if (fname == "stress") {
    auto cases = StressCases();
    string bad;
    int nbad = 0;
    for (size_t i = 0; i < cases.size(); ++i) {
      if ((long)(i % nshards) != shard) continue;
      if (a.Has("only") && a.GetInt("only", 0) != (long)i) continue;
      int st = 0;
      for (int attempt = 0; attempt < 2; ++attempt) {
        pid_t pid = fork();
        if (pid == 0) {
          alarm(timeout_s * (attempt ? 30 : 3));   // (a case that ran into the wall-clock limit is run once more with ten times as much)
          RunGuarded(cases[i].second);
          _exit(0);
        }
        waitpid(pid, &st, 0);
        if (!(WIFSIGNALED(st) && WTERMSIG(st) == SIGALRM)) break;
      }
      if (!(WIFEXITED(st) && WEXITSTATUS(st) == 0)) {
        nbad++;
        bad += (bad.empty() ? "" : "; ") + to_string(i) + ":" + cases[i].first + " (status " + to_string(st) + ")";
      }
    }
    dprintf(report_fd, "{\"format\":\"stress\",\"inputs\":%zu,\"accepted\":0,\"rejected\":0,\"crashes\":%d,\"first_bad\":\"\",\"stress_failures\":\"%s\"}\n",
            cases.size(), nbad, vx::JsonEscape(bad).c_str());
    return 0;
  }

  vector<Format> fs = Formats();
  const Format* fmt = nullptr;
  for (auto& f : fs) if (fname == f.name) fmt = &f;
  if (!fmt) { dprintf(report_fd, "unknown format %s\n", fname.c_str()); return 2; }

  if (a.Has("replay")) {
    string in = vx::Unhex(a.Get("replay"));
    dup2(report_fd, 2);
    RunGuarded([&] { fmt->fn(in); });
    dprintf(report_fd, "input processed without a sanitizer report or crash\n");
    return 0;
  }

  uint64_t total_inputs = 0, crashes = 0, slow_inputs = 0;
  int hangs = 0;
  bool stopped_early = false;  // enough crashing inputs collected: the verdict is clear
  string first_bad;
  int first_bad_status = 0;
  vector<string> all_bad;
  for (int len = 0; len <= maxlen; ++len) {
    uint64_t n = 1;
    for (int i = 0; i < len; ++i) n *= fmt->tokens.size();
    // this shard's indices: idx % nshards == shard
    uint64_t next = (uint64_t)shard;
    while (next < n) {
      sh->current = next;
      sh->done = 0;
      pid_t pid = fork();
      if (pid == 0) {
        struct rlimit nocore = {0, 0};
        setrlimit(RLIMIT_CORE, &nocore);
        uint64_t processed = 0;
        for (uint64_t idx = next; idx < n; idx += nshards) {
          sh->current = idx;
          alarm(timeout_s);
          string in = Compose(*fmt, idx, len);
          RunGuarded([&] { fmt->fn(in); });
          if (++processed >= 200000) { sh->current = idx + nshards; _exit(17); }  // recycle (State never frees)
        }
        sh->done = 1;
        _exit(0);
      }
      int st;
      waitpid(pid, &st, 0);
      if (WIFEXITED(st) && WEXITSTATUS(st) == 0 && sh->done) break;
      if (WIFEXITED(st) && WEXITSTATUS(st) == 17) { next = sh->current; continue; }
      // died on sh->current
      uint64_t bad = sh->current;
      if (WIFSIGNALED(st) && WTERMSIG(st) == SIGALRM) {
        // the watchdog measures wall-clock time: on a busy machine a stall of some seconds is not a hang.  The input is run
        // again, alone, with ten times the limit, before it is called one.
        pid_t p2 = fork();
        if (p2 == 0) {
          struct rlimit nocore = {0, 0};
          setrlimit(RLIMIT_CORE, &nocore);
          alarm(timeout_s * 5);
          string in2 = Compose(*fmt, bad, len);
          RunGuarded([&] { fmt->fn(in2); });
          _exit(0);
        }
        int st2;
        waitpid(p2, &st2, 0);
        if (WIFEXITED(st2) && WEXITSTATUS(st2) == 0) { slow_inputs++; next = bad + nshards; continue; }
        st = st2;
      }
      crashes++;
      if (crashes >= 25) { stopped_early = true; }
      // inputs that run into the watchdog cost its full length each: a handful settles the verdict
      if (WIFSIGNALED(st) && WTERMSIG(st) == SIGALRM && ++hangs >= 4) { stopped_early = true; }
      string in = Compose(*fmt, bad, len);
      if (all_bad.size() < 5) all_bad.push_back(in);
      if (first_bad.empty() && crashes == 1) { first_bad = in; first_bad_status = st; }
      next = bad + nshards;
      if (stopped_early) break;
    }
    if (stopped_early) break;
    for (uint64_t idx = (uint64_t)shard; idx < n; idx += nshards) total_inputs++;
  }
  string bads;
  for (auto& b : all_bad) bads += (bads.empty() ? "" : ",") + string("\"") + vx::Hex(b) + "\"";
  dprintf(report_fd, "{\"format\":\"%s\",\"inputs\":%llu,\"accepted\":%llu,\"rejected\":%llu,\"crashes\":%llu,\"first_bad\":\"%s\","
                     "\"first_bad_status\":%d,\"stopped_early\":%d,\"inputs_repeated_after_a_timeout\":%llu,\"bad_inputs\":[%s]}\n",
          fmt->name, (unsigned long long)total_inputs, (unsigned long long)sh->counts.accepted,
          (unsigned long long)sh->counts.rejected, (unsigned long long)crashes, vx::Hex(first_bad).c_str(), first_bad_status, (int)stopped_early, (unsigned long long)slow_inputs,
          bads.c_str());
  return 0;
}
