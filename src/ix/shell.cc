// C16: every file name of 1-2 bytes (all byte values except NUL and newline) and every 3-byte name
// over the shell-special alphabet, substituted through the real Edge evaluation of $in / $out /
// $in_newline, is read back by the real /bin/sh as exactly one word equal to the name.
// usage: shell helper=<printargs path> shard=i nshards=n [three=1] [batch=100] [replay=<hex name>]
#include <spawn.h>
#include <sys/wait.h>
#include <unistd.h>

#include "eval_env.h"
#include "graph.h"
#include "ixutil.h"
#include "state.h"
#include "util.h"

using namespace std;
extern char** environ;

static string RunShell(const string& cmd, int* status) {
  int fds[2];
  if (pipe(fds) < 0) { perror("pipe"); exit(2); }
  posix_spawn_file_actions_t fa;
  posix_spawn_file_actions_init(&fa);
  posix_spawn_file_actions_adddup2(&fa, fds[1], 1);
  posix_spawn_file_actions_addclose(&fa, fds[0]);
  posix_spawn_file_actions_addclose(&fa, fds[1]);
  const char* argv[] = {"/bin/sh", "-c", cmd.c_str(), NULL};
  pid_t pid;
  if (posix_spawn(&pid, "/bin/sh", &fa, NULL, (char* const*)argv, environ) != 0) { perror("spawn"); exit(2); }
  posix_spawn_file_actions_destroy(&fa);
  close(fds[1]);
  string out;
  char buf[65536];
  ssize_t n;
  while ((n = read(fds[0], buf, sizeof buf)) > 0) out.append(buf, n);
  close(fds[0]);
  waitpid(pid, status, 0);
  return out;
}

struct Result { uint64_t names = 0, shell_runs = 0, verbatim = 0, quoted = 0, violations = 0; string first_bad, first_why, first_var; };

static bool SafeChar(unsigned char c) {
  return (c >= 'A' && c <= 'Z') || (c >= 'a' && c <= 'z') || (c >= '0' && c <= '9') || c == '_' || c == '+' || c == '-' ||
         c == '.' || c == '/';
}

// Builds one edge whose inputs (or outputs) are `names`, evaluates "HELPER $var" and checks the
// shell's view.  Returns index of the first offending name or -1.
static int CheckBatch(const vector<string>& names, const string& var_in, const string& helper, Result* r, string* why) {
  // var: "in" | "out" | "in_newline"; "<x>@files": the rule also binds depfile / rspfile / dyndep to names built from $<x>,
  // and they are evaluated (unescaped, as Builder::StartEdge does for the directories and the response file) before the
  // command is; "rspfile<out" / "depfile<in": the command names $rspfile / $depfile, which the rule binds to $out / $in
  string fullvar = var_in;
  string var = fullvar;
  bool files_first = false;
  string nested_from;
  if (fullvar.size() > 6 && fullvar.compare(fullvar.size() - 6, 6, "@files") == 0) { var = fullvar.substr(0, fullvar.size() - 6); files_first = true; }
  size_t lt = fullvar.find('<');
  if (lt != string::npos) { var = fullvar.substr(0, lt); nested_from = fullvar.substr(lt + 1); }
  State state;
  Rule* rule = new Rule("r");
  EvalString cmd;
  cmd.AddText(helper + " ");
  cmd.AddSpecial(var);
  rule->AddBinding("command", cmd);
  if (files_first) {
    for (const char* b : {"depfile", "rspfile", "dyndep"}) {
      EvalString v;
      v.AddSpecial(var == "in_newline" ? "in" : var);
      v.AddText(string(".") + b);
      rule->AddBinding(b, v);
    }
    EvalString rc;
    rc.AddSpecial("in_newline");
    rule->AddBinding("rspfile_content", rc);
  }
  if (!nested_from.empty()) {
    EvalString v;
    v.AddSpecial(nested_from);
    rule->AddBinding(var, v);
  }
  state.bindings_.AddRule(std::unique_ptr<const Rule>(rule));
  Edge* e = state.AddEdge(rule);
  string err;
  if (var == "out" || nested_from == "out") {
    for (auto& n : names) state.AddOut(e, n, 0, &err);
    state.AddIn(e, "\x01other-side", 0);
  } else {
    for (auto& n : names) state.AddIn(e, n, 0);
    state.AddOut(e, "\x01other-side", 0, &err);
  }
  if (files_first) {
    (void)e->GetUnescapedDepfile();
    (void)e->GetUnescapedRspfile();
    (void)e->GetUnescapedDyndep();
    (void)e->GetBinding("rspfile_content");
  }
  string text = e->EvaluateCommand();
  if (var == "in_newline")
    for (size_t i = helper.size(); i < text.size(); ++i) if (text[i] == '\n') text[i] = ' ';
  // verbatim rule: names made only of known-safe characters appear unquoted
  int status = 0;
  string out = RunShell(text, &status);
  r->shell_runs++;
  vector<string> words;
  size_t pos = 0;
  while (pos < out.size()) {
    size_t nl = out.find('\n', pos);
    if (nl == string::npos) nl = out.size();
    words.push_back(vx::Unhex(out.substr(pos, nl - pos)));
    pos = nl + 1;
  }
  const string prefix;  // names are used as they are: a leading ~, - or = must survive too
  if (!WIFEXITED(status) || WEXITSTATUS(status) != 0) {
    *why = "shell exited abnormally (status " + to_string(status) + ") for text " + vx::JsonEscape(text.substr(0, 200));
    // find the culprit by bisection at the caller
    return -2;
  }
  for (size_t i = 0; i < names.size(); ++i) {
    if (i >= words.size() || words[i] != prefix + names[i]) {
      *why = "shell word " + to_string(i) + " is '" + vx::JsonEscape(i < words.size() ? words[i] : string("<missing>")) +
             "' instead of '" + vx::JsonEscape(prefix + names[i]) + "' (" + to_string(words.size()) + " words for " +
             to_string(names.size()) + " names)";
      return (int)i;
    }
  }
  if (words.size() != names.size()) { *why = "extra words after the last name"; return (int)names.size() - 1; }
  // verbatim check on the text itself
  for (auto& n : names) {
    bool safe = true;
    for (unsigned char c : n) if (!SafeChar(c)) safe = false;
    if (safe) {
      r->verbatim++;
      string needle = " " + prefix + n;
      size_t at = text.find(needle);
      bool ok = false;
      while (at != string::npos) {
        size_t end = at + needle.size();
        if (end == text.size() || text[end] == ' ') { ok = true; break; }
        at = text.find(needle, at + 1);
      }
      if (!ok) { *why = "name '" + n + "' needs no quoting but is not passed verbatim"; return 0; }
    } else {
      r->quoted++;
    }
  }
  return -1;
}

int main(int argc, char** argv) {
  vx::Args a(argc, argv);
  string helper = a.Get("helper");
  long shard = a.GetInt("shard", 0), nshards = a.GetInt("nshards", 1);
  size_t batch = (size_t)a.GetInt("batch", 100);
  bool three = a.GetInt("three", 1) != 0;
  Result r;
  if (a.Has("replay")) {
    string n = vx::Unhex(a.Get("replay"));
    int bad = 0;
    for (const char* var : {"in", "out", "in_newline", "in@files", "out@files", "in_newline@files", "rspfile<out", "depfile<in"}) {
      string why;
      int i = CheckBatch({"a", n, "b"}, var, helper, &r, &why);
      printf("$%s name=%s: %s\n", var, vx::JsonEscape(n).c_str(), i == -1 ? "OK" : ("VIOLATION: " + why).c_str());
      if (i != -1) bad = 1;
    }
    return bad;
  }
  vector<string> names;
  for (int c1 = 1; c1 < 256; ++c1) {
    if (c1 == '\n') continue;
    names.push_back(string(1, (char)c1));
    for (int c2 = 1; c2 < 256; ++c2) {
      if (c2 == '\n') continue;
      names.push_back(string(1, (char)c1) + string(1, (char)c2));
    }
  }
  if (three) {
    const string sp = " \t'\"\\$`*?[]{}()<>|&;!#~=%^";
    for (char x : sp) for (char y : sp) for (char z : sp) names.push_back(string{x, y, z});
  }
  vector<string> samples;
  uint64_t bidx = 0;
  for (size_t i = 0; i < names.size(); i += batch, ++bidx) {
    if ((long)(bidx % nshards) != shard) continue;
    vector<string> b(names.begin() + i, names.begin() + min(names.size(), i + batch));
    for (const char* var : {"in", "out", "in_newline", "in@files", "out@files", "in_newline@files", "rspfile<out", "depfile<in"}) {
      string why;
      int bad = CheckBatch(b, var, helper, &r, &why);
      if (bad != -1) {
        // narrow down to a single name
        string culprit, cwhy = why;
        for (auto& n : b) {
          string w2;
          if (CheckBatch({"a", n, "b"}, var, helper, &r, &w2) != -1) { culprit = n; cwhy = w2; break; }
        }
        if (!r.violations++) { r.first_bad = culprit.empty() ? b[max(0, bad)] : culprit; r.first_why = cwhy; r.first_var = var; }
      }
    }
    r.names += b.size();
    if (samples.size() < 3) samples.push_back(b[b.size() / 2]);
  }
  printf("{\"names\":%llu,\"shell_runs\":%llu,\"verbatim\":%llu,\"quoted\":%llu,\"violations\":%llu,\"first_bad\":\"%s\","
         "\"first_var\":\"%s\",\"first_why\":\"%s\",\"samples\":[",
         (unsigned long long)r.names, (unsigned long long)r.shell_runs, (unsigned long long)r.verbatim,
         (unsigned long long)r.quoted, (unsigned long long)r.violations, vx::Hex(r.first_bad).c_str(), r.first_var.c_str(),
         vx::JsonEscape(r.first_why).c_str());
  for (size_t i = 0; i < samples.size(); ++i) printf("%s\"%s\"", i ? "," : "", vx::Hex(samples[i]).c_str());
  printf("]}\n");
  return 0;
}
