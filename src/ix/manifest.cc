// C12: runs the real ManifestParser on generated manifests (JSON lines: {"id","files","expect"})
// and compares the canonical dump of the resulting State with the dumps computed by the reference
// evaluator lib/refmanifest.py ("expect": list of acceptable dumps, "!error" for a rejection that
// must carry file:line, "!fatal" for Fatal()).
// usage: manifest cases=<file.jsonl> shard=i nshards=n | replay=<file with one case>
#include <dlfcn.h>
#include <fcntl.h>
#include <setjmp.h>
#include <unistd.h>

#include <fstream>
#include <sstream>

#include "graph.h"
#include "ixutil.h"
#include "disk_interface.h"
#include "manifest_parser.h"
#include "state.h"
#include "vjson.h"

using namespace std;
using js::J;

static jmp_buf g_jmp;
static bool g_in_test = false;
extern "C" __attribute__((noreturn)) void exit(int code) noexcept {
  if (g_in_test) longjmp(g_jmp, 1);
  static auto real = (void (*)(int))dlsym(RTLD_NEXT, "exit");
  real(code);
  _exit(code);
}

struct MemReader : public FileReader {
  map<string, string> files;
  Status ReadFile(const string& path, string* contents, string* err) override {
    auto it = files.find(path);
    if (it == files.end()) { *err = "No such file or directory"; return NotFound; }
    *contents = it->second;
    return Okay;
  }
};

static string Join(Node* const* b, Node* const* e) {
  string s;
  for (Node* const* i = b; i != e; ++i) { if (i != b) s += ","; s += (*i)->path(); }
  return s;
}

static string Dump(State& st) {
  string o;
  for (auto& kv : st.pools_) {
    if (kv.first.empty() || kv.first == "console") continue;
    o += "pool " + kv.first + " depth=" + to_string(kv.second->depth()) + "\n";
  }
  o += "defaults";
  for (size_t i = 0; i < st.defaults_.size(); ++i) o += (i ? " " : " ") + st.defaults_[i]->path();
  if (st.defaults_.empty()) o += " ";
  o += "\n";
  {
    // what a plain `ninja` builds: the default statements, else every output that no statement names as an input
    string err;
    vector<Node*> dn = st.DefaultNodes(&err);
    vector<string> names;
    for (Node* n : dn) names.push_back(n->path());
    sort(names.begin(), names.end());
    names.erase(unique(names.begin(), names.end()), names.end());
    o += "builds-by-default";
    if (!err.empty()) o += " !none";
    else for (auto& n : names) o += " " + n;
    o += "\n";
  }
  for (Edge* e : st.edges_) {
    size_t nout = e->outputs_.size() - e->implicit_outs_;
    size_t nin = e->inputs_.size() - e->implicit_deps_ - e->order_only_deps_;
    Node* const* ob = e->outputs_.data();
    Node* const* ib = e->inputs_.data();
    o += "edge rule=" + e->rule().name() + " outs=" + Join(ob, ob + nout) + " iouts=" + Join(ob + nout, ob + e->outputs_.size()) +
         " ins=" + Join(ib, ib + nin) + " implicit=" + Join(ib + nin, ib + nin + e->implicit_deps_) +
         " order_only=" + Join(ib + nin + e->implicit_deps_, ib + e->inputs_.size()) +
         " validations=" + Join(e->validations_.data(), e->validations_.data() + e->validations_.size()) +
         " pool=" + e->pool()->name() + "\n";
    if (e->is_phony()) continue;
    o += "  command=" + e->GetBinding("command") + "\n";
    o += "  description=" + e->GetBinding("description") + "\n";
    o += "  depfile=" + e->GetUnescapedDepfile() + "\n";
    o += "  rspfile=" + e->GetUnescapedRspfile() + "\n";
    o += "  rspfile_content=" + e->GetBinding("rspfile_content") + "\n";
    o += "  deps=" + e->GetBinding("deps") + "\n";
    o += "  dyndep=" + (e->dyndep_ ? e->dyndep_->path() : string()) + "\n";
    o += string("  restat=") + (e->GetBindingBool("restat") ? "1" : "0") + " generator=" + (e->GetBindingBool("generator") ? "1" : "0") + "\n";
  }
  return o;
}

struct Outcome { string kind; string dump; string err; };

static Outcome RunCase(const J& c) {
  Outcome oc;
  // State is never destroyed here: pools registered in it are freed by ~State and the parser may
  // longjmp out of Fatal(); leaking a few KB per case is fine (the process is short-lived).
  State* state = new State;
  MemReader r;
  for (auto& kv : c["files"].o) r.files[kv.first] = kv.second.s;
  ManifestParserOptions opts;
  if (c["phonycycle_err"].boolean(false)) opts.phony_cycle_action_ = kPhonyCycleActionError;
  g_in_test = true;
  if (setjmp(g_jmp) == 0) {
    ManifestParser p(state, &r, opts);
    string err;
    if (!p.Load("build.ninja", &err)) {
      oc.kind = "!error";
      oc.err = err;
    } else {
      oc.kind = "ok";
      oc.dump = Dump(*state);
    }
  } else {
    oc.kind = "!fatal";
  }
  g_in_test = false;
  return oc;
}

static bool HasFileLine(const string& err) {
  // <file>:<line>: message
  size_t c1 = err.find(':');
  if (c1 == string::npos || c1 == 0) return false;
  size_t c2 = err.find(':', c1 + 1);
  if (c2 == string::npos || c2 == c1 + 1) return false;
  for (size_t i = c1 + 1; i < c2; ++i) if (!isdigit((unsigned char)err[i])) return false;
  return true;
}

int main(int argc, char** argv) {
  vx::Args a(argc, argv);
  int devnull = open("/dev/null", O_WRONLY);
  int report = dup(1);
  dup2(devnull, 1);
  dup2(devnull, 2);
  string path = a.Has("replay") ? a.Get("replay") : a.Get("cases");
  long shard = a.GetInt("shard", 0), nshards = a.GetInt("nshards", 1);
  ifstream in(path);
  if (!in) { dprintf(report, "cannot open %s\n", path.c_str()); return 2; }
  string line;
  long idx = -1;
  uint64_t cases = 0, accepted = 0, rejected = 0, fatal = 0, unconstrained = 0, line_agree = 0, line_differs = 0;
  J viols = J::Arr();
  while (getline(in, line)) {
    if (line.empty()) continue;
    ++idx;
    if (!a.Has("replay") && idx % nshards != shard) continue;
    J c;
    if (!js::Parse(line, &c)) { dprintf(report, "bad json in case %ld\n", idx); return 2; }
    cases++;
    Outcome oc = RunCase(c);
    if (oc.kind == "ok") accepted++; else if (oc.kind == "!error") rejected++; else fatal++;
    const J& ex = c["expect"];
    if (ex.a.size() > 1) unconstrained++;
    bool ok = false;
    string why;
    for (auto& e : ex.a) {
      if (e.s == "!error" || e.s.compare(0, 7, "!error:") == 0) {
        if (oc.kind == "!error") {
          ok = true;
          if (!HasFileLine(oc.err)) { ok = false; why = "rejected without a file:line diagnostic: " + oc.err; }
          else if (e.s.size() > 7) {
            // reference's file:line for statistics
            string want = e.s.substr(7);
            if (oc.err.compare(0, want.size(), want) == 0) line_agree++; else line_differs++;
          }
        }
      } else if (e.s == "!fatal") {
        if (oc.kind == "!fatal") ok = true;
      } else if (oc.kind == "ok" && oc.dump == e.s) {
        ok = true;
      }
      if (ok) break;
    }
    if (a.Has("replay")) {
      dprintf(report, "result: %s\n%s%s\n", oc.kind.c_str(), oc.dump.c_str(), oc.err.c_str());
      dprintf(report, "%s\n", ok ? "AGREES with the reference" : "VIOLATION: differs from the reference");
      for (auto& e : ex.a) dprintf(report, "--- reference:\n%s\n", e.s.c_str());
      return ok ? 0 : 1;
    }
    if (!ok && viols.a.size() < 40) {
      J v = J::Obj();
      v.set("index", idx);
      v.set("id", c["id"].str());
      v.set("family", c["family"].str());
      v.set("got_kind", oc.kind);
      v.set("got", oc.kind == "ok" ? oc.dump : oc.err);
      v.set("why", why);
      viols.push(v);
    }
  }
  J out = J::Obj();
  out.set("cases", cases);
  out.set("accepted", accepted);
  out.set("rejected", rejected);
  out.set("fatal", fatal);
  out.set("unconstrained_cases", unconstrained);
  out.set("error_line_agrees", line_agree);
  out.set("error_line_differs", line_differs);
  out.set("violations", viols);
  dprintf(report, "%s\n", js::Dump(out).c_str());
  return 0;
}
