// Engine B helper: the simulated build tool as a real process.  Run by the real ninja binary as
//   <vcmd> sim o=<out> r=<read> ...        (the same command language as engine A)
// Semantics are those of src/nx/simproc.cc: snapshot of what it reads at start, effects when it
// completes.  Between the two it blocks until the orchestrator releases it:
//   $VCMD_CTL/started.<id>   created at start (after the snapshot)
//   $VCMD_CTL/go.<id>        the orchestrator creates it to let the command complete; content:
//                            "ok" | "fail <code> <touch 0/1>" | "partial" (write garbage, then wait for go2)
//   $VCMD_CTL/go2.<id>       second gate for "partial"
//   $VCMD_CTL/done.<id>      created right before exit
// Without VCMD_CTL the command completes immediately.
#include <errno.h>
#include <fcntl.h>
#include <signal.h>
#include <sys/resource.h>
#include <stdio.h>
#include <stdlib.h>
#include <string.h>
#include <sys/stat.h>
#include <time.h>
#include <unistd.h>

#include <fstream>
#include <sstream>

#include "../nx/nx.h"

using namespace std;
using namespace nx;

static bool ReadAll(const string& path, string* out) {
  struct stat st;
  if (stat(path.c_str(), &st) != 0 || S_ISDIR(st.st_mode)) return false;
  ifstream f(path, ios::binary);
  if (!f) return false;
  stringstream ss;
  ss << f.rdbuf();
  *out = ss.str();
  return true;
}

static bool WriteAll(const string& path, const string& data) {
  string tmp = path;
  int fd = open(path.c_str(), O_WRONLY | O_CREAT | O_TRUNC, 0644);
  if (fd < 0) return false;
  size_t off = 0;
  while (off < data.size()) {
    ssize_t n = write(fd, data.data() + off, data.size() - off);
    if (n <= 0) { close(fd); return false; }
    off += n;
  }
  close(fd);
  return true;
}

static string Sanitize(const string& id) {
  string s;
  for (unsigned char c : id) s += (isalnum(c) || c == '.' || c == '_' || c == '-') ? (char)c : '_';
  return s;
}

static void Touch(const string& path) { int fd = open(path.c_str(), O_WRONLY | O_CREAT, 0644); if (fd >= 0) close(fd); }

static string WaitFor(const string& path) {
  for (;;) {
    string s;
    if (ReadAll(path, &s) && !s.empty()) return s;
    struct timespec ts = {0, 500000};
    nanosleep(&ts, NULL);
  }
}

int main(int argc, char** argv) {
  string line;
  for (int i = 1; i < argc; ++i) { if (i > 1) line += " "; line += argv[i]; }
  CmdSpec s = ParseCmd(line);
  if (!s.valid) { fprintf(stderr, "vcmd: bad command line: %s\n", line.c_str()); return 127; }
  vector<pair<string, string>> snap;
  for (auto& r : s.reads) { string c; snap.push_back({r, ReadAll(r, &c) ? c : string(kMissing)}); }
  for (auto& r : s.hidden) { string c; snap.push_back({r, ReadAll(r, &c) ? c : string(kMissing)}); }
  string rsp;
  if (!s.rsp.empty()) { if (!ReadAll(s.rsp, &rsp)) rsp = kMissing; }
  const char* ctl = getenv("VCMD_CTL");
  string id = Sanitize(s.id());
  string verdict = "ok";
  if (ctl) {
    Touch(string(ctl) + "/started." + id);
    verdict = WaitFor(string(ctl) + "/go." + id);
  }
  int rc = 0;
  if (verdict.compare(0, 7, "partial") == 0) {
    for (auto& o : s.outs) WriteAll(o, "PARTIAL from killed " + s.id() + "\n");
    if (!s.depfile.empty()) WriteAll(s.depfile, s.outs[0] + ": \n");
    Touch(string(ctl) + "/partial." + id);
    verdict = WaitFor(string(ctl) + "/go2." + id);
  }
  if (verdict.compare(0, 4, "fail") == 0) {
    int code = 1, touch = 0;
    sscanf(verdict.c_str(), "fail %d %d", &code, &touch);
    if (touch) for (auto& o : s.outs) WriteAll(o, "GARBAGE from failed " + s.id() + "\n");
    printf("%serror: %s failed\n", s.print.c_str(), s.id().c_str());
    rc = code;
  } else if (verdict.compare(0, 4, "dies") == 0) {
    // the command is terminated by a signal of its own (a crashing compiler, the OOM killer)
    int sig = SIGKILL, touch = 0, core = 0;
    sscanf(verdict.c_str(), "dies %d %d %d", &sig, &touch, &core);
    if (touch) for (auto& o : s.outs) WriteAll(o, "GARBAGE from failed " + s.id() + "\n");
    fflush(stdout);
    if (ctl) Touch(string(ctl) + "/done." + id);
    struct rlimit rl = {0, 0};
    if (core) {
      // a crashing tool where core dumps are enabled: the wait status then carries the "core dumped" bit
      getrlimit(RLIMIT_CORE, &rl);
      rl.rlim_cur = rl.rlim_max;
    }
    setrlimit(RLIMIT_CORE, &rl);
    signal(sig, SIG_DFL);
    raise(sig);
    return 99;   // not reached for a fatal signal
  } else if (verdict.compare(0, 6, "sigint") == 0) {
    for (auto& o : s.outs) WriteAll(o, "GARBAGE from failed " + s.id() + "\n");
    if (ctl) Touch(string(ctl) + "/done." + id);
    signal(SIGINT, SIG_DFL);
    raise(SIGINT);
    return 130;
  } else {
    bool bad = false;
    for (size_t i = 0; i < s.reads.size(); ++i)
      if (snap[i].second == kMissing) { printf("sim: %s: No such file or directory\n", s.reads[i].c_str()); bad = true; break; }
    if (!bad && !s.rsp.empty() && rsp == kMissing) { printf("sim: %s: No such file or directory\n", s.rsp.c_str()); bad = true; }
    if (!bad) {
      for (auto& o : s.outs) {
        string content = ContentOf(s, o, snap, rsp);
        string old;
        if (s.restat && ReadAll(o, &old) && old == content) continue;
        if (!WriteAll(o, content)) { printf("sim: cannot create %s: %s\n", o.c_str(), strerror(errno)); bad = true; break; }
      }
    }
    if (!bad && !s.depfile.empty()) {
      WriteAll(s.depfile, DepfileText(s));
    }
    if (!bad) {
      if (s.msvc && !s.notes_last) for (auto& h : s.hidden) printf("%s%s\n", s.msvc_prefix.c_str(), s.Spelled(h).c_str());
      fwrite(s.print.data(), 1, s.print.size(), stdout);
      if (s.msvc && s.notes_last) {
        if (!s.print.empty() && s.print.back() != '\n') printf("\n");
        for (size_t i = 0; i < s.hidden.size(); ++i)
          printf("%s%s%s", s.msvc_prefix.c_str(), s.Spelled(s.hidden[i]).c_str(), i + 1 < s.hidden.size() ? "\n" : "");
      }
    }
    rc = bad ? 1 : 0;
  }
  fflush(stdout);
  if (ctl) Touch(string(ctl) + "/done." + id);
  return rc;
}
