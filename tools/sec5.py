#!/usr/bin/env python3
"""Regenerates the measured-numbers table of DESIGN.md section 5 from evidence/*.json (whatever tier they hold)."""
import json, os, re
V = os.path.dirname(os.path.dirname(os.path.abspath(__file__)))
rows = []
for i in range(1, 21):
    pid = "C%02d" % i
    p = os.path.join(V, "evidence", pid + ".json")
    if not os.path.exists(p):
        continue
    e = json.load(open(p))
    c = e["coverage"]
    extra = []
    for k, label in (("scenarios", "scenarios"), ("invocations_of_real_ninja_main", "invocations of ninja's main"),
                     ("schedules_executed_on_real_code", "schedules"), ("crash_point_executions", "deaths"),
                     ("injected_io_error_executions", "I/O errors"), ("real_binary_invocations_compared", "real-binary invocations compared"),
                     ("real_signal_cases", "real-signal cases"), ("real_jobserver_cases", "jobserver cases"),
                     ("tear_points", "tear points"), ("garbage_tails", "garbage tails"), ("manifests_accepted", "manifests accepted"),
                     ("manifests_rejected", "rejected"), ("representable_names", "names"), ("depfiles_parsed", "depfiles"),
                     ("names", "names"), ("rspfile_invocations", "rspfile invocations")):
        if c.get(k):
            extra.append("%s %s" % (format(c[k], ","), label))
    rows.append("| %s | %s | %s | %s | %s | %s | %s |" % (
        pid, e["tier"], format(c.get("states", 0), ","), format(c.get("transitions", 0), ","), format(c.get("evaluations", 0), ","),
        "yes" if c.get("exhaustive") else "no", "; ".join(extra[:7]) + ("; known findings seen: " + ", ".join(c["known_findings_seen"]) if c.get("known_findings_seen") else "")))
table = ("| Id | tier | states | transitions | evaluations | bound completed | of which |\n|---|---|---|---|---|---|---|\n" + "\n".join(rows) + "\n")
p = os.path.join(V, "DESIGN.md")
s = open(p).read()
s = re.sub(r"<!-- SEC5:BEGIN -->.*<!-- SEC5:END -->", "<!-- SEC5:BEGIN -->\n" + table + "<!-- SEC5:END -->", s, flags=re.S)
open(p, "w").write(s)
print(len(rows), "rows")
