#!/bin/bash
# Runs the named checks on the current tree (first argument: tier) and prints one line per check.
tier=${1:-quick}; shift
cd "$(dirname "$0")/.." || exit 2
for c in "$@"; do
  s=$(date +%s)
  out=$(bin/check $c --tier $tier 2>&1); rc=$?
  echo "$c rc=$rc $(( $(date +%s) - s ))s $(echo "$out" | grep -c '^KNOWN-FINDING') known $(echo "$out" | grep -c '^VIOLATION') violations"
  if [ $rc -ne 0 ]; then echo "$out" | grep -E "^VIOLATION|^  |HARNESS|Traceback" | head -6; fi
  echo "$out" | tail -1 | cut -c1-400
done
