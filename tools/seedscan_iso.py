#!/usr/bin/env python3
"""Seed scan that does not touch /repo or /verif's build, evidence and replays: works on a copy of /verif (/tmp/scan_verif)
and a scratch worktree of /repo's HEAD (/tmp/scan_repo), so checks can be edited and run meanwhile.
usage: seedscan_iso.py [--out /tmp/scan_results.json] [--thorough] [seed dir names...]
Results: {seed: {"caught_by": [...], "missed_by": [...], "head": <repo commit>}}; merge with --merge <file> (writes meta.json)."""
import json, os, subprocess, sys
TAG = os.environ.get("SCAN_TAG", "scan")
V, R = "/tmp/%s_verif" % TAG, "/tmp/%s_repo" % TAG
sys.path.insert(0, "/verif/tools")
RELATED = {"C01": ["C01", "C02", "C03", "C14", "C12"], "C02": ["C02", "C01", "C03", "C08"], "C03": ["C03", "C01", "C02", "C08"], "C04": ["C04", "C01"],
           "C05": ["C05"], "C06": ["C06", "C01", "C12"], "C07": ["C07", "C08", "C09"], "C08": ["C08", "C02"], "C09": ["C09"], "C10": ["C10", "C01", "C09", "C07", "C15"],
           "C11": ["C11", "C01", "C17"], "C12": ["C12"], "C13": ["C13", "C17", "C19"], "C14": ["C14"], "C15": ["C15", "C02", "C14", "C09", "C01"], "C16": ["C16", "C14", "C12"],
           "C17": ["C17", "C12"], "C18": ["C18", "C08"], "C19": ["C19", "C20"], "C20": ["C20", "C05"]}
def sh(cmd, **kw):
    return subprocess.run(cmd, shell=True, stdout=subprocess.PIPE, stderr=subprocess.STDOUT, text=True, **kw)
def main():
    a = sys.argv[1:]
    if "--merge" in a:
        res = json.load(open(a[a.index("--merge") + 1]))
        for sd, r in res.items():
            p = "/verif/seeded/%s/meta.json" % sd
            m = json.load(open(p))
            m["caught_by"], m["missed_by"] = r["caught_by"], r["missed_by"]
            m["checks_run"] = "bin/check <id> --tier %s with the patch applied to a scratch worktree of /repo at %s (tools/seedscan_iso.py)" % (r.get("tier", "quick"), r["head"])
            json.dump(m, open(p, "w"), indent=1)
        print("merged", len(res)); return
    out = "/tmp/scan_results.json"
    if "--out" in a:
        out = a[a.index("--out") + 1]; del a[a.index("--out"):a.index("--out") + 2]
    tier = "thorough" if "--thorough" in a else "quick"
    seeds = [x for x in a if not x.startswith("--")] or sorted(d for d in os.listdir("/verif/seeded") if os.path.exists("/verif/seeded/%s/patch.diff" % d))
    sh("mkdir -p %s && rsync -a --delete --exclude build --exclude replays --exclude .git /verif/ %s/" % (V, V))
    head = sh("git -C /repo rev-parse --short HEAD").stdout.strip()
    if not os.path.isdir(R):
        print(sh("git -C /repo worktree add --detach %s HEAD" % R).stdout)
    print(sh("git -C %s checkout -q --detach %s && git -C %s checkout -- ." % (R, head, R)).stdout)
    env = dict(os.environ, VERIF_REPO=R, VERIF_JOBS=os.environ.get("SCAN_JOBS", "8"))
    res = json.load(open(out)) if os.path.exists(out) else {}
    for sd in seeds:
        meta = json.load(open("/verif/seeded/%s/meta.json" % sd))
        if str(meta.get("status", "")).startswith("superseded"):
            continue
        r = sh("git -C %s apply /verif/seeded/%s/patch.diff" % (R, sd))
        if r.returncode:
            print(sd, "patch does not apply", r.stdout); continue
        caught, missed = [], []
        try:
            for c in RELATED.get(meta["property"], [meta["property"]]):
                r = sh("%s/bin/check %s --tier %s" % (V, c, tier), env=env, cwd=V)
                v = [l for l in r.stdout.splitlines() if l.startswith("VIOLATION")]
                (caught if (r.returncode == 1 and v) else missed).append(c)
                if r.returncode not in (0, 1): print(sd, c, "rc", r.returncode, r.stdout[-300:])
        finally:
            sh("git -C %s checkout -- ." % R)
        res[sd] = {"caught_by": caught, "missed_by": missed, "head": head, "tier": tier}
        json.dump(res, open(out, "w"), indent=1)
        print(sd, "caught_by", caught, "missed_by", missed, flush=True)
main()
