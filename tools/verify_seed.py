#!/usr/bin/env python3
"""Independent confirmation of a sub-agent's seeded defects.
usage: verify_seed.py <ID> [<ID>...]   (expects /tmp/mut_<ID> worktree and /tmp/mut_<ID>_out deliverables)
For each mN: builds pristine + mutated tree, runs the unit tests on the mutated tree, runs the demo on both.
Writes /tmp/mut_<ID>_out/verify.json.  Uses -j6."""
import glob, json, os, re, subprocess, sys

PFX = os.environ.get("MUT_PREFIX", "mut_")

def sh(cmd, cwd=None, timeout=1800):
    r = subprocess.run(cmd, shell=True, cwd=cwd, stdout=subprocess.PIPE, stderr=subprocess.STDOUT, text=True, timeout=timeout)
    return r.returncode, r.stdout

def build(wt):
    rc, out = sh("cmake -G Ninja -S . -B _build -DCMAKE_BUILD_TYPE=RelWithDebInfo >/dev/null && cmake --build _build -j6 2>&1 | tail -3", cwd=wt)
    return rc, out

def main():
    for ident in sys.argv[1:]:
        wt = "/tmp/%s%s" % (PFX, ident)
        outd = "/tmp/%s%s_out" % (PFX, ident)
        res = {}
        sh("git checkout -- . && git clean -fdq -e _build", cwd=wt)
        rc, out = build(wt)
        if rc: res["pristine_build"] = out[-2000:]
        for mj in sorted(glob.glob(outd + "/m[0-9].json")):
            m = os.path.basename(mj)[:-5]
            j = json.load(open(mj))
            demo = j["demo_cmd"].split("#")[0].strip()
            r = {"summary": j.get("summary"), "needs": j.get("needs")}
            sh("git checkout -- .", cwd=wt); build(wt)
            runs = [sh(demo, timeout=600)[0] for _ in range(2)]
            r["demo_pristine_rc"] = runs
            rc, out = sh("git apply %s/%s.diff" % (outd, m), cwd=wt)
            r["apply_rc"] = rc
            rc, out = build(wt)
            r["build_rc"] = rc
            # the repository's own suite is flaky under load on the unmodified tree too (DepsLogTest.LotsOfDeps segfaults in
            # roughly one run out of ten on a busy machine): up to three attempts, all recorded
            r["ctest_attempts"] = []
            for _attempt in range(3):
                rc, out = sh("ctest --test-dir _build -j6 --timeout 900 2>&1 | tail -5", cwd=wt)
                r["ctest_attempts"].append(out[-200:])
                if "100% tests passed" in out:
                    break
            r["ctest_rc"] = rc
            r["ctest_tail"] = out[-400:]
            rc2, out2 = sh("_build/ninja_test 2>&1 | tail -2", cwd=wt)
            r["ninja_test_tail"] = out2[-200:]
            runs = [sh(demo, timeout=600)[0] for _ in range(2)]
            r["demo_mutant_rc"] = runs
            r["confirmed"] = (r["apply_rc"] == 0 and r["build_rc"] == 0 and r["ctest_rc"] == 0 and "100% tests passed" in r["ctest_tail"]
                              and all(x == 0 for x in r["demo_pristine_rc"]) and all(x != 0 for x in r["demo_mutant_rc"]))
            res[m] = r
            sh("git checkout -- .", cwd=wt)
        sh("rm -rf _build", cwd=wt)
        json.dump(res, open(outd + "/verify.json", "w"), indent=1)
        print(ident, {k: v.get("confirmed") for k, v in res.items() if isinstance(v, dict)})

main()
