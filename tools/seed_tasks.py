import json, os, glob, subprocess
props = {json.loads(l)["id"]: json.loads(l) for l in open("/verif/properties.jsonl")}
print(list(props["C01"].keys()))
for pid, p in props.items():
    wt = "/tmp/mut_%s" % pid
    out = "/tmp/mut_%s_out" % pid
    os.makedirs(out, exist_ok=True)
    if not os.path.isdir(wt):
        subprocess.run(["git", "-C", "/repo", "worktree", "add", "--detach", wt, "HEAD"], check=True, stdout=subprocess.DEVNULL)
    prev = []
    for mj in sorted(glob.glob("/verif/seeded/%s-m*/meta.json" % pid)):
        s = json.load(open(mj)).get("summary") or ""
        prev.append("- " + s[:170].replace("\n", " "))
    text = p.get("statement") or p.get("text") or p.get("description")
    t = f"""# Task

You are helping to evaluate a verification effort for the build tool **ninja** (ninja-build/ninja, C++).
You have your own scratch git worktree of the repository at `{wt}` (work ONLY there; never touch `/repo` or
`/verif`, and do not read anything under `/verif`). Deliverables go to `{out}/`. There is no network.

## The property

**{pid} — {p.get('title','')}**

{text}

## What to produce

Write **two** different changes to ninja's source (under `{wt}/src`, non-test files only) that each **break this
property** while

* still compiling without new warnings-as-errors,
* still passing the complete existing test suite, unedited:
  `cd {wt} && cmake -G Ninja -S . -B _build -DCMAKE_BUILD_TYPE=RelWithDebInfo >/dev/null && cmake --build _build -j6 && ctest --test-dir _build -j6 --timeout 900`
  (must report `100% tests passed`),
* looking like something a developer could plausibly commit (a refactoring, an optimisation, a "tidy-up", a
  fix for something else) — not sabotage that is obvious at a glance, and
* needing **something specific to manifest**: one particular completion order of commands, a crash / fault /
  signal at a particular point, a multi-step history of builds and edits, an unusual but legal input, a particular
  combination of features, or two cooperating sites that each look fine alone. A change that every ordinary use
  of ninja exposes at once is not wanted.

The two changes must differ in site and mechanism from each other and from the changes made by earlier
participants, which were (do not repeat these sites/mechanisms):

{chr(10).join(prev)}

Note: `src/lexer.cc` and `src/depfile_parser.cc` are pre-generated (re2c is not installed); they are what is
compiled, so edits to `*.in.cc` have no effect — edit the generated file if you want to change a scanner.

For each change N in 1, 2 deliver in `{out}/`:

* `mN.diff` — `git diff` of the change against the worktree's HEAD (only that change; it must apply with
  `git apply` to a clean checkout);
* `mN_demo.sh` (or `mN_demo.py`) — a self-contained demonstration that uses the ninja binary at
  `{wt}/_build/ninja` (and nothing from a previous run; create and remove its own temporary directory under
  `/tmp`), exits **0** when the property holds (unmodified tree) and **non-zero** when it is broken (with the
  change applied and rebuilt). It must be deterministic: same verdict on every run. Keep it under a minute.
* `mN.json` — `{{"summary": "<file, function, what was changed and how it is disguised>", "needs": "<what is
  needed for it to manifest and why ordinary use and the unit tests do not see it>", "demo_cmd": "<exact command
  line that runs the demo, e.g. bash {out}/mN_demo.sh>"}}`

Confirm each change yourself: build the pristine tree, run the demo (exit 0), apply the change, rebuild, run
ctest (100 %), run the demo (non-zero), then `git checkout -- .` so that the worktree is clean again before
the next change and when you finish. Leave `_build` in place or remove it, as you like.

## Optional but valuable

If, while exploring, you find that the **unmodified** tree already violates the property in some scenario,
write it up as `{out}/head_violation_K.md` with an exact reproduction script. Do not "fix" it.

## Final answer

Reply with a short summary (under 200 words): for each change the file/function, the mechanism and what it needs to
manifest, and whether you confirmed it as described. Do not paste diffs.
"""
    open(out + "/TASK.md", "w").write(t)
print("ok")
