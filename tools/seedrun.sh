#!/bin/bash
# usage: seedrun.sh <patch.diff> <check id>...   -- applies the patch to /repo, runs the checks, always reverts.
set -u
diff=$1; shift
cd /repo || exit 2
if [ -n "$(git status --porcelain --untracked-files=no)" ]; then echo "repo dirty"; exit 2; fi
git apply "$diff" || { echo "apply failed"; exit 2; }
trap 'git -C /repo checkout -- .' EXIT
cd /verif
for c in "$@"; do
  tier=${TIER:-quick}
  out=$(bin/check $c --tier $tier 2>&1)
  rc=$?
  echo "== $c rc=$rc"
  echo "$out" | grep -E "^VIOLATION|^  |HARNESS" | cut -c1-300 | head -8
done
