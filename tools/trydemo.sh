#!/bin/bash
# usage: trydemo.sh <seed dir name>   -- builds pristine HEAD and HEAD+patch in a scratch worktree (/tmp/wt_demo) and runs
# the seed's demonstration against both.  Leaves the worktree for reuse; remove with: git -C /repo worktree remove --force /tmp/wt_demo
set -u
S=/verif/seeded/$1
WT=/tmp/wt_demo
if [ ! -d $WT ]; then git -C /repo worktree add --detach $WT HEAD >/dev/null 2>&1 || exit 2; fi
cd $WT && git checkout -q --detach $(git -C /repo rev-parse HEAD) && git checkout -- . || exit 2
[ -d _build ] || cmake -G Ninja -S . -B _build -DCMAKE_BUILD_TYPE=Release >/dev/null
demo=$(ls $S | grep -E "demo" | head -1)
run() { case $demo in *.py) python3 $S/$demo $WT/_build/ninja;; *) bash $S/$demo $WT/_build/ninja;; esac; }
cmake --build _build --target ninja 2>&1 | tail -1
run > /tmp/demo_pristine.log 2>&1; echo "pristine rc=$?"
git apply $S/patch.diff || { echo "apply failed"; exit 2; }
cmake --build _build --target ninja 2>&1 | tail -1
run > /tmp/demo_mutant.log 2>&1; echo "mutant rc=$?"
git checkout -- .
