#!/usr/bin/env python3
"""Regenerates the seeded-change table in DESIGN.md from seeded/*/meta.json."""
import json, os, re
V = "/verif"
rows = []
for sd in sorted(os.listdir(V + "/seeded")):
    mp = os.path.join(V, "seeded", sd, "meta.json")
    if not os.path.exists(mp): continue
    m = json.load(open(mp))
    summ = (m.get("summary") or "").replace("|", "/").replace("\n", " ")
    if len(summ) > 150: summ = summ[:147] + "..."
    caught = ", ".join(m.get("caught_by", [])) or "-"
    if m.get("status"):
        caught = "(%s)" % m["status"].split(":")[0]
    rows.append("| %s | %s | %s | %s | %s |" % (sd, m["property"], summ, caught, ", ".join(m.get("missed_by", [])) or "-"))
table = "| Seed | Property | Change | Caught by (quick tier) | Run but silent |\n|---|---|---|---|---|\n" + "\n".join(rows) + "\n"
p = V + "/DESIGN.md"
s = open(p).read()
s = re.sub(r"<!-- SEEDTABLE:BEGIN -->.*<!-- SEEDTABLE:END -->", "<!-- SEEDTABLE:BEGIN -->\n" + table + "<!-- SEEDTABLE:END -->", s, flags=re.S)
open(p, "w").write(s)
print(len(rows), "seeds")
