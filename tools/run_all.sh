#!/bin/bash
# Runs every registered check on the current tree (default quick) and prints one line per check.
tier=${1:-quick}
cd "$(dirname "$0")/.." || exit 2
for c in C01 C02 C03 C04 C05 C06 C07 C08 C09 C10 C11 C12 C13 C14 C15 C16 C17 C18 C19 C20; do
  s=$(date +%s)
  out=$(bin/check $c --tier $tier 2>&1); rc=$?
  echo "$c rc=$rc $(( $(date +%s) - s ))s $(echo "$out" | grep -c '^KNOWN-FINDING') known $(echo "$out" | grep -c '^VIOLATION') violations"
  if [ $rc -ne 0 ]; then echo "$out" | grep -E "^VIOLATION|^  |HARNESS|Traceback" | head -5; fi
done
