#!/usr/bin/env python3
"""Copy confirmed sub-agent mutants from /tmp/mut_<ID>_out into /verif/seeded/<ID>-mN/."""
import glob, json, os, shutil, sys
PFX = os.environ.get("MUT_PREFIX", "mut_")
OFF = int(os.environ.get("MUT_OFFSET", "0"))   # wave 2: m1 -> m3
for ident in sys.argv[1:]:
    outd = "/tmp/%s%s_out" % (PFX, ident)
    ver = json.load(open(outd + "/verify.json"))
    for m, r in ver.items():
        if not isinstance(r, dict) or not r.get("confirmed"):
            print("skip", ident, m, "(not confirmed)")
            continue
        dst = "/verif/seeded/%s-m%d" % (ident, int(m[1:]) + OFF)
        os.makedirs(dst, exist_ok=True)
        shutil.copy(outd + "/%s.diff" % m, dst + "/patch.diff")
        for demo in glob.glob(outd + "/%s_demo.*" % m):
            shutil.copy(demo, dst + "/" + os.path.basename(demo))
        mj = json.load(open(outd + "/%s.json" % m))
        meta = {
            "property": ident,
            "summary": mj.get("summary"),
            "needs": mj.get("needs"),
            "origin": "independent sub-agent given only the property text and a scratch worktree",
            "confirmed_by": "tools/verify_seed.py in a scratch worktree: patch applies, builds, ctest 100% (ninja_test all cases pass), "
                            "demo exits 0 twice on the pristine tree and non-zero twice on the patched tree",
            "verification": {k: r[k] for k in ("demo_pristine_rc", "demo_mutant_rc", "ctest_rc", "ninja_test_tail") if k in r},
            "demo": [os.path.basename(x) for x in glob.glob(outd + "/%s_demo.*" % m)],
        }
        old = dst + "/meta.json"
        if os.path.exists(old):
            o = json.load(open(old))
            for k in ("caught_by", "missed_by", "checks_run"):
                if k in o: meta[k] = o[k]
        json.dump(meta, open(old, "w"), indent=1)
        print("imported", dst)
