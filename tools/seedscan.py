#!/usr/bin/env python3
"""Run checks against the seeded mutants and record which check catches which change.
usage: seedscan.py [--all-checks] [seed dir names...]   (default: every seed, the check of its own property + related)"""
import json, os, subprocess, sys
VERIF = "/verif"
RELATED = {"C01": ["C01", "C02", "C03"], "C02": ["C02", "C01", "C03", "C08"], "C03": ["C03", "C01", "C02"], "C04": ["C04", "C01"],
           "C05": ["C05"], "C06": ["C06", "C01"], "C07": ["C07"], "C08": ["C08", "C02"], "C09": ["C09"], "C10": ["C10", "C01", "C09"],
           "C11": ["C11", "C01"], "C12": ["C12"], "C13": ["C13"], "C14": ["C14"], "C15": ["C15"], "C16": ["C16", "C14"],
           "C17": ["C17"], "C18": ["C18"], "C19": ["C19"], "C20": ["C20"]}
def have(c):
    return os.path.exists(os.path.join(VERIF, "checks", c.lower() + ".py"))
def main():
    args = [a for a in sys.argv[1:] if not a.startswith("--")]
    seeds = args or sorted(os.listdir(VERIF + "/seeded"))
    tier = "thorough" if "--thorough" in sys.argv else "quick"
    for sd in seeds:
        d = os.path.join(VERIF, "seeded", sd)
        if not os.path.exists(d + "/patch.diff"): continue
        meta = json.load(open(d + "/meta.json"))
        checks = [c for c in RELATED.get(meta["property"], [meta["property"]]) if have(c)]
        if subprocess.run("git -C /repo status --porcelain --untracked-files=no", shell=True, stdout=subprocess.PIPE).stdout.strip():
            print("repo dirty, abort"); sys.exit(2)
        if subprocess.call(["git", "-C", "/repo", "apply", d + "/patch.diff"]) != 0:
            print(sd, "patch does not apply"); continue
        caught, missed = [], []
        try:
            for c in checks:
                r = subprocess.run([VERIF + "/bin/check", c, "--tier", tier], stdout=subprocess.PIPE, stderr=subprocess.STDOUT, text=True, cwd=VERIF)
                v = [l for l in r.stdout.splitlines() if l.startswith("VIOLATION")]
                (caught if (r.returncode == 1 and v) else missed).append(c)
                if r.returncode not in (0, 1): print(sd, c, "rc", r.returncode, r.stdout[-300:])
        finally:
            subprocess.call(["git", "-C", "/repo", "checkout", "--", "."])
        meta["caught_by"] = caught; meta["missed_by"] = missed; meta["checks_run"] = "bin/check <id> --tier %s with the patch applied to /repo" % tier
        json.dump(meta, open(d + "/meta.json", "w"), indent=1)
        print(sd, "caught_by", caught, "missed_by", missed)
main()
