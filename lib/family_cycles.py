"""Scenarios for C17: dependency cycles (real ones must be diagnosed, acyclic graphs never rejected)."""
import itertools

from scen import Stmt, Variant, scenario, ninja_op


def dyndep_text(entries):
    """entries: [(out, [implicit outs], [implicit ins], restat)]"""
    t = "ninja_dyndep_version = 1\n"
    for out, iouts, iins, restat in entries:
        t += "build " + out
        if iouts:
            t += " | " + " ".join(iouts)
        t += ": dyndep"
        if iins:
            t += " | " + " ".join(iins)
        t += "\n"
        if restat:
            t += "  restat = 1\n"
    return t


def _target_ops(names, js=(1, 2), tools=True):
    ops = [ninja_op(j=js[-1])]
    for n in names:
        ops.append(ninja_op(targets=[n], j=js[-1]))
    if tools:
        # the tools walk the same graph without the dependency scan that diagnoses cycles: they must at
        # least terminate (no unbounded recursion, no hang), whatever they print
        from scen import tool_op
        for n in names[:2]:
            ops.append(tool_op("clean-targets", [n], dry=True))
            for t in ("inputs", "commands", "query", "multi-inputs", "compdb-targets"):
                op = tool_op("readonly", ["-t", t, n])
                op["tool_args"] = [n]
                ops.append(op)
        ops.append(tool_op("readonly", ["-t", "graph"]))
        ops.append(tool_op("readonly", ["-t", "targets", "all"]))
        ops.append(tool_op("readonly", ["-t", "targets", "depth", "0"]))
        ops.append(tool_op("readonly", ["-t", "targets", "depth", "3"]))
        ops.append(tool_op("missingdeps", ["-t", "missingdeps"]))
        ops.append(tool_op("deps", ["-t", "deps"]))
    return ops


def generated(max_inputs, kinds=("ex", "im", "oo", "val")):
    outs = ["o1", "o2", "o3"]
    names = outs + ["s"]
    per = [[]]
    for k in range(1, max_inputs + 1):
        for combo in itertools.combinations(names, k):
            for ks in itertools.product(kinds, repeat=k):
                per.append(list(zip(combo, ks)))
    n = 0
    for pick in itertools.product(per, repeat=3):
        stmts = []
        for j in range(3):
            kw = {"ex": [], "im": [], "oo": [], "val": []}
            for name, kind in pick[j]:
                kw[kind].append(name)
            stmts.append(Stmt(outs[j], **kw))
        v = Variant("v0", stmts)
        n += 1
        desc = "cyc#%d " % n + " ; ".join("%s<-%s" % (outs[j], ",".join("%s/%s" % p for p in pick[j]) or "-") for j in range(3))
        yield scenario(desc, "cycles(3;%d)" % max_inputs, [v], ops=_target_ops(outs), init=[], depth=1, tags=["cycle-gen"])


def templates(tier="quick"):
    T = []

    def add(name, variants, targets, files=None, extra_ops=(), init=(), depth=1, tags=()):
        ops = list(extra_ops) + _target_ops(targets)
        T.append(scenario("c17/" + name, "c17", variants, files=files, ops=ops, init=list(init), depth=depth,
                          tags=["cycle"] + list(tags)))

    add("self_loop", [Variant("v0", [Stmt("a", ex=["a", "s"])])], ["a"])
    for kind in ("ex", "im", "oo"):
        add("two_cycle_" + kind, [Variant("v0", [Stmt("a", **{kind: ["b"]}), Stmt("b", ex=["a"]), Stmt("x", ex=["s"])])], ["a", "b", "x"])
    add("three_cycle", [Variant("v0", [Stmt("a", ex=["c"]), Stmt("b", im=["a"]), Stmt("c", oo=["b"]), Stmt("top", ex=["a", "s"])])],
        ["a", "b", "c", "top"])
    add("multi_output_cycle", [Variant("v0", [Stmt(["a", "b"], ex=["c"]), Stmt("c", ex=["a"]), Stmt("d", ex=["b"])])], ["a", "b", "c", "d"])
    add("validation_backref_acyclic", [Variant("v0", [Stmt("out", ex=["src"], val=["chk"]), Stmt("chk", ex=["out"]),
                                                    Stmt("top", ex=["out"], val=["top2"]), Stmt("top2", ex=["top", "chk"])])],
        ["out", "chk", "top", "top2"])
    add("cycle_inside_validation", [Variant("v0", [Stmt("out", ex=["src"], val=["c1"]), Stmt("c1", ex=["c2"]), Stmt("c2", ex=["c1"])])],
        ["out", "c1"])
    # legacy self-referencing phony (tolerated) next to a real cycle through a later / earlier input
    add("phony_selfref_then_cycle", [Variant("v0", [Stmt("a", ex=["a", "b"], phony=True), Stmt("b", ex=["a"])])], ["a", "b"])
    add("phony_cycle_then_selfref", [Variant("v0", [Stmt("a", ex=["b", "a"], phony=True), Stmt("b", ex=["a"])])], ["a", "b"])
    add("phony_selfref_acyclic", [Variant("v0", [Stmt("a", ex=["a", "b"], oo=["a"], phony=True), Stmt("b", ex=["s"]), Stmt("c", ex=["a"])])], ["a", "c"])
    add("phony_cycle", [Variant("v0", [Stmt("a", ex=["b"], phony=True), Stmt("b", ex=["a"], phony=True), Stmt("x", ex=["a"])])], ["a", "x"])

    # cycle closed by a discovered dependency: first build records it, then the manifest gains a
    # statement that produces the header from the object
    for kind, kw in (("depfile", {"depfile": True}), ("gcc", {"deps": "gcc"}), ("msvc", {"deps": "msvc"})):
        v0 = Variant("v0", [Stmt("obj", ex=["src"], hidden=["hdr"], **kw), Stmt("exe", ex=["obj"])])
        v1 = Variant("v1", [Stmt("obj", ex=["src"], hidden=["hdr"], **kw), Stmt("exe", ex=["obj"]), Stmt("hdr", ex=["obj"])])
        ops = [ninja_op(j=1), {"op": "variant", "to": 1, "label": "manifest:=v1 (hdr now produced from obj)"},
               {"op": "edit", "path": "src", "label": "edit src"}, {"op": "rm", "path": "obj", "label": "rm obj"}]
        add("discovered_" + kind, [v0, v1], ["obj", "exe", "hdr"], extra_ops=ops, init=[0, 1], depth=2, tags=["discovered"])

        # ... and with the object's command line changed in the same edit so that it no longer reads the header: the recorded
        # list is what *another* command reported, the project is acyclic and has to build (the only cycle is in stale data)
        v2 = Variant("v2", [Stmt("obj", ex=["src"], ver=1, **kw), Stmt("exe", ex=["obj"]), Stmt("hdr", ex=["obj"])])
        ops2 = [ninja_op(j=1), {"op": "variant", "to": 1, "label": "manifest:=v2 (hdr now produced from obj, obj's command no longer reads it)"},
                {"op": "edit", "path": "src", "label": "edit src"}]
        add("obsolete_discovered_" + kind, [v0, v2], ["obj", "exe", "hdr"], extra_ops=ops2, init=[0, 1], depth=2, tags=["discovered"])

    # a depfile on disk that names its own target among the dependencies (plain depfile mode: read by every scan of a clean
    # statement), alone and next to an -MP style line of the same name
    v0 = Variant("v0", [Stmt("obj", ex=["src"], hidden=["hdr"], depfile=True), Stmt("exe", ex=["obj"])])
    for nm, text in (("plain", "obj: src obj hdr\n"), ("with_a_target_line_of_its_own", "obj: src hdr obj\nhdr:\n")):
        ops = [ninja_op(j=1), {"op": "write", "path": "obj.d", "content": text, "label": "obj.d:=" + repr(text)}]
        add("depfile_names_its_own_target_" + nm, [v0], ["obj", "exe"], extra_ops=ops, init=[0, 1], depth=1, tags=["discovered"])

    # deps = gcc: the tool's depfile names an implicit output of the statement itself (`out: side in` for `build out | side`):
    # the record closes a cycle that the next build has to report
    o = Stmt("obj", iouts=["side"], ex=["src"], hidden=["hdr", "hdr2"], deps="gcc")
    o.dep_spell = {"hdr2": "side"}
    add("recorded_dependency_is_an_output_of_the_statement_itself", [Variant("v0", [o, Stmt("exe", ex=["obj"])])], ["obj", "exe"],
        extra_ops=[ninja_op(j=1)], init=[0], depth=1, tags=["discovered"])

    # dyndep-closed cycle: the dyndep file adds an input that depends on the statement itself
    dd = dyndep_text([("out", [], ["circ"], False)])
    stm = [Stmt("dd", ex=["dd.in"], copy=True), Stmt("out", ex=["in"], oo=["dd"], dyndep="dd", extra_reads=["circ"]),
           Stmt("circ", ex=["out"])]
    add("dyndep_cycle_midbuild", [Variant("v0", stm)], ["out", "circ"], files={"dd.in": dd})
    add("dyndep_cycle_present", [Variant("v0", stm)], ["out", "circ"], files={"dd.in": dd, "dd": dd})
    # the dyndep file names the implicit output it adds as an implicit input of the same statement (a one-node cycle)
    ddself = dyndep_text([("out", ["out.mod"], ["out.mod"], False)])
    stself = [Stmt("dd", ex=["dd.in"], copy=True), Stmt("out", ex=["in"], oo=["dd"], dyndep="dd", extra_outs=["out.mod"], extra_reads=["out.mod"]),
              Stmt("top", ex=["out"])]
    add("dyndep_output_is_its_own_input_midbuild", [Variant("v0", stself)], ["out", "top"], files={"dd.in": ddself})
    add("dyndep_output_is_its_own_input_present", [Variant("v0", stself)], ["out", "top"], files={"dd.in": ddself, "dd": ddself})
    # a dyndep file made in the build turns a file that a *running* statement reads into an output of the statement that
    # waits for that one (out | x, mid: x, out: mid): diagnosed when the file is loaded while mid runs (when mid has finished
    # by then it is the known finding F17)
    ddrun = dyndep_text([("out", ["x"], [], False)])
    strun = [Stmt("dd", ex=["dd.in"], copy=True), Stmt("mid", ex=["x"]), Stmt("out", ex=["in", "mid"], oo=["dd"], dyndep="dd", extra_outs=["x"]),
             Stmt("top", ex=["out"])]
    add("dyndep_output_cycle_through_a_running_statement", [Variant("v0", strun)], ["top"], files={"dd.in": ddrun, "x": "x-v0\n"})
    # acyclic dyndep control
    dd2 = dyndep_text([("out", [], ["extra"], False)])
    stm2 = [Stmt("dd", ex=["dd.in"], copy=True), Stmt("out", ex=["in"], oo=["dd"], dyndep="dd", extra_reads=["extra"]),
            Stmt("extra", ex=["s"]), Stmt("after", ex=["out"])]
    add("dyndep_acyclic", [Variant("v0", stm2)], ["out", "after"], files={"dd.in": dd2})

    # dyndep-closed cycle discovered when a *phony* statement completes: the dyndep file is up to date but its
    # producer waits, order-only, on a phony alias of something dirty; finishing the alias loads the file
    def stm4(circ_in):
        return [Stmt("prep", ex=["p.in"]), Stmt("al", ex=["prep"], phony=True), Stmt("dd", ex=["dd.in"], oo=["al"], copy=True),
                Stmt("out", ex=["in"], oo=["dd"], dyndep="dd", extra_reads=["circ"]), Stmt("circ", ex=[circ_in])]
    ops4 = [ninja_op(j=1), {"op": "variant", "to": 1, "label": "manifest:=v1 (circ now produced from out)"},
            {"op": "rm", "path": "prep", "label": "rm prep"}, {"op": "edit", "path": "p.in", "label": "edit p.in"}]
    # a first build of the acyclic variant records dd as up to date; then the manifest closes the cycle and the alias gets work
    add("dyndep_cycle_after_phony", [Variant("v0", stm4("s")), Variant("v1", stm4("out"))], ["out", "circ"], files={"dd.in": dd},
        extra_ops=ops4, init=[0, 1], depth=2, tags=["dyndep", "phony"])
    # cycle closed by a recorded dependency of a statement that also has implicit inputs of its own in the manifest
    for kind, kw in (("gcc", {"deps": "gcc"}), ("msvc", {"deps": "msvc"}), ("depfile", {"depfile": True})):
        for nimp in (1, 2):
            imps = ["cfg%d.h" % i for i in range(nimp)]
            v0 = Variant("v0", [Stmt("obj", ex=["src"], im=imps, hidden=["hdr"], **kw), Stmt("exe", ex=["obj"])])
            v1 = Variant("v1", [Stmt("obj", ex=["src"], im=imps, hidden=["hdr"], **kw), Stmt("exe", ex=["obj"]), Stmt("hdr", ex=["obj"])])
            ops5 = [ninja_op(j=1), {"op": "variant", "to": 1, "label": "manifest:=v1 (hdr now produced from obj)"},
                    {"op": "edit", "path": "src", "label": "edit src"}]
            add("discovered_%s_with_%d_implicit" % (kind, nimp), [v0, v1], ["obj", "exe", "hdr"], extra_ops=ops5, init=[0, 1], depth=2,
                tags=["discovered"])

    # dyndep supplies an implicit OUTPUT that another statement, scanned earlier through a different path, had already
    # seen as a source leaf: whether the cycle n -> z -> n is found must not depend on the entry point
    dd5 = dyndep_text([("y", ["n"], [], False)])
    stm5 = [Stmt("z", ex=["n"]), Stmt("y", ex=["z"], oo=["dd"], dyndep="dd", extra_outs=["n"]), Stmt("top", ex=["z", "y"])]
    add("dyndep_output_on_scanned_leaf_present", [Variant("v0", stm5)], ["top", "y", "z"], files={"dd": dd5}, tags=["dyndep"])
    add("dyndep_output_on_scanned_leaf_present_n_exists", [Variant("v0", stm5)], ["top", "y", "z"], files={"dd": dd5, "n": "pre-existing\n"},
        tags=["dyndep"])
    # ... and the consumer z is up to date (built while the dyndep file did not yet claim n): nothing stops y from running
    add("dyndep_output_on_scanned_leaf_consumer_up_to_date", [Variant("v0", stm5)], ["top", "y", "z"],
        files={"dd": dyndep_text([("y", [], [], False)]), "n": "pre-existing\n"},
        extra_ops=[ninja_op(targets=["z"], j=1), {"op": "write", "path": "dd", "content": dd5, "label": "dd:=n is an output of y"}],
        init=[0, 1], depth=2, tags=["dyndep"])
    stm5b = [Stmt("dd", ex=["dd.in"], copy=True)] + stm5
    add("dyndep_output_on_scanned_leaf_midbuild", [Variant("v0", stm5b)], ["top", "y", "z"], files={"dd.in": dd5, "n": "pre-existing\n"},
        tags=["dyndep"])

    # the cycle is among what the manifest itself is made from: it is met by the step that brings build.ninja up to date,
    # whatever is requested
    mv = Variant("m0", [Stmt("build.ninja", ex=["build.ninja.in"], im=["cfg"], generator=True, copy=True),
                        Stmt("cfg", ex=["tool"]), Stmt("tool", ex=["cfg"]), Stmt("a", ex=["s"])], defaults=["a"])
    add("manifest_made_from_a_cycle", [mv], ["a", "cfg"], files={"build.ninja.in": mv.manifest()}, tags=["manifest-regen", "generator"])

    # the dyndep file spells the cycle-closing input the way generated files do (./circ, zz/../circ)
    for spn, sp in (("dot", "./circ"), ("dotdot", "zz/../circ")):
        dds = dyndep_text([("out", [], [sp], False)])
        add("dyndep_cycle_present_spelled_" + spn, [Variant("v0", stm)], ["out", "circ"], files={"dd.in": dds, "dd": dds}, tags=["dyndep", "spelling"])
        add("dyndep_cycle_midbuild_spelled_" + spn, [Variant("v0", stm)], ["out", "circ"], files={"dd.in": dds}, tags=["dyndep", "spelling"])

    # the manifest is regenerated by a restat generator statement that also writes a depfile; the depfile names x, and x
    # is made from build.ninja: the regeneration leaves the manifest untouched, the build proper must still see the cycle
    def regen(name):
        return Variant(name, [Stmt("build.ninja", ex=["build.ninja.in"], hidden=["x"], depfile=True, generator=True, restat=True, copy=True),
                              Stmt("x", ex=["build.ninja"]), Stmt("y", ex=["s"])], defaults=["y"])
    rv = regen("m0")
    rops = [{"op": "touch", "path": "build.ninja.in", "label": "touch build.ninja.in"}]
    T.append(scenario("c17/regenerated_manifest_depfile_closes_cycle", "c17", [rv], files={"build.ninja.in": rv.manifest(), "x": "old\n"},
                      ops=rops + [ninja_op(targets=["x"], j=1), ninja_op(targets=["y"], j=1), ninja_op(j=2, targets=["x", "y"])], init=[0], depth=2,
                      tags=["cycle", "manifest-regen", "discovered"]))

    # tools that walk *recorded* dependencies (missingdeps, deps) on a graph whose cycle lies below the statement that
    # recorded them and does not contain the generator of the recorded header
    for kind, kw in (("gcc", {"deps": "gcc"}), ("msvc", {"deps": "msvc"})):
        base = [Stmt("gen.h", ex=["g.in"]), Stmt("obj", ex=["src"], oo=["other"], hidden=["gen.h"], **kw)]
        v0 = Variant("v0", base + [Stmt("other", ex=["s"])])
        v1 = Variant("v1", base + [Stmt("other", ex=["cyc1"]), Stmt("cyc1", ex=["cyc2"]), Stmt("cyc2", ex=["cyc1"])])
        ops6 = [ninja_op(j=1), {"op": "variant", "to": 1, "label": "manifest:=v1 (a cycle below obj's order-only input)"}]
        add("recorded_deps_above_cycle_" + kind, [v0, v1], ["obj", "other"], extra_ops=ops6, init=[0, 1], depth=1, tags=["discovered", "tools"])

    # dyndep-closed cycle through an implicit OUTPUT: out gains output circ, and out's own input depends on circ
    dd3 = dyndep_text([("out", ["circ"], [], False)])
    stm3 = [Stmt("dd", ex=["dd.in"], copy=True), Stmt("in", ex=["circ"]),
            Stmt("out", ex=["in"], oo=["dd"], dyndep="dd", extra_outs=["circ"])]
    # (touched, not edited: an edit would make the dyndep text invalid, and an invalid file supplies no information)
    ops3 = [{"op": "touch", "path": "dd.in", "label": "touch dd.in"}, {"op": "rm", "path": "dd", "label": "rm dd"},
            {"op": "rm", "path": "out", "label": "rm out"}]
    add("dyndep_output_cycle_midbuild", [Variant("v0", stm3)], ["out", "in"], files={"dd.in": dd3, "circ": "pre-existing\n"},
        extra_ops=ops3, depth=3, tags=["dyndep"])
    add("dyndep_output_cycle_present", [Variant("v0", stm3)], ["out", "in"], files={"dd.in": dd3, "dd": dd3, "circ": "pre-existing\n"},
        extra_ops=ops3, depth=3, tags=["dyndep"])
    return T
