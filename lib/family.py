"""Generated small-graph families G(n; i, K) (DESIGN.md 3.1): every manifest with n command
statements in topological order over the sources {s, h}, each statement taking 1..i inputs among
the sources and earlier outputs, every input being explicit / implicit / order-only / hidden
(hidden = read but reported only through the depfile/deps mechanism; only for sources and only on
statements that report them), each statement's kind drawn from K."""
import itertools

from scen import Stmt, Variant, scenario, standard_ops, ninja_op

KINDS = {
    "plain": {},
    "restat": {"restat": True},
    "depfile": {"depfile": True},
    "gcc": {"deps": "gcc"},
    "msvc": {"deps": "msvc"},
    "generator": {"generator": True},
    "pool1": {"pool": "one"},
    "console": {"pool": "console"},
}
REPORTING = ("depfile", "gcc", "msvc")
SOURCES = ["s", "h"]


def input_choices(names, max_inputs, kind, must_include=None):
    """All non-empty lists of (name, input-kind) over `names` with at most max_inputs entries."""
    out = []
    for k in range(1, max_inputs + 1):
        for combo in itertools.combinations(names, k):
            if must_include is not None and must_include not in combo:
                continue
            per = []
            for n in combo:
                ks = ["ex", "im", "oo"]
                if kind in REPORTING and n in SOURCES:
                    ks.append("hid")
                per.append([(n, x) for x in ks])
            for pick in itertools.product(*per):
                out.append(list(pick))
    return out


def make_stmt(out, inputs, kind, extra_outs=()):
    kw = dict(KINDS[kind])
    ex = [n for n, k in inputs if k == "ex"]
    im = [n for n, k in inputs if k == "im"]
    oo = [n for n, k in inputs if k == "oo"]
    hid = [n for n, k in inputs if k == "hid"]
    outs = [out] + list(extra_outs)
    return Stmt(outs, ex=ex, im=im, oo=oo, hidden=hid, **kw)


def canonical(sig):
    """Symmetry: manifests equal up to swapping the two sources are generated once."""
    def swap(sig):
        m = {"s": "h", "h": "s"}
        return tuple((k, tuple(sorted((m.get(n, n), ik) for n, ik in ins))) for k, ins in sig)
    norm = tuple((k, tuple(sorted(ins))) for k, ins in sig)
    return min(norm, swap(norm)) == norm


def family(n, max_inputs, kinds, at_most_nonplain=None, tier_depth=3, chain_only=True, name="G"):
    """Yields scenario dicts."""
    outs = ["o%d" % (i + 1) for i in range(n)]
    count = 0
    for ks in itertools.product(kinds, repeat=n):
        if at_most_nonplain is not None and sum(1 for k in ks if k != "plain") > at_most_nonplain:
            continue
        per_stmt = []
        for j, k in enumerate(ks):
            names = SOURCES + outs[:j]
            # every statement but the first must use the previous output (keeps all n statements in
            # the closure of the last output; other shapes are smaller families)
            must = outs[j - 1] if (j > 0 and chain_only) else None
            per_stmt.append(input_choices(names, max_inputs, k, must))
        for pick in itertools.product(*per_stmt):
            sig = tuple((ks[j], tuple(pick[j])) for j in range(n))
            if not canonical(sig):
                continue
            stmts = [make_stmt(outs[j], pick[j], ks[j]) for j in range(n)]
            pools = {"one": 1} if "pool1" in ks else {}
            v = Variant("v0", stmts, pools=pools)
            files = {}
            ops = standard_ops([v], files, js=(1, 2), touch=("restat" in ks), fault_modes=({"code": 1, "touch": True},),
                               max_fault_stmts=n, edits_during=False)
            build_idx = next(i for i, o in enumerate(ops) if o["op"] == "ninja")
            count += 1
            desc = "%s(%d;%d)#%d %s" % (name, n, max_inputs, count,
                                        " ; ".join("%s<-%s:%s" % (outs[j], ",".join("%s/%s" % p for p in pick[j]), ks[j])
                                                   for j in range(n)))
            yield scenario(desc, "%s(%d;%d;%s)" % (name, n, max_inputs, "+".join(kinds)), [v], files=files, ops=ops,
                           init=[build_idx], depth=tier_depth, tags=sorted(set(ks)))
