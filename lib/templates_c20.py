"""Scenarios for C20: progress and command output are reported once, whole and consistent."""
from scen import Stmt, Variant, scenario, ninja_op, sources_of
from family_cycles import dyndep_text

OUTS = {
    "line": "<<%s>> one line\n",
    "nonl": "<<%s>> no trailing newline",
    "big": "<<%s>> " + "x" * 5000 + " end-of-%s\n",
    "nul": "<<%s>> a\x00b\x00c\n",
    "ansi": "<<%s>> \x1b[31mred\x1b[0m plain\n",
    "esc": "<<%s>> bare \x1b escape\n",
    # control sequences whose final byte is not a letter (ECMA-48: any of 0x40-0x7E ends a CSI): function key, insert character
    "csi": "<<%s>> before\x1b[2~ 12345 + 6789 = 19134\n<<%s>> error: real text\x1b[1@X yz\n",
    "multi": "<<%s>> l1\n<<%s>> l2\n",
    "blank": "<<%s>> l1\n\n<<%s>> l3 after an empty line\n\n",
    "none": None,
}


def P(kind, name):
    t = OUTS[kind]
    if t is None:
        return None
    return t.replace("%s", name)


def _ops(v, js=(1, 2, 3), faults=(), extra=(), quiet=False):
    ops = []
    for s in sources_of([v]):
        ops.append({"op": "edit", "path": s, "label": "edit " + s})
        ops.append({"op": "touch", "path": s, "label": "touch " + s})
    ops += list(extra)
    nb = len(ops)
    for j in js:
        ops.append(ninja_op(j=j))
    ops.append(ninja_op(j=js[-1], env={"NINJA_STATUS": "%s/%f/%t/%r/%u|"}, label="ninja -j%d NINJA_STATUS=%%s/%%f/%%t/%%r/%%u|" % js[-1]))
    ops.append(ninja_op(j=js[-1], flags=["-v"], label="ninja -j%d -v" % js[-1]))
    ops.append(ninja_op(j=js[-1], flags=["--status", "$started/$finished/$total $description"], label="ninja --status"))
    if quiet:
        ops.append(ninja_op(j=js[-1], flags=["--quiet"], label="ninja -j%d --quiet" % js[-1]))
        for f in faults[:1]:
            ops.append(ninja_op(j=js[-1], k=0, faults=f, flags=["--quiet"], label="ninja -j%d -k0 --quiet faults=%s" % (js[-1], "+".join(sorted(f)))))
    # stdout is a terminal, 50 columns wide: status lines are elided and overwrite each other, colours pass through
    tty = {"TERM": "xterm", "VERIF_TTY_COLS": "50"}
    ops.append(ninja_op(j=js[-1], env=tty, label="ninja -j%d [on a terminal]" % js[-1]))
    ops.append(ninja_op(j=1, env=tty, flags=["-v"], label="ninja -j1 -v [on a terminal]"))
    for f in faults[:1]:
        ops.append(ninja_op(j=js[-1], k=0, faults=f, flags=["-v", "--status", "[$finished/$total] "],
                            label="ninja -j%d -k0 -v --status '[$finished/$total] ' faults=%s" % (js[-1], "+".join(sorted(f)))))
    for f in faults:
        ops.append(ninja_op(j=js[-1], k=0, faults=f))
        ops.append(ninja_op(j=js[-1], k=1, faults=f))
        ops.append(ninja_op(j=js[-1], k=0, faults=f, env=tty, label="ninja -j%d -k0 faults=%s [on a terminal]" % (js[-1], "+".join(sorted(f)))))
    return ops, nb


def templates(tier="quick"):
    T = []
    d = 4 if tier == "quick" else 5

    def add(name, v, faults=(), js=(1, 2, 3), extra=(), files=None, tags=(), variants=None, quiet=False):
        ops, nb = _ops(v, js=js, faults=faults, extra=extra, quiet=quiet)
        vs = variants or [v]
        T.append(scenario("c20/%s/fresh" % name, "c20", vs, files=files, ops=ops, init=[], depth=1, tags=["output", "fresh"] + list(tags)))
        # (depth 5 of the thorough tier exceeds the memory budget for the three projects with the most outcomes per build)
        dd = min(d, 4) if name in ("console_bytes", "console_mix", "parallel_b") else d
        T.append(scenario("c20/%s/built" % name, "c20", vs, files=files, ops=ops, init=[nb], depth=dd, tags=["output", "built"] + list(tags)))

    kinds = ["line", "nonl", "big", "nul", "ansi", "esc", "multi", "none", "csi"]
    # parallel statements with every kind of output
    st = [Stmt("p%d" % i, ex=["s"] if i % 2 else ["t"], prints=P(k, "p%d" % i), desc="DESC p%d" % i if i % 3 == 0 else None)
          for i, k in enumerate(kinds[:4])]
    st.append(Stmt("link", ex=[s.id for s in st], prints=P("line", "link")))
    add("parallel_a", Variant("v0", st), faults=[{"p1": {"code": 3}}, {"p0": {"code": 1}, "p2": {"code": 2, "touch": True}}])
    st = [Stmt("q%d" % i, ex=["s"] if i % 2 else ["t"], prints=P(k, "q%d" % i)) for i, k in enumerate(kinds[4:])]
    st.append(Stmt("link", ex=[s.id for s in st], prints=P("nonl", "link")))
    add("parallel_b", Variant("v0", st), faults=[{"q0": {"code": 9}}, {"q4": {"code": 4}}])
    # a statement that cannot be started (its response file's directory is a file) while others run
    st = [Stmt("a", ex=["s"], prints=P("line", "a")), Stmt("b", ex=["t"], rsp=("blocker/b.rsp", "x"), prints=P("line", "b")),
          Stmt("c", ex=["t"], prints=P("multi", "c")), Stmt("top", ex=["a", "b", "c"], prints=P("line", "top"))]
    add("start_fails", Variant("v0", st), js=(1, 3), files={"blocker": "a file, not a directory\n"})
    # ... and while a console command owns the terminal (what was held back is shown when that command has ended)
    st = [Stmt("a", ex=["s"], prints=P("line", "a")), Stmt("b", ex=["a"], rsp=("blocker/b.rsp", "x"), prints=P("line", "b")),
          Stmt("c1", ex=["t"], pool="console", prints=P("multi", "c1")), Stmt("n", ex=["t"], prints=P("line", "n")),
          Stmt("top", ex=["b", "c1", "n"], prints=P("line", "top"))]
    add("start_fails_console", Variant("v0", st), js=(3,), files={"blocker": "a file, not a directory\n"})
    # statements with deps whose failing tool leaves an unparsable depfile behind (exit code 3, output)
    st = [Stmt("o1", ex=["s"], hidden=["h"], deps="gcc", prints=P("line", "o1")), Stmt("o2", ex=["t"], hidden=["h"], depfile=True, prints=P("multi", "o2")),
          Stmt("link", ex=["o1", "o2"], prints=P("line", "link"))]
    add("deps_failing_half_way", Variant("v0", st), js=(1, 2), faults=[{"o1": {"code": 3, "baddep": True}}, {"o2": {"code": 4, "baddep": True}},
                                                                        {"o1": {"code": 1, "baddep": True}, "o2": {"code": 7}}])
    # failing commands with more outputs than the first: a second explicit one, implicit ones, one that a dyndep file adds --
    # the FAILED line names what the command was to produce
    from family_cycles import dyndep_text
    st = [Stmt(["m1", "m2"], ex=["s"], prints=P("line", "m1")), Stmt("i1", iouts=["i1.a", "i1.b"], ex=["t"], prints=P("multi", "i1")),
          Stmt("d1", ex=["s"], oo=["dd"], dyndep="dd", extra_outs=["d1.mod"], prints=P("line", "d1")),
          Stmt("link", ex=["m1", "i1", "d1"], prints=P("line", "link"))]
    add("failing_with_several_outputs", Variant("v0", st), js=(1, 3), files={"dd": dyndep_text([("d1", ["d1.mod"], [], False)])},
        faults=[{"m1": {"code": 2}}, {"i1": {"code": 3}}, {"d1": {"code": 4}}, {"m1": {"code": 1}, "i1": {"code": 1, "touch": True}, "d1": {"code": 5}}])
    # tools whose output ninja filters (deps = msvc: the /showIncludes notes are taken out, everything else is the tool's own
    # output -- empty lines included)
    st = [Stmt("m1", ex=["s"], hidden=["inc.h"], deps="msvc", prints=P("blank", "m1")), Stmt("m2", ex=["t"], hidden=["inc.h", "inc2.h"], deps="msvc", prints=P("multi", "m2")),
          Stmt("m3", ex=["t"], hidden=["inc.h"], deps="msvc", prints=P("nonl", "m3")), Stmt("link", ex=["m1", "m2", "m3"], prints=P("blank", "link"))]
    add("msvc_filtered_output", Variant("v0", st), js=(1, 3), faults=[{"m1": {"code": 2}}, {"m2": {"code": 1}, "m3": {"code": 1}}])
    # several statements described by the same text, under a status format without counters: one line each all the same
    st = [Stmt("s%d" % i, ex=["s"] if i % 2 else ["t"], prints=None, desc="STEP") for i in range(4)]
    st.append(Stmt("link", ex=[x.id for x in st], prints=P("line", "link"), desc="STEP"))
    sv = Variant("v0", st)
    sops, snb = _ops(sv, js=(1, 3))
    sops.append(ninja_op(j=1, env={"NINJA_STATUS": ">> "}, label="ninja -j1 NINJA_STATUS='>> '"))
    sops.append(ninja_op(j=3, env={"NINJA_STATUS": ">> "}, label="ninja -j3 NINJA_STATUS='>> '"))
    T.append(scenario("c20/same_description/fresh", "c20", [sv], ops=sops, init=[], depth=1, tags=["output", "fresh"]))
    T.append(scenario("c20/same_description/built", "c20", [sv], ops=sops, init=[snb], depth=min(d, 3), tags=["output", "built"]))
    # restat pruning: totals shrink
    st = [Stmt("r", ex=["s"], restat=True, prints=P("line", "r")), Stmt("a", ex=["r"], prints=P("line", "a")),
          Stmt("b", ex=["a"], prints=P("multi", "b")), Stmt("x", ex=["t"], prints=P("line", "x"))]
    add("restat_prune", Variant("v0", st), js=(1, 2))
    # ... and with phony aliases of the pruned outputs among the requested targets
    st = [Stmt("r", ex=["s"], restat=True, prints=P("line", "r")), Stmt("a", ex=["r"], prints=P("line", "a")),
          Stmt("ra", ex=["r"], phony=True), Stmt("aa", ex=["a", "ra"], phony=True),
          Stmt("x", ex=["t"], prints=P("line", "x")), Stmt("y", ex=["x"], prints=P("line", "y"))]
    add("restat_prune_phony", Variant("v0", st, defaults=["aa", "y"]), js=(1, 2))
    # console pool with ordinary commands finishing meanwhile
    st = [Stmt("c1", ex=["s"], pool="console", prints=P("multi", "c1")), Stmt("n1", ex=["s"], prints=P("line", "n1")),
          Stmt("n2", ex=["t"], prints=P("nonl", "n2")), Stmt("c2", ex=["t"], pool="console", prints=P("line", "c2")),
          Stmt("n3", ex=["t"], prints=None), Stmt("top", ex=["c1", "n1", "n2", "c2", "n3"], prints=P("line", "top"))]
    add("console_mix", Variant("v0", st), js=(2, 3), faults=[{"n1": {"code": 1}}, {"c1": {"code": 1}}], quiet=True)
    # every kind of output held back while a console command owns the terminal (NUL bytes, escapes, 5 KB, no newline)
    st = [Stmt("c1", ex=["s"], pool="console", prints=P("line", "c1")), Stmt("n1", ex=["s"], prints=P("nul", "n1")),
          Stmt("n2", ex=["t"], prints=P("big", "n2")), Stmt("n3", ex=["t"], prints=P("ansi", "n3")),
          Stmt("n4", ex=["s"], prints=P("esc", "n4")), Stmt("top", ex=["c1", "n1", "n2", "n3", "n4"], prints=P("nul", "top"))]
    add("console_bytes", Variant("v0", st), js=(3,), faults=[{"n1": {"code": 1}}, {"n2": {"code": 2}, "n3": {"code": 3}}])
    # the build is stopped by an error found while *finishing* a command (a dyndep file built just now does not parse)
    # while a console command runs and finished commands' output is being held back
    st = [Stmt("c1", ex=["s"], pool="console", prints=P("line", "c1")), Stmt("b", ex=["t"], prints=P("line", "b")),
          Stmt("dd", ex=["dd.in"], copy=True, prints=P("multi", "dd")),
          Stmt("d", ex=["in"], oo=["dd"], dyndep="dd", prints=P("line", "d")), Stmt("top", ex=["c1", "b", "d"], prints=P("line", "top"))]
    add("console_finish_error", Variant("v0", st), js=(3, 4), files={"dd.in": "ninja_dyndep_version = 1\nbuild d: dyndep |\n  garbage\n"},
        tags=["no-conformance"])   # an aborting ninja abandons real processes at a moment no orchestrator controls
    # dyndep additions: totals grow mid-build
    dd = dyndep_text([("out", [], ["x"], False)])
    st = [Stmt("dd", ex=["dd.in"], copy=True), Stmt("x", ex=["s"], prints=P("line", "x")),
          Stmt("out", ex=["in"], oo=["dd"], dyndep="dd", extra_reads=["x"], prints=P("line", "out")),
          Stmt("top", ex=["out"], prints=P("line", "top"))]
    add("dyndep_grow", Variant("v0", st), js=(1, 2), files={"dd.in": dd})
    # manifest regeneration in the same invocation
    def regen(name, ver):
        return Variant(name, [Stmt("build.ninja", ex=["build.ninja.in"], generator=True, copy=True),
                              Stmt("a", ex=["s"], ver=ver, prints=P("line", "a")), Stmt("b", ex=["a"], prints=P("line", "b"))],
                       defaults=["b"])
    va, vb = regen("m0", 0), regen("m1", 1)
    extra = [{"op": "write", "path": "build.ninja.in", "content": vb.manifest(), "label": "build.ninja.in:=m1"},
             {"op": "write", "path": "build.ninja.in", "content": va.manifest(), "label": "build.ninja.in:=m0"}]
    ops, nb = _ops(va, js=(1, 2), extra=extra)
    files = {"build.ninja.in": va.manifest(), "s": "s-v0\n"}
    T.append(scenario("c20/manifest_regen/built", "c20", [va, vb], files=files, ops=ops, init=[nb], depth=d,
                      tags=["output", "manifest-regen"]))
    # ... whose prerequisites include a restat statement that prunes another one while the manifest is brought up to date (the
    # totals of that first build shrink; no statement has a recorded duration yet at that point)
    def regen2(name, ver):
        return Variant(name, [Stmt("r", ex=["t"], restat=True, prints=P("line", "r")), Stmt("mid", ex=["r"], prints=P("line", "mid")),
                              Stmt("x", ex=["s"], prints=P("none", "x")),
                              Stmt("build.ninja", ex=["build.ninja.in"], im=["mid", "x"], generator=True, copy=True),
                              Stmt("a", ex=["u"], ver=ver, prints=P("line", "a"))], defaults=["a"])
    va, vb = regen2("m0", 0), regen2("m1", 1)
    extra = [{"op": "write", "path": "build.ninja.in", "content": vb.manifest(), "label": "build.ninja.in:=m1"},
             {"op": "touch", "path": "t", "label": "touch t"}]
    ops, nb = _ops(va, js=(1, 2), extra=extra)
    files = {"build.ninja.in": va.manifest(), "s": "s-v0\n", "t": "t-v0\n", "u": "u-v0\n"}
    T.append(scenario("c20/manifest_regen_restat_prune/built", "c20", [va, vb], files=files, ops=ops, init=[nb], depth=min(d, 4),
                      tags=["output", "manifest-regen", "restat"]))
    return T
