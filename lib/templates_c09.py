"""Engine-A scenarios for the process-level part of C09: what ninja invocations do to an existing deps
log -- -t recompact, the automatic recompaction of a log with a long history (`dupdeps` appends 1100
more copies of one record), statements that stop using deps or leave the manifest, outputs supplied
through dyndep information."""
from family_cycles import dyndep_text
from scen import Stmt, Variant, scenario, ninja_op, tool_op


def _tool(kind, args=()):
    return dict(tool_op(kind, ["-t", kind] + list(args)), tool_args=list(args))


def templates(tier="quick"):
    T = []
    d = 3 if tier == "quick" else 4
    v0 = Variant("v0", [Stmt("a.o", ex=["a.c"], hidden=["h1"], deps="gcc"), Stmt("b.o", ex=["b.c"], hidden=["h1", "h2"], deps="gcc"),
                        Stmt("m.o", ex=["m.c"], hidden=["h2"], deps="msvc"), Stmt("exe", ex=["a.o", "b.o", "m.o"])])
    # b.o stops using deps (plain depfile instead), m.o leaves the manifest
    v1 = Variant("v1", [Stmt("a.o", ex=["a.c"], hidden=["h1"], deps="gcc"), Stmt("b.o", ex=["b.c"], hidden=["h1", "h2"], depfile=True),
                        Stmt("exe", ex=["a.o", "b.o"])])
    ops = [
        {"op": "edit", "path": "a.c", "label": "edit a.c"},
        {"op": "edit", "path": "h2", "label": "edit h2"},
        {"op": "rm", "path": "b.o", "label": "rm b.o"},
        {"op": "dupdeps", "path": "a.o", "content": "1100", "label": "1100 more deps records of a.o (long history)"},
        {"op": "variant", "to": 1, "label": "manifest:=v1 (b.o without deps, m.o dropped)"},
        {"op": "variant", "to": 0, "label": "manifest:=v0"},
    ]
    build = len(ops)
    ops += [ninja_op(j=2), ninja_op(j=2, targets=["a.o"]), ninja_op(j=2, faults={"b.o": {"code": 1}}),
            _tool("recompact"), tool_op("deps", ["-t", "deps"]), tool_op("cleandead"), _tool("restat")]
    for t in (_tool("recompact"), dict(ninja_op(j=2, subsets=False))):
        f = dict(t)
        f["crash"] = True
        f["label"] = t["label"] + " [a fault at every file operation]"
        f["no_expand"] = True
        ops.append(f)
    dup = next(i for i, o in enumerate(ops) if o["op"] == "dupdeps")
    T.append(scenario("c09/deps_tools/built", "c09", [v0, v1], ops=ops, init=[build], depth=d, tags=["depslog", "tools"]))
    T.append(scenario("c09/deps_tools/builddir", "c09", [Variant("v0", v0.stmts, header="builddir = bd"), Variant("v1", v1.stmts, header="builddir = bd")],
                      ops=ops, init=[build], depth=d, tags=["depslog", "tools", "builddir"], builddir="bd"))
    T.append(scenario("c09/deps_tools/long_history", "c09", [v0, v1], ops=ops, init=[build, dup], depth=d,
                      tags=["depslog", "tools", "recompaction"]))
    # an implicit output supplied through dyndep information, on a statement with deps
    dd = dyndep_text([("out", ["out.extra"], [], False)])
    st = [Stmt("dd", ex=["dd.in"], copy=True),
          Stmt("out", ex=["in"], oo=["dd"], dyndep="dd", hidden=["h1"], deps="gcc", extra_outs=["out.extra"]),
          Stmt("top", ex=["out"])]
    w0 = Variant("v0", st)
    ops2 = [
        {"op": "edit", "path": "in", "label": "edit in"},
        {"op": "edit", "path": "h1", "label": "edit h1"},
        {"op": "touch", "path": "dd.in", "label": "touch dd.in"},
        {"op": "dupdeps", "path": "out", "content": "1100", "label": "1100 more deps records of out (long history)"},
    ]
    b2 = len(ops2)
    ops2 += [ninja_op(j=2), _tool("recompact"), tool_op("deps", ["-t", "deps"])]
    T.append(scenario("c09/dyndep_output/built", "c09", [w0], files={"dd.in": dd}, ops=ops2, init=[b2], depth=d,
                      tags=["depslog", "dyndep"]))
    return T
