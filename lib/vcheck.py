"""Common driver code for all checks: tiers, evidence files, replays, known findings,
parallel shard execution."""
import concurrent.futures
import hashlib
import json
import os
import subprocess
import sys
import time

VERIF = os.path.dirname(os.path.dirname(os.path.abspath(__file__)))
sys.path.insert(0, os.path.join(VERIF, "lib"))
import vbuild  # noqa: E402

NCPU = int(os.environ.get("VERIF_JOBS", str(os.cpu_count() or 4)))


def load_findings():
    p = os.path.join(VERIF, "known_findings.json")
    if not os.path.exists(p):
        return {"findings": [], "fixed": []}
    with open(p) as f:
        return json.load(f)


class Check:
    def __init__(self, prop, level, argv=None):
        argv = list(sys.argv[1:] if argv is None else argv)
        self.prop = prop
        self.level = level
        self.tier = os.environ.get("VERIF_TIER", "quick")
        self.seed = int(os.environ.get("VERIF_SEED", "0") or 0)
        self.replay = None
        self.opts = {}
        i = 0
        while i < len(argv):
            a = argv[i]
            if a == "--tier":
                self.tier = argv[i + 1]; i += 2
            elif a == "--replay":
                self.replay = argv[i + 1]; i += 2
            elif a.startswith("--") and "=" in a:
                k, v = a[2:].split("=", 1); self.opts[k] = v; i += 1
            else:
                i += 1
        if self.tier not in ("quick", "thorough"):
            self.tier = "quick"
        self.t0 = time.time()
        self.deadline = None
        self.violations = []      # list of (what, replay_path)
        self.known_hits = {}      # finding id -> text
        self.findings = [f for f in load_findings().get("findings", []) if f.get("property") == prop]
        self.notes = []

    # ---- time budget ------------------------------------------------------------------
    def set_budget(self, seconds):
        self.deadline = self.t0 + seconds

    def time_left(self):
        return 1e9 if self.deadline is None else self.deadline - time.time()

    # ---- running harness shards ---------------------------------------------------------
    def run_many(self, cmds, parse_json=True, timeout=None, env=None, jobs=None):
        """Run a list of argv lists in parallel; returns list of (rc, parsed-or-text, stderr)."""
        def one(cmd):
            try:
                r = subprocess.run(cmd, stdout=subprocess.PIPE, stderr=subprocess.PIPE, timeout=timeout,
                                   env=env)
            except subprocess.TimeoutExpired as e:
                return (-999, None, "timeout after %ss: %s" % (timeout, " ".join(cmd)))
            out = r.stdout.decode("utf-8", "replace")
            val = out
            if parse_json:
                val = None
                for line in reversed(out.strip().splitlines()):
                    line = line.strip()
                    if line.startswith("{"):
                        try:
                            val = json.loads(line)
                            break
                        except ValueError:
                            pass
            return (r.returncode, val, r.stderr.decode("utf-8", "replace") + ("" if val is not None else out[-2000:]))
        with concurrent.futures.ThreadPoolExecutor(jobs or NCPU) as ex:
            res = list(ex.map(one, cmds))
        # A worker killed by SIGKILL was not killed by anything the code under test did (a crash is SIGSEGV/SIGABRT/..., a
        # watchdog SIGALRM): that is the kernel's out-of-memory killer on a loaded machine.  Run those again, one at a
        # time; a second SIGKILL is a resource problem of the harness (exit 2), never a verdict about the property.
        for i, (rc, val, err) in enumerate(res):
            if rc == -9:
                sys.stderr.write("worker killed by SIGKILL (out of memory?), running it again alone: %s\n" % " ".join(cmds[i])[:300])
                res[i] = one(cmds[i])
                if res[i][0] == -9:
                    self.harness_error("worker killed by SIGKILL twice (out of memory): %s" % " ".join(cmds[i])[:300])
        return res

    # ---- verdicts ----------------------------------------------------------------------------
    def write_replay(self, obj):
        d = os.path.join(VERIF, "replays", self.prop)
        os.makedirs(d, exist_ok=True)
        blob = json.dumps(obj, sort_keys=True, indent=1)
        p = os.path.join(d, hashlib.sha256(blob.encode()).hexdigest()[:12] + ".json")
        with open(p, "w") as f:
            f.write(blob)
        return p

    def violation(self, what, replay_obj):
        """Record a violation unless it matches a listed known finding (match_known decides)."""
        replay_obj = dict(replay_obj)
        replay_obj.setdefault("property", self.prop)
        replay_obj.setdefault("what", what)
        p = self.write_replay(replay_obj)
        self.violations.append((what, p))
        return p

    def known(self, fid, text):
        self.known_hits[fid] = text

    def harness_error(self, msg):
        sys.stderr.write("HARNESS ERROR (%s): %s\n" % (self.prop, msg))
        sys.exit(2)

    def finish(self, coverage, assumptions=None, exhaustive=None):
        wall = time.time() - self.t0
        cov = dict(coverage)
        if exhaustive is not None:
            cov["exhaustive"] = bool(exhaustive)
        if self.notes:
            cov["notes"] = self.notes
        if self.known_hits:
            cov["known_findings_seen"] = sorted(self.known_hits)
        ev = {
            "property_id": self.prop,
            "tier": self.tier,
            "seed": self.seed,
            "level": self.level,
            "coverage": cov,
            "assumptions": assumptions or [],
            "wall_s": round(wall, 2),
            "violations": len(self.violations),
        }
        os.makedirs(os.path.join(VERIF, "evidence"), exist_ok=True)
        with open(os.path.join(VERIF, "evidence", self.prop + ".json"), "w") as f:
            json.dump(ev, f, indent=1, sort_keys=True)
            f.write("\n")
        for fid in sorted(self.known_hits):
            print("KNOWN-FINDING: property=%s %s" % (self.prop, self.known_hits[fid]))
        seen = set()
        for what, p in self.violations:
            if p in seen:
                continue
            seen.add(p)
            print("VIOLATION property=%s replay=%s" % (self.prop, p))
            print("  " + what)
        summary = {k: v for k, v in cov.items() if isinstance(v, (int, float, bool))}
        print("%s %s tier=%s wall=%.1fs %s" % (self.prop, "FAIL" if self.violations else "ok", self.tier, wall,
                                              json.dumps(summary, sort_keys=True)))
        sys.stdout.flush()
        sys.exit(1 if self.violations else 0)


def sum_key(results, key):
    return sum(int(r.get(key, 0)) for r in results if r)
