"""Engine-A scenarios for the process-level part of C08: what ninja invocations do to an existing
build log -- `-t restat`, `-t recompact`, automatic recompaction of a log with a long history (the
`duplog` operation appends 400 more copies of one record), logs of an unsupported version."""
from scen import Stmt, Variant, scenario, ninja_op, tool_op


def _tool(kind, args=()):
    return tool_op(kind, ["-t", kind] + list(args)) if kind not in ("restat", "recompact") else dict(
        tool_op(kind, ["-t", kind] + list(args)), tool_args=list(args))


def templates(tier="quick"):
    T = []
    d = 3 if tier == "quick" else 4
    v0 = Variant("v0", [Stmt("a", ex=["s"]), Stmt("b", ex=["s"]), Stmt("c", ex=["b"]), Stmt("r", ex=["t"], restat=True)])
    # the same project after 'c' was dropped from the manifest (its record becomes dead once the file is gone)
    v1 = Variant("v1", [Stmt("a", ex=["s"]), Stmt("b", ex=["s"]), Stmt("r", ex=["t"], restat=True)])
    # ... and after b's statement was dropped while c still reads b: b is a source now, named only as an input
    v2 = Variant("v2", [Stmt("a", ex=["s"]), Stmt("c", ex=["b"]), Stmt("r", ex=["t"], restat=True)])
    ops = [
        {"op": "edit", "path": "s", "label": "edit s"},
        {"op": "touch", "path": "t", "label": "touch t"},
        {"op": "rm", "path": "b", "label": "rm b"},
        {"op": "rm", "path": "c", "label": "rm c"},
        {"op": "touch", "path": "a", "label": "touch a"},
        {"op": "duplog", "path": "a", "content": "400", "label": "400 more records of a in the log (long history)"},
        {"op": "variant", "to": 1, "label": "manifest:=v1 (c dropped)"},
        {"op": "variant", "to": 0, "label": "manifest:=v0"},
        {"op": "variant", "to": 2, "label": "manifest:=v2 (b's statement dropped, b still an input)"},
    ]
    build = len(ops)
    ops += [ninja_op(j=2), ninja_op(j=2, targets=["a"]), ninja_op(j=1, dry_run=True, flags=["-n"]),
            ninja_op(j=2, faults={"b": {"code": 1}}),
            _tool("restat"), _tool("restat", ["b"]), _tool("restat", ["a", "c"]), _tool("recompact"),
            tool_op("cleandead"), tool_op("query", ["-t", "query", "c"]), tool_op("deps", ["-t", "deps"])]
    # the log-maintaining invocations under faults: killed at, and an I/O error at, every file operation
    fops = []
    for t in (_tool("recompact"), _tool("restat"), dict(ninja_op(j=2, subsets=False))):
        f = dict(t)
        f["crash"] = True
        f["label"] = t["label"] + " [a fault at every file operation]"
        f["no_expand"] = True
        fops.append(f)
    ops += fops
    T.append(scenario("c08/log_tools/built", "c08", [v0, v1, v2], ops=ops, init=[build], depth=d, tags=["buildlog", "tools"]))
    # a long history already in place
    dup = next(i for i, o in enumerate(ops) if o["op"] == "duplog")
    T.append(scenario("c08/log_tools/long_history", "c08", [v0, v1, v2], ops=ops, init=[build, dup], depth=d,
                      tags=["buildlog", "tools", "recompaction"]))
    # the same project with `builddir` bound: the log lives in bd/
    b0 = Variant("v0", v0.stmts, header="builddir = bd")
    b1 = Variant("v1", v1.stmts, header="builddir = bd")
    b2 = Variant("v2", v2.stmts, header="builddir = bd")
    # (`-t restat` runs before the manifest is read and has to be told: --builddir=DIR)
    import copy
    bops = copy.deepcopy(ops)
    for o in bops:
        if o.get("tool") and o.get("tool_kind") == "restat":
            o["flags"] = ["-t", "restat", "--builddir=bd"] + list(o.get("tool_args", []))
            o["label"] = "ninja " + " ".join(o["flags"]) + (" [a fault at every file operation]" if o.get("crash") else "")
    T.append(scenario("c08/log_tools/builddir", "c08", [b0, b1, b2], ops=bops, init=[build], depth=d, tags=["buildlog", "tools", "builddir"],
                      builddir="bd"))
    # logs of unsupported versions (older and newer), with plausible content
    for ver in (4, 6, 8, 70):
        log = "# ninja log v%d\n1\t2\t1700000000000000000\ta\tabcdef\n3\t4\t1700000000000000000\tb\t123456\n" % ver
        T.append(scenario("c08/unsupported_v%d" % ver, "c08", [v0, v1, v2], files={".ninja_log": log}, ops=ops, init=[], depth=2,
                          tags=["buildlog", "version"]))
    # a generator statement in the middle of a build (ninja closes the log around it and reopens it lazily)
    g0 = Variant("v0", [Stmt("pre", ex=["s"]), Stmt("cfg", ex=["pre", "cfg.in"], generator=True), Stmt("a", ex=["cfg"]),
                        Stmt("b", ex=["a"])])
    gops = [{"op": "edit", "path": "s", "label": "edit s"}, {"op": "edit", "path": "cfg.in", "label": "edit cfg.in"},
            {"op": "rm", "path": "a", "label": "rm a"}]
    gb = len(gops)
    gops += [ninja_op(j=1), ninja_op(j=2), _tool("recompact")]
    T.append(scenario("c08/generator_midbuild/fresh", "c08", [g0], ops=gops, init=[], depth=2, tags=["buildlog", "generator"]))
    T.append(scenario("c08/generator_midbuild/built", "c08", [g0], ops=gops, init=[gb], depth=d, tags=["buildlog", "generator"]))
    # an implicit output supplied through dyndep information (no node for it when the log is opened)
    from family_cycles import dyndep_text
    dd = dyndep_text([("out", ["out.x"], [], False)])
    w0 = Variant("v0", [Stmt("dd", ex=["dd.in"], copy=True),
                        Stmt("out", ex=["in"], oo=["dd"], dyndep="dd", extra_outs=["out.x"]), Stmt("top", ex=["out"])])
    ops2 = [
        {"op": "edit", "path": "in", "label": "edit in"},
        {"op": "touch", "path": "dd.in", "label": "touch dd.in"},
        {"op": "rm", "path": "out.x", "label": "rm out.x"},
        {"op": "duplog", "path": "top", "content": "400", "label": "400 more records of top in the log (long history)"},
    ]
    b2 = len(ops2)
    ops2 += [ninja_op(j=2), _tool("recompact"), _tool("restat")]
    T.append(scenario("c08/dyndep_output/built", "c08", [w0], files={"dd.in": dd}, ops=ops2, init=[b2], depth=d,
                      tags=["buildlog", "dyndep"]))
    return T
