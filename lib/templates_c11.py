"""Scenarios for C11: dyndep information behaves as if written in the manifest; invalid dyndep
files are rejected."""
import copy
import re

from scen import Stmt, Variant, scenario, ninja_op, declared_twin, sources_of
from family_cycles import dyndep_text


# ---- reference reader for the dyndep texts generated here (R-dyndep) -------------------------------
NAME = r"[A-Za-z0-9_.]+"


def ref_parse(text):
    """Returns dict out -> (implicit outs, implicit ins, restat) or None when the text is not a valid
    dyndep file (for the simple lexical forms this module generates)."""
    lines = text.split("\n")
    if lines and lines[-1] == "":
        lines.pop()
    edges = {}
    seen_version = False
    i = 0
    while i < len(lines):
        ln = lines[i]
        i += 1
        if ln.strip() == "":
            continue
        if not seen_version:
            if not re.fullmatch(r"ninja_dyndep_version = (1|1\.0)", ln):
                return None
            seen_version = True
            continue
        m = re.fullmatch(r"build (%s)((?: \|)(?: %s)*)?: dyndep((?: \|)(?: %s)*)?" % (NAME, NAME, NAME), ln)
        if not m:
            return None
        out = m.group(1)
        iouts = m.group(2).split()[1:] if m.group(2) else []
        iins = m.group(3).split()[1:] if m.group(3) else []
        restat = False
        if i < len(lines) and lines[i].startswith("  "):
            if not re.fullmatch(r"  restat = (%s)?" % NAME, lines[i]):
                return None
            restat = lines[i] != "  restat = "
            i += 1
        if out in edges:
            return None
        edges[out] = (iouts, iins, restat)
    if not seen_version:
        return None
    return edges


def valid_for(text, bound, all_outputs):
    """Valid complete description: parses, mentions exactly the bound statements (by their first
    output), claims no output of another statement, no output twice."""
    e = ref_parse(text)
    if e is None:
        return False
    if set(e) != set(bound):
        return False
    claimed = []
    for out, (iouts, iins, restat) in e.items():
        claimed += iouts
    if len(set(claimed)) != len(claimed):
        return False
    for c in claimed:
        if c in all_outputs:
            return False
    return True


def _mk(name, variants, files, ops, init, depth, tags, twin=True):
    tv = [declared_twin(v) for v in variants] if twin else None
    return scenario("c11/" + name, "c11", variants, files=files, ops=ops, init=init, depth=depth,
                    tags=["dyndep"] + list(tags), twin_variants=tv)


def valid_templates(tier="quick"):
    T = []
    depth = 6 if tier == "quick" else 7

    def common_ops(extra=()):
        ops = [{"op": "edit", "path": "in", "label": "edit in"}, {"op": "edit", "path": "s", "label": "edit s"},
               {"op": "rm", "path": "out", "label": "rm out"}]
        ops += list(extra)
        nb = len(ops)
        ops += [ninja_op(j=2), ninja_op(targets=["out"], j=2)]
        return ops, nb

    # D1: dyndep file is a source that exists; adds an implicit input produced by another statement
    dd = dyndep_text([("out", [], ["x"], False)])
    dd_b = dyndep_text([("out", [], ["x", "y"], False)])
    st = [Stmt("x", ex=["s"]), Stmt("out", ex=["in"], oo=["dd"], dyndep="dd", extra_reads=["x"]), Stmt("top", ex=["out"])]
    ops, nb = common_ops()
    T.append(_mk("existing_adds_input", [Variant("v0", st)], {"dd": dd}, ops, [nb], depth, ["existing"]))

    # D1s: the supplied input is a *source* file: written in the manifest, a missing source with no rule is an error
    # before any command runs, and an existing one is an ordinary implicit input
    dds = dyndep_text([("out", [], ["hsrc"], False)])
    for mode in ("existing", "produced"):
        st = ([Stmt("dd", ex=["dd.in"], copy=True)] if mode == "produced" else []) + \
             [Stmt("out", ex=["in"], oo=["dd"], dyndep="dd", extra_reads=["hsrc"]), Stmt("top", ex=["out"])]
        ops, nb = common_ops([{"op": "rm", "path": "hsrc", "label": "rm hsrc"}, {"op": "edit", "path": "hsrc", "label": "edit hsrc"}])
        files = {"dd": dds} if mode == "existing" else {"dd.in": dds}
        T.append(_mk("supplies_source_input/" + mode, [Variant("v0", st)], files, ops, [nb], depth, [mode, "source-input"]))
        T.append(_mk("supplies_source_input/%s/fresh" % mode, [Variant("v0", st)], files, ops, [], 2, [mode, "source-input", "fresh"]))

    # D2: dyndep file produced by a statement (clean or dirty), content switchable between two valid ones
    st = [Stmt("dd", ex=["dd.in"], copy=True), Stmt("x", ex=["s"]), Stmt("y", ex=["s"]),
          Stmt("out", ex=["in"], oo=["dd"], dyndep="dd", extra_reads=["x"]), Stmt("top", ex=["out"])]
    st_b = copy.deepcopy(st)
    st_b[3].extra_reads = ["x", "y"]
    ops, nb = common_ops([{"op": "touch", "path": "dd.in", "label": "touch dd.in"}, {"op": "rm", "path": "dd", "label": "rm dd"}])
    T.append(_mk("produced_adds_input", [Variant("v0", st)], {"dd.in": dd}, ops, [nb], depth, ["produced"]))
    T.append(_mk("produced_adds_input/fresh", [Variant("v0", st)], {"dd.in": dd}, ops, [], 2, ["produced", "fresh"]))

    # D3: implicit output through dyndep, consumed by a statement that already depends on the bound one
    dd3 = dyndep_text([("out", ["eo"], ["x"], False), ("use", [], ["eo"], False)])
    st = [Stmt("dd", ex=["dd.in"], copy=True), Stmt("x", ex=["s"]),
          Stmt("out", ex=["in"], oo=["dd"], dyndep="dd", extra_reads=["x"], extra_outs=["eo"]),
          Stmt("use", ex=["in2"], oo=["dd", "out"], dyndep="dd", extra_reads=["eo"])]
    ops, nb = common_ops([{"op": "rm", "path": "eo", "label": "rm eo"}, {"op": "rm", "path": "dd", "label": "rm dd"},
                          {"op": "duplog", "path": "x", "content": "400", "label": "400 more records of x in the log (long history)"}])
    T.append(_mk("implicit_output", [Variant("v0", st)], {"dd.in": dd3}, ops, [nb], depth, ["produced", "implicit-output"]))

    # D3e: the consumer of the dyndep-supplied output learns of it through a dyndep file of its own and has no manifest path to
    # the producer (two scanners, one per object, as for compiled modules); either file may be re-made in the build
    dd3e1 = dyndep_text([("o1", ["mod"], [], False)])
    dd3e2 = dyndep_text([("o2", [], ["mod"], False)])
    st = [Stmt("dd1", ex=["dd1.in"], copy=True), Stmt("dd2", ex=["dd2.in"], copy=True),
          Stmt("o1", ex=["s1"], oo=["dd1"], dyndep="dd1", extra_outs=["mod"]),
          Stmt("o2", ex=["s2"], oo=["dd2"], dyndep="dd2", extra_reads=["mod"]), Stmt("all", ex=["o1", "o2"], phony=True)]
    ops = [{"op": "edit", "path": "s1", "label": "edit s1"}, {"op": "edit", "path": "s2", "label": "edit s2"},
           {"op": "touch", "path": "dd1.in", "label": "touch dd1.in"}, {"op": "touch", "path": "dd2.in", "label": "touch dd2.in"}]
    nb = len(ops)
    ops += [ninja_op(j=2), ninja_op(targets=["o2"], j=1)]
    T.append(_mk("consumer_in_another_dyndep_file", [Variant("v0", st, defaults=["all"])], {"dd1.in": dd3e1, "dd2.in": dd3e2}, ops, [nb],
                 min(depth, 5), ["produced", "implicit-output"]))

    # D3f: the consumer names the dyndep-supplied output in the manifest (an implicit input that no statement of the manifest
    # produces) and has no other path to the producer: at -j1 it sits in the ready queue when the dyndep file is loaded
    dd3f = dyndep_text([("z", ["extra"], [], False)])
    st = [Stmt("dd", ex=["dd.in"], copy=True), Stmt("y", ex=["y.in"], im=["extra"]),
          Stmt("z", ex=["z.in"], oo=["dd"], dyndep="dd", extra_outs=["extra"]), Stmt("all", ex=["y", "z"], phony=True)]
    ops = [{"op": "edit", "path": "y.in", "label": "edit y.in"}, {"op": "edit", "path": "z.in", "label": "edit z.in"},
           {"op": "touch", "path": "dd.in", "label": "touch dd.in"}]
    nb = len(ops)
    ops += [ninja_op(j=1), ninja_op(j=2), ninja_op(targets=["z"], j=1)]
    T.append(_mk("consumer_declares_the_supplied_output", [Variant("v0", st, defaults=["all"])], {"dd.in": dd3f}, ops, [nb + 2, nb],
                 min(depth, 5), ["produced", "implicit-output"]))

    # D2c: the dyndep file names as an implicit input a file the statement already lists after `||` (a generated one and a
    # checked-in one): the dyndep information makes them real dependencies
    dd2c = dyndep_text([("out", [], ["hdr", "gen"], False)])
    st = [Stmt("dd", ex=["dd.in"], copy=True), Stmt("gen", ex=["g.in"]),
          Stmt("out", ex=["in"], oo=["dd", "hdr", "gen"], dyndep="dd", extra_reads=["hdr", "gen"]), Stmt("top", ex=["out"])]
    ops, nb = common_ops([{"op": "edit", "path": "hdr", "label": "edit hdr"}, {"op": "edit", "path": "g.in", "label": "edit g.in"}])
    T.append(_mk("supplied_input_also_order_only", [Variant("v0", st)], {"dd.in": dd2c}, ops, [nb], min(depth, 5), ["produced"]))

    # D3d: the statement also writes a plain depfile, and -- as compilers that produce module files do -- names all its outputs
    # in it, the dyndep-supplied one included
    dd3d = dyndep_text([("out", ["out.mod"], [], False)])
    o = Stmt("out", ex=["in"], oo=["dd"], dyndep="dd", extra_outs=["out.mod"], hidden=["hdr"], depfile=True)
    o.dep_all_outs = True
    st = [Stmt("dd", ex=["dd.in"], copy=True), o, Stmt("top", ex=["out"])]
    ops, nb = common_ops([{"op": "touch", "path": "dd.in", "label": "touch dd.in"}, {"op": "edit", "path": "hdr", "label": "edit hdr"}])
    T.append(_mk("depfile_names_the_supplied_output", [Variant("v0", st)], {"dd.in": dd3d}, ops, [nb], depth, ["produced", "implicit-output", "depfile"]))

    # D4: one dyndep file shared by two statements
    dd4 = dyndep_text([("out", [], ["x"], False), ("out2", [], [], False)])
    st = [Stmt("dd", ex=["dd.in"], copy=True), Stmt("x", ex=["s"]),
          Stmt("out", ex=["in"], oo=["dd"], dyndep="dd", extra_reads=["x"]),
          Stmt("out2", ex=["in"], oo=["dd"], dyndep="dd"), Stmt("top", ex=["out", "out2"])]
    ops, nb = common_ops([{"op": "rm", "path": "out2", "label": "rm out2"}])
    T.append(_mk("shared", [Variant("v0", st)], {"dd.in": dd4}, ops, [nb], depth, ["produced", "shared"]))

    # D4b: the bound statement names its dyndep file twice among its inputs (implicit and order-only), which the manifest
    # language allows: the information must still be applied once
    ddt = dyndep_text([("out", ["eo"], ["x"], False)])
    for mode in ("existing", "produced"):
        st = ([Stmt("dd", ex=["dd.in"], copy=True)] if mode == "produced" else []) + \
             [Stmt("x", ex=["s"]), Stmt("out", ex=["in"], im=["dd"], oo=["dd"], dyndep="dd", extra_reads=["x"], extra_outs=["eo"]),
              Stmt("top", ex=["out"])]
        ops, nb = common_ops([{"op": "rm", "path": "eo", "label": "rm eo"}])
        files = {"dd": ddt} if mode == "existing" else {"dd.in": ddt}
        T.append(_mk("dyndep_file_named_twice/" + mode, [Variant("v0", st)], files, ops, [nb], depth, [mode, "named-twice"]))

    # D4c: the dyndep file is up to date, its producer waits (order-only) for a dirty statement, and the information it
    # supplies names that very statement's output as an input of the bound one: it is loaded from inside the bookkeeping
    # of the statement that just finished
    ddc = dyndep_text([("out", [], ["o"], False)])
    st = [Stmt("o", ex=["s"]), Stmt("dd", ex=["dd.in"], oo=["o"], copy=True),
          Stmt("out", ex=["in"], oo=["dd"], dyndep="dd", extra_reads=["o"]), Stmt("top", ex=["out"])]
    ops, nb = common_ops([{"op": "rm", "path": "o", "label": "rm o"}])
    T.append(_mk("loaded_when_its_new_input_finishes", [Variant("v0", st)], {"dd.in": ddc}, ops, [nb], depth, ["produced", "reentrant"]))

    # D5: two-level: the producer of the dyndep file has dyndep information itself
    dd5a = dyndep_text([("dd2", [], ["x"], False)])
    dd5b = dyndep_text([("out", [], ["dd2x"], False)])
    st = [Stmt("dd1", ex=["dd1.in"], copy=True), Stmt("x", ex=["s"]),
          Stmt("dd2", ex=["dd2.in"], oo=["dd1"], dyndep="dd1", extra_reads=["x"], copy=True),
          Stmt("dd2x", ex=["s"]),
          Stmt("out", ex=["in"], oo=["dd2"], dyndep="dd2", extra_reads=["dd2x"])]
    ops, nb = common_ops([{"op": "rm", "path": "dd2", "label": "rm dd2"}])
    T.append(_mk("two_level", [Variant("v0", st)], {"dd1.in": dd5a, "dd2.in": dd5b}, ops, [nb], depth, ["produced", "two-level"]))

    # D7: the producer of a dyndep-discovered input has a validation whose own inputs are ready
    dd7 = dyndep_text([("out", [], ["h"], False)])
    st = [Stmt("dd", ex=["dd.in"], copy=True), Stmt("check", ex=["check.in"]), Stmt("h", ex=["h.in"], val=["check"]),
          Stmt("out", ex=["in"], oo=["dd"], dyndep="dd", extra_reads=["h"]), Stmt("top", ex=["out"])]
    ops, nb = common_ops([{"op": "touch", "path": "dd.in", "label": "touch dd.in"}, {"op": "edit", "path": "check.in", "label": "edit check.in"},
                          {"op": "rm", "path": "check", "label": "rm check"}])
    T.append(_mk("validation_of_discovered", [Variant("v0", st, defaults=["top"])], {"dd.in": dd7}, ops, [nb], depth, ["produced", "validation"]))
    T.append(_mk("validation_of_discovered/fresh", [Variant("v0", st, defaults=["top"])], {"dd.in": dd7}, ops, [], 2, ["produced", "validation", "fresh"]))

    # D2b: the dyndep file is not the first output of the statement that makes it (`build scan.stamp mod.dd: scan ...`)
    st = [Stmt(["scan.stamp", "dd"], ex=["scan.in", "dd.in"], copy=True), Stmt("x", ex=["s"]),
          Stmt("out", ex=["in"], oo=["dd"], dyndep="dd", extra_reads=["x"]), Stmt("top", ex=["out", "scan.stamp"])]
    ops, nb = common_ops([{"op": "touch", "path": "dd.in", "label": "touch dd.in"}, {"op": "edit", "path": "scan.in", "label": "edit scan.in"},
                          {"op": "rm", "path": "dd", "label": "rm dd"}])
    T.append(_mk("produced_as_a_second_output", [Variant("v0", st, defaults=["top"])], {"dd.in": dyndep_text([("out", [], ["x"], False)])}, ops, [nb], depth, ["produced"]))
    T.append(_mk("produced_as_a_second_output/fresh", [Variant("v0", st, defaults=["top"])], {"dd.in": dyndep_text([("out", [], ["x"], False)])}, ops, [], 2,
                 ["produced", "fresh"]))

    # D7b: ... and that validation needs a statement of its own that nothing else in the build asks for
    st = [Stmt("dd", ex=["dd.in"], copy=True), Stmt("pre", ex=["pre.in"]), Stmt("check", ex=["check.in", "pre"]), Stmt("h", ex=["h.in"], val=["check"]),
          Stmt("out", ex=["in"], oo=["dd"], dyndep="dd", extra_reads=["h"]), Stmt("top", ex=["out"])]
    ops, nb = common_ops([{"op": "touch", "path": "dd.in", "label": "touch dd.in"}, {"op": "edit", "path": "pre.in", "label": "edit pre.in"},
                          {"op": "rm", "path": "pre", "label": "rm pre"}])
    T.append(_mk("validation_of_discovered_has_a_prerequisite", [Variant("v0", st, defaults=["top"])], {"dd.in": dd7}, ops, [nb], depth, ["produced", "validation"]))
    T.append(_mk("validation_of_discovered_has_a_prerequisite/fresh", [Variant("v0", st, defaults=["top"])], {"dd.in": dd7}, ops, [], 2,
                 ["produced", "validation", "fresh"]))

    # D9: the discovered input is up to date, but its producer has a dirty order-only input; the dyndep file is
    # re-produced in the build and the bound statement itself stays clean
    dd9 = dyndep_text([("out", [], ["x"], False)])
    st = [Stmt("dd", ex=["dd.in"], copy=True), Stmt("po", ex=["ps"]), Stmt("x", ex=["s"], oo=["po"]),
          Stmt("out", ex=["in"], oo=["dd"], dyndep="dd", extra_reads=["x"]), Stmt("top", ex=["out"])]
    ops, nb = common_ops([{"op": "touch", "path": "dd.in", "label": "touch dd.in"}, {"op": "edit", "path": "ps", "label": "edit ps"},
                          {"op": "rm", "path": "po", "label": "rm po"}])
    T.append(_mk("order_only_behind_discovered", [Variant("v0", st, defaults=["top"])], {"dd.in": dd9}, ops, [nb], depth,
                 ["produced", "order-only"]))

    # D6: restat supplied by the dyndep file
    dd6 = dyndep_text([("out", [], [], True)])
    o = Stmt("out", ex=["in"], oo=["dd"], dyndep="dd", restat=False)
    o.dyn_restat = True
    # the command itself behaves as a restat tool (writes only on change)
    class R(Stmt):
        pass
    st = [Stmt("dd", ex=["dd.in"], copy=True), o, Stmt("after", ex=["out"])]
    ops, nb = common_ops([{"op": "touch", "path": "in", "label": "touch in"}])
    T.append(_mk("restat_by_dyndep", [Variant("v0", st)], {"dd.in": dd6}, ops, [nb], depth, ["produced", "restat"]))

    # D6b: the dyndep binding sits in the rule block, so the statement has no block of its own -- like its neighbour u, whose
    # tool also writes only on change but which nobody declares restat: what the dyndep file says of `out` is about `out` alone
    o = Stmt("out", ex=["in"], oo=["dd"], dyndep="dd", restat=False)
    o.dyn_restat = True
    o.dyndep_at_rule = True
    u = Stmt("u", ex=["t"])
    u.dyn_restat = True
    for mode in ("existing", "produced"):
        st = ([Stmt("dd", ex=["dd.in"], copy=True)] if mode == "produced" else []) + [o, Stmt("after", ex=["out"]), u, Stmt("w", ex=["u"])]
        ops = [{"op": "touch", "path": "in", "label": "touch in"}, {"op": "touch", "path": "t", "label": "touch t"},
               {"op": "edit", "path": "t", "label": "edit t"}]
        nb = len(ops)
        ops += [ninja_op(j=2), ninja_op(targets=["w"], j=1)]
        T.append(_mk("restat_by_dyndep_bound_in_the_rule/" + mode, [Variant("v0", st)], {"dd" if mode == "existing" else "dd.in": dd6}, ops, [nb],
                     min(depth, 4), [mode, "restat"]))

    # D6d: restat from the dyndep file, the input that is newer than the (untouched) output is itself dyndep-discovered, and the
    # dyndep file is re-made in the build: the re-scan after the load has to judge the statement as a restat statement (by the
    # time in its log record), as the scan of the manifest-written twin does
    dd6d = dyndep_text([("out", [], ["x"], True)])
    o = Stmt("out", ex=["in"], oo=["dd"], dyndep="dd", extra_reads=["x"], restat=False, copy=True)
    o.dyn_restat = True
    st = [Stmt("dd", ex=["dd.in"], copy=True), Stmt("x", ex=["s"]), o, Stmt("after", ex=["out"])]
    # ("touch in": a *declared* input newer than the untouched output is the known finding F74 -- the plan is drawn up
    # before the dyndep file is loaded)
    ops = [{"op": "edit", "path": "s", "label": "edit s"}, {"op": "touch", "path": "dd.in", "label": "touch dd.in"},
           {"op": "touch", "path": "in", "label": "touch in"}]
    nb = len(ops)
    ops += [ninja_op(j=2), ninja_op(targets=["out"], j=1)]
    T.append(_mk("restat_by_dyndep_discovered_input_newer", [Variant("v0", st)], {"dd.in": dd6d}, ops, [nb], depth, ["produced", "restat"]))

    # D6c: a dyndep file whose restat binding evaluates to nothing (`restat = $nothing`, `restat = `): as in a manifest, that is
    # no restat -- although the tool happens to write only on change, its dependents run whenever it ran
    for vn, val in (("unset_variable", "$nothing"), ("empty", "")):
        dd6c = "ninja_dyndep_version = 1\nbuild out: dyndep\n  restat = " + val + "\n"
        o = Stmt("out", ex=["in"], oo=["dd"], dyndep="dd", restat=False)
        o.tool_restat = True
        for mode in ("existing", "produced"):
            st = ([Stmt("dd", ex=["dd.in"], copy=True)] if mode == "produced" else []) + [o, Stmt("after", ex=["out"])]
            ops, nb = common_ops([{"op": "touch", "path": "in", "label": "touch in"}])
            T.append(_mk("restat_binding_evaluates_to_nothing/%s/%s" % (vn, mode), [Variant("v0", st)],
                         {"dd" if mode == "existing" else "dd.in": dd6c}, ops, [nb], min(depth, 4), [mode, "restat"]))

    # D1p: the dyndep file spells the input it adds the way generated files do
    for spn, sp in (("dot", "./x"), ("dotdot", "zz/../x")):
        dsp = dyndep_text([("out", [], [sp], False)])
        st = [Stmt("x", ex=["s"]), Stmt("out", ex=["in"], oo=["dd"], dyndep="dd", extra_reads=["x"]), Stmt("top", ex=["out"])]
        ops, nb = common_ops()
        T.append(_mk("existing_adds_input_spelled_" + spn, [Variant("v0", st)], {"dd": dsp}, ops, [nb], min(depth, 4), ["existing", "spelled-input"]))
        T.append(_mk("existing_adds_input_spelled_" + spn + "/fresh", [Variant("v0", st)], {"dd": dsp}, ops, [], 2, ["existing", "spelled-input", "fresh"]))
    return T


def invalid_templates(tier="quick"):
    """Every variant must make the build fail."""
    T = []
    base_stmts = lambda: [Stmt("dd", ex=["dd.in"], copy=True), Stmt("x", ex=["s"]), Stmt("other", ex=["s"]),
                          Stmt("out", ex=["in"], oo=["dd"], dyndep="dd", extra_reads=["x"], extra_outs=["eo"]),
                          Stmt("out2", ex=["in"], oo=["dd"], dyndep="dd")]
    good = dyndep_text([("out", ["eo"], ["x"], False), ("out2", [], [], True)])
    all_outputs = {"dd", "x", "other", "out", "out2"}
    bound = ["out", "out2"]
    assert valid_for(good, bound, all_outputs)
    variants = []
    variants.append(("missing_version", good.split("\n", 1)[1]))
    variants.append(("omits_statement", dyndep_text([("out", ["eo"], ["x"], False)])))
    variants.append(("duplicate_statement", good + "build out2: dyndep\n"))
    variants.append(("adds_unbound_statement", good + "build other: dyndep\n"))
    variants.append(("adds_unknown_statement", good + "build nosuch: dyndep\n"))
    variants.append(("output_named_twice", dyndep_text([("out", ["eo", "eo"], ["x"], False), ("out2", [], [], False)])))
    variants.append(("claims_other_output", dyndep_text([("out", ["other"], ["x"], False), ("out2", [], [], False)])))
    variants.append(("claims_bound_output", dyndep_text([("out", ["out2"], ["x"], False), ("out2", [], [], False)])))
    # ... its own explicit output, once more, as an implicit one (the statement is its producer already)
    variants.append(("claims_own_output", dyndep_text([("out", ["eo", "out"], ["x"], False), ("out2", [], [], False)])))
    variants.append(("claims_own_output_only", dyndep_text([("out", ["out"], ["x"], False), ("out2", [], [], False)])))
    variants.append(("bad_version", good.replace("= 1", "= 2")))
    variants.append(("empty", ""))
    variants.append(("garbage_binding", good + "  foo = bar\n"))
    variants.append(("lex_error_in_implicit_outs", good.replace(" | eo", " | $^eo")))
    variants.append(("lex_error_in_implicit_ins", good.replace(" | x", " | x $^")))
    variants.append(("lex_error_in_explicit_out", good.replace("build out2", "build out2$^")))
    variants.append(("tab_indent", good.replace("  restat", "\trestat")))
    for k in range(len(good)):
        t = good[:k]
        t2 = t if t.endswith("\n") else t + "\n"
        if not valid_for(t2, bound, all_outputs):
            variants.append(("truncated@%d" % k, t))
    for vname, text in variants:
        for mode in ("produced", "existing"):
            st = base_stmts()
            files = {"dd.in": text}
            if mode == "existing":
                st = st[1:]          # no producer: the dyndep file is a source
                files = {"dd": text}
            ops = [ninja_op(j=2), ninja_op(targets=["out"], j=1)]
            for o in ops:
                o["expect_error"] = True
            T.append(scenario("c11/invalid/%s/%s" % (vname, mode), "c11-invalid", [Variant("v0", st)], files=files, ops=ops,
                              init=[], depth=1, tags=["dyndep", "dyndep-invalid"]))
    # a single bound statement: truncations of a one-statement file
    single = lambda: [Stmt("dd", ex=["dd.in"], copy=True), Stmt("x", ex=["s"]),
                      Stmt("out", ex=["in"], oo=["dd"], dyndep="dd", extra_reads=["x"], extra_outs=["eo"])]
    good1 = dyndep_text([("out", ["eo"], ["x"], True)])
    outs1 = {"dd", "x", "out"}
    assert valid_for(good1, ["out"], outs1)
    for k in range(len(good1)):
        t = good1[:k]
        t2 = t if t.endswith("\n") else t + "\n"
        if valid_for(t2, ["out"], outs1):
            continue
        for mode in ("produced", "existing"):
            st = single()
            files = {"dd.in": t}
            if mode == "existing":
                st = st[1:]
                files = {"dd": t}
            ops = [ninja_op(j=2)]
            ops[0]["expect_error"] = True
            T.append(scenario("c11/invalid/single/truncated@%d/%s" % (k, mode), "c11-invalid", [Variant("v0", st)], files=files,
                              ops=ops, init=[], depth=1, tags=["dyndep", "dyndep-invalid"]))
    # two dyndep files: the first one carries a statement for an edge that is bound to the second
    for mode in ("produced", "existing"):
        dd1 = dyndep_text([("out1", [], ["x"], False), ("out2", [], [], False)])
        dd2 = dyndep_text([("out2", [], [], False)])
        st = [Stmt("dd1", ex=["dd1.in"], copy=True), Stmt("dd2", ex=["dd2.in"], copy=True), Stmt("x", ex=["s"]),
              Stmt("out1", ex=["in"], oo=["dd1"], dyndep="dd1", extra_reads=["x"]),
              Stmt("out2", ex=["in"], oo=["dd2"], dyndep="dd2"), Stmt("top", ex=["out1", "out2"])]
        files = {"dd1.in": dd1, "dd2.in": dd2}
        if mode == "existing":
            st = st[2:]
            files = {"dd1": dd1, "dd2": dd2}
        ops = [ninja_op(j=2), ninja_op(j=1), ninja_op(targets=["out1"], j=1)]
        for o in ops:
            o["expect_error"] = True
        T.append(scenario("c11/invalid/statement_for_edge_bound_to_other_file/%s" % mode, "c11-invalid", [Variant("v0", st)],
                          files=files, ops=ops, init=[], depth=1, tags=["dyndep", "dyndep-invalid"]))
    # an invalid dyndep file that is up to date (a valid one was built first, then its content was replaced), loaded when a
    # *phony* alias in front of its producer completes: the error surfaces in the branch of the main loop that finishes
    # phony statements
    for vname, text in variants[:6] + [v for v in variants if v[0] in ("truncated@20", "empty", "bad_version", "claims_own_output")]:
        st = [Stmt("prep", ex=["p.in"]), Stmt("al", ex=["prep"], phony=True), Stmt("dd", ex=["dd.in"], oo=["al"], copy=True)] + base_stmts()[1:]
        bad = ninja_op(j=1)
        bad["expect_error"] = True
        bad2 = ninja_op(j=2, targets=["out"])
        bad2["expect_error"] = True
        ops = [ninja_op(j=2), {"op": "write", "path": "dd", "content": text, "label": "dd:=invalid text (%s)" % vname},
               {"op": "rm", "path": "prep", "label": "rm prep"}, bad, bad2]
        T.append(scenario("c11/invalid/%s/behind_phony" % vname, "c11-invalid", [Variant("v0", st)], files={"dd.in": good}, ops=ops,
                          init=[0, 1, 2], depth=1, tags=["dyndep", "dyndep-invalid", "phony"]))
    # missing dyndep file with no rule to make it
    st = base_stmts()[1:]
    ops = [ninja_op(j=2)]
    ops[0]["expect_error"] = True
    T.append(scenario("c11/invalid/missing_file", "c11-invalid", [Variant("v0", st)], files={}, ops=ops, init=[], depth=1,
                      tags=["dyndep", "dyndep-invalid"]))
    return T
