"""Build of the engine-A objects and harness binaries."""
import os
import vbuild

NX_COMMON = ["src/common/simfs.cc", "src/nx/simcmd.cc", "src/nx/simproc.cc", "src/nx/nxmain.cc"]
NX_DEPS = ["src/common/simfs.h", "src/nx/nx.h", "src/common/ixutil.h"]
HFLAGS = ["-O2", "-std=c++17", "-w", "-DNDEBUG", "-DUSE_PPOLL=1", "-fno-access-control",
          "-D" + vbuild.GUARD + "=1"]


def nx_objects():
    d, objs = vbuild.ninja_objects(
        "nxobj", per_file={"metrics.cc": ["-DGetTimeMillis=GetTimeMillis__unused"]},
        exclude=("subprocess-posix.cc",))
    return objs


def nx_binary(name, main_src, extra_src=(), extra_deps=()):
    objs = nx_objects()
    return vbuild.harness(name, NX_COMMON + [main_src] + list(extra_src), objs, flags=HFLAGS,
                          libs=["-ldl"], deps=NX_DEPS + list(extra_deps))


def lx_binary(name, src):
    d, objs = vbuild.ninja_objects("plain")
    return vbuild.harness(name, ["src/common/simfs.cc", src], objs, flags=HFLAGS, libs=["-ldl"],
                          deps=["src/common/simfs.h", "src/common/ixutil.h", "src/common/vjson.h", "src/common/logparse.h"])
