#!/usr/bin/env python3
"""setup_cmd: build the object sets every check needs (checks rebuild on their own when /repo changes)."""
import os
import sys
sys.path.insert(0, os.path.dirname(os.path.abspath(__file__)))
import vbuild

vbuild.real_ninja()
print("setup ok")
