"""C06 under a jobserver, engine A (seam S6a): ninja's own client code on a real FIFO that the harness owns.  The pool's
other client takes and returns tokens at every wait of ninja -- each a choice point -- so that "running <= tokens held",
"every token is back when ninja has gone" and "no startable command waits next to a readable pool" are decided on every
completion order x every placement of those moves within the stated budget."""
from scen import Stmt, Variant, scenario, ninja_op

# (tokens in the pool, tokens the other client holds at the start, most it may hold, moves)
POOLS_QUICK = [(0, 0, 0, 0), (1, 0, 0, 0), (2, 0, 0, 0), (0, 1, 1, 1), (1, 0, 1, 2), (1, 1, 2, 2)]
POOLS_THOROUGH = POOLS_QUICK + [(3, 0, 0, 0), (2, 0, 2, 3), (0, 2, 2, 3), (1, 1, 2, 3), (2, 1, 3, 3)]


def _js(t):
    return {"tokens": t[0], "ext_held": t[1], "ext_max": t[2], "moves": t[3]}


def _ops(stmts_faulty, pools, interrupts=True, ks=(1, 0), extra_flags=()):
    ops = []
    for t in pools:
        ops.append(ninja_op(jobserver=_js(t), flags=extra_flags))
    # failing commands: the token of a failed command, and those of the commands still running when ninja gives up
    for t in pools:
        if t[3] > 1:
            continue
        for sid in stmts_faulty:
            for k in ks:
                ops.append(ninja_op(jobserver=_js(t), k=k, faults={sid: {"code": 1}}, flags=extra_flags))
            ops.append(ninja_op(jobserver=_js(t), k=1, faults={sid: {"code": 130, "signal": True}}, flags=extra_flags,
                                label="ninja -k1 %s dies of SIGINT jobserver%r" % (sid, t)))
    if interrupts:
        for t in pools:
            if t[3] > 1:
                continue
            ops.append(ninja_op(jobserver=_js(t), interrupt=True, flags=extra_flags))
    # tokens of other values than '+': the protocol allows any byte (0x00 and 0xff included)
    for byte in (0, 255, ord("|")):
        js = dict(_js(pools[2]), byte=byte)
        ops.append(ninja_op(jobserver=js, flags=extra_flags, label="ninja -k1 jobserver[2 tokens of value 0x%02x]" % byte))
    # an explicit -j makes ninja ignore the pool: it must not touch it
    ops.append(ninja_op(j=2, jobserver=_js(pools[2]), explicit_j=True))
    return ops


def templates(tier="quick"):
    pools = POOLS_QUICK if tier == "quick" else POOLS_THOROUGH
    T = []

    def add(name, v, faulty, tags=(), files=None, depth=1, edits=(), **kw):
        ops = [{"op": "edit", "path": e, "label": "edit " + e} for e in edits] + _ops(faulty, pools, **kw)
        first = next(i for i, o in enumerate(ops) if o["op"] == "ninja")
        T.append(scenario("jobserver/" + name + "/fresh", "jobserver", [v], files=files, ops=ops, init=[], depth=1,
                          tags=list(tags) + ["jobserver", "fresh", "no-conformance"]))
        if edits:
            T.append(scenario("jobserver/" + name + "/built", "jobserver", [v], files=files, ops=ops, init=[first], depth=depth + 1,
                              tags=list(tags) + ["jobserver", "built", "no-conformance"]))

    # four independent statements and a link step
    v = Variant("v0", [Stmt("a", ex=["s"]), Stmt("b", ex=["s"]), Stmt("c", ex=["t"]), Stmt("d", ex=["t"]),
                       Stmt("link", ex=["a", "b", "c", "d"])])
    add("par4_link", v, ["a", "c"], tags=["parallel"], edits=["s"])

    # a depth-1 pool next to free statements: pool room and tokens are separate limits
    v = Variant("v0", [Stmt("p1", ex=["s"], pool="one"), Stmt("p2", ex=["s"], pool="one"), Stmt("f1", ex=["t"]),
                       Stmt("f2", ex=["t"]), Stmt("q", ex=["p1", "p2", "f1", "f2"])], pools={"one": 1})
    add("pool_depth1", v, ["p1"], tags=["pool"])

    # console pool
    v = Variant("v0", [Stmt("c1", ex=["s"], pool="console"), Stmt("c2", ex=["t"], pool="console"), Stmt("f", ex=["t"]),
                       Stmt("top", ex=["c1", "c2", "f"])])
    add("console", v, ["c1"], tags=["pool", "console"])

    # phony statements in between: they pass through FindWork() (which takes a token) without running anything
    v = Variant("v0", [Stmt("a", ex=["s"]), Stmt("b", ex=["t"]), Stmt("all", ex=["a", "b"], phony=True),
                       Stmt("c", ex=["all"]), Stmt("d", ex=["all"]), Stmt("top", ex=["c", "d"], phony=True)], defaults=["top"])
    add("phony_between", v, ["a"], tags=["phony"])

    # a restat statement whose unchanged output prunes its dependents: their tokens were never taken
    v = Variant("v0", [Stmt("gen", ex=["tmpl"], restat=True), Stmt("o1", ex=["gen"]), Stmt("o2", ex=["gen"]),
                       Stmt("x", ex=["s"]), Stmt("top", ex=["o1", "o2", "x"])])
    add("restat_prunes", v, ["gen"], tags=["restat"], edits=["tmpl", "s"], interrupts=False)

    # a statement whose start fails (response file in a directory that is a file): the token FindWork() took (F13)
    v = Variant("v0", [Stmt("a", ex=["s"]), Stmt("b", ex=["t"], rsp=("blocker/b.rsp", "x")),
                       Stmt("c", ex=["t"]), Stmt("top", ex=["a", "b", "c"])])
    add("start_fails", v, [], tags=["rspfile"], files={"blocker": "a file, not a directory\n"}, interrupts=False)
    # the build is given up because *finishing* a command fails (the dyndep file it made does not parse) while others
    # run and, with simultaneous completions, while another has ended and has not been asked for yet: every token comes back
    v = Variant("v0", [Stmt("dd", ex=["dd.in"], copy=True), Stmt("x", ex=["s"]), Stmt("y", ex=["t"]),
                       Stmt("out", ex=["in"], oo=["dd"], dyndep="dd"), Stmt("top", ex=["out", "x", "y"])])
    add("finish_fails", v, [], tags=["dyndep"], files={"dd.in": "ninja_dyndep_version = 1\nbuild out: dyndep |\n  garbage\n"}, interrupts=False)
    # the commands that bring the manifest up to date take tokens like any others (F53), and the build proper follows
    def regen(name, ver):
        return Variant(name, [Stmt("g1", ex=["u"]), Stmt("g2", ex=["u"]), Stmt("build.ninja", ex=["build.ninja.in"], im=["g1", "g2"], generator=True, copy=True),
                              Stmt("a", ex=["s"], ver=ver), Stmt("b", ex=["t"]), Stmt("top", ex=["a", "b"])], defaults=["top"])
    va, vb = regen("m0", 0), regen("m1", 1)
    rops = [{"op": "write", "path": "build.ninja.in", "content": vb.manifest(), "label": "build.ninja.in:=m1"},
            {"op": "edit", "path": "u", "label": "edit u"}] + _ops(["g1"], pools, interrupts=False)
    first = next(i for i, o in enumerate(rops) if o["op"] == "ninja")
    T.append(scenario("jobserver/manifest_regen/built", "jobserver", [va, vb], files={"build.ninja.in": va.manifest()}, ops=rops, init=[first], depth=3,
                      tags=["jobserver", "manifest-regen", "generator", "built", "no-conformance"]))
    # dyndep information loaded in the middle of the build names the output of a pooled statement (the F20 shape) under tokens
    from family_cycles import dyndep_text
    v = Variant("v0", [Stmt("dd", ex=["dd.in"], copy=True), Stmt("x", ex=["s"], pool="pp"), Stmt("w", ex=["t"], pool="pp"),
                       Stmt("out", ex=["in"], oo=["dd"], dyndep="dd", extra_reads=["x"]), Stmt("top", ex=["out", "w"])], pools={"pp": 1})
    add("dyndep_pool", v, ["x"], tags=["dyndep", "pool"], files={"dd.in": dyndep_text([("out", [], ["x"], False)])}, interrupts=False)
    return T
