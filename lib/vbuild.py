"""Build support: compile ninja's sources from /repo/src (current working tree) and the
harnesses of /verif/src into /verif/build/<name>-<hash>/, cached by content hash.

Every check calls into this module first, so a changed /repo tree is always rebuilt.
"""
import concurrent.futures
import fcntl
import hashlib
import os
import shutil
import subprocess
import sys
import time

REPO = os.environ.get("VERIF_REPO", "/repo")
VERIF = os.path.dirname(os.path.dirname(os.path.abspath(__file__)))
BUILD = os.path.join(VERIF, "build")
SRC = os.path.join(REPO, "src")
GUARD = "NINJA_BUILD_NINJA_VERIF"

# libninja + re2c outputs (CMakeLists.txt, POSIX branch).  ninja.cc is handled by callers.
LIB_SOURCES = [
    "build_log.cc", "build.cc", "clean.cc", "clparser.cc", "dyndep.cc", "dyndep_parser.cc",
    "debug_flags.cc", "deps_log.cc", "disk_interface.cc", "edit_distance.cc", "elide_middle.cc",
    "eval_env.cc", "explanations.cc", "graph.cc", "graphviz.cc", "jobserver.cc", "json.cc",
    "line_printer.cc", "manifest_parser.cc", "metrics.cc", "missing_deps.cc", "parser.cc",
    "real_command_runner.cc", "state.cc", "status_printer.cc", "string_piece_util.cc", "util.cc",
    "version.cc", "jobserver-posix.cc", "subprocess-posix.cc", "depfile_parser.cc", "lexer.cc",
]

SHIPPED_FLAGS = ["-O2", "-DNDEBUG", "-DUSE_PPOLL=1", "-std=c++17", "-Wno-deprecated", "-w",
                 "-D" + GUARD + "=1"]
CXX = os.environ.get("VERIF_CXX", "g++")
JOBS = int(os.environ.get("VERIF_JOBS", str(os.cpu_count() or 4)))


def _hash_files(paths, extra=()):
    h = hashlib.sha256()
    for p in sorted(paths):
        h.update(p.encode())
        h.update(b"\0")
        with open(p, "rb") as f:
            h.update(f.read())
        h.update(b"\0")
    for e in extra:
        h.update(str(e).encode())
        h.update(b"\0")
    return h.hexdigest()[:16]


def repo_source_files():
    out = []
    for root, _dirs, files in os.walk(SRC):
        for f in files:
            if f.endswith((".cc", ".h", ".c")):
                out.append(os.path.join(root, f))
    return out


def repo_hash():
    return _hash_files(repo_source_files())


class Lock:
    def __init__(self, path):
        self.path = path

    def __enter__(self):
        os.makedirs(os.path.dirname(self.path), exist_ok=True)
        self.f = open(self.path, "w")
        fcntl.flock(self.f, fcntl.LOCK_EX)
        return self

    def __exit__(self, *a):
        fcntl.flock(self.f, fcntl.LOCK_UN)
        self.f.close()


def _run(cmd, cwd=None):
    r = subprocess.run(cmd, cwd=cwd, stdout=subprocess.PIPE, stderr=subprocess.STDOUT, text=True)
    if r.returncode != 0:
        sys.stderr.write("BUILD FAILED: %s\n%s\n" % (" ".join(cmd), r.stdout[:6000]))
        raise SystemExit(2)
    return r.stdout


PRUNE_AFTER_S = 3 * 3600


def _prune(name, keep):
    """Remove stale variants of a build product.  A variant that was used in the last hours is kept: another check (or a
    scan of a seeded change) may still be starting workers from it."""
    if not os.path.isdir(BUILD):
        return
    now = time.time()
    for d in os.listdir(BUILD):
        if d.startswith(name + "-") and d != keep and not d.endswith(".lock"):
            try:
                used = os.path.getmtime(os.path.join(BUILD, d, ".done"))
            except OSError:
                used = 0
            if now - used > PRUNE_AFTER_S:
                shutil.rmtree(os.path.join(BUILD, d), ignore_errors=True)


def _mark_used(d):
    try:
        os.utime(os.path.join(d, ".done"), None)
    except OSError:
        pass


def ninja_objects(name, flags=None, per_file=None, exclude=(), cxx=None):
    """Compile ninja's library sources.  per_file: {"file.cc": [extra flags]}.
    Returns (dir, [object paths])."""
    flags = list(SHIPPED_FLAGS if flags is None else flags)
    per_file = per_file or {}
    cxx = cxx or CXX
    key = _hash_files(repo_source_files(), [cxx] + flags + [repr(sorted(per_file.items()))] + list(exclude))
    dname = "%s-%s" % (name, key)
    d = os.path.join(BUILD, dname)
    srcs = [s for s in LIB_SOURCES if s not in exclude]
    objs = [os.path.join(d, s.replace(".cc", ".o")) for s in srcs]
    with Lock(os.path.join(BUILD, name + ".lock")):
        if os.path.exists(os.path.join(d, ".done")):
            _mark_used(d)
            return d, objs
        _prune(name, dname)
        os.makedirs(d, exist_ok=True)

        def one(s):
            o = os.path.join(d, s.replace(".cc", ".o"))
            cmd = [cxx] + flags + per_file.get(s, []) + ["-iquote", SRC, "-c", os.path.join(SRC, s), "-o", o]
            _run(cmd)
        with concurrent.futures.ThreadPoolExecutor(JOBS) as ex:
            list(ex.map(one, srcs))
        open(os.path.join(d, ".done"), "w").close()
    return d, objs


def harness(name, sources, objs, flags=None, libs=(), deps=(), cxx=None):
    """Compile+link a harness binary from /verif sources against ninja objects.
    Returns the path of the executable."""
    flags = list(flags if flags is not None else ["-O2", "-std=c++17", "-w", "-DNDEBUG", "-DUSE_PPOLL=1",
                                                   "-D" + GUARD + "=1"])
    cxx = cxx or CXX
    sources = [s if os.path.isabs(s) else os.path.join(VERIF, s) for s in sources]
    deps = [s if os.path.isabs(s) else os.path.join(VERIF, s) for s in deps]
    # ninja.cc and headers may be #included by the harness: hash the repo too.
    key = _hash_files(sources + deps + repo_source_files(), [cxx] + flags + list(objs) + list(libs))
    dname = "%s-%s" % (name, key)
    d = os.path.join(BUILD, dname)
    exe = os.path.join(d, name)
    with Lock(os.path.join(BUILD, name + ".lock")):
        if os.path.exists(os.path.join(d, ".done")):
            _mark_used(d)
            return exe
        _prune(name, dname)
        os.makedirs(d, exist_ok=True)
        hobjs = []

        def one(s):
            o = os.path.join(d, os.path.basename(s) + ".o")
            comp = cxx if not s.endswith(".c") else cxx.replace("++", "cc").replace("clangcc", "clang")
            f = [x for x in flags if not (s.endswith(".c") and x.startswith("-std=c++"))]
            _run([comp] + f + ["-iquote", SRC, "-I", os.path.join(VERIF, "src/common"), "-c", s, "-o", o])
            return o
        with concurrent.futures.ThreadPoolExecutor(JOBS) as ex:
            hobjs = list(ex.map(one, sources))
        link_flags = [x for x in flags if x.startswith(("-fsanitize", "-O", "-g", "-static", "-pthread"))]
        _run([cxx] + link_flags + hobjs + list(objs) + ["-o", exe] + list(libs))
        open(os.path.join(d, ".done"), "w").close()
    return exe


def real_ninja():
    """The unmodified ninja executable built from the working tree (engine B)."""
    d, objs = ninja_objects("plain")
    return harness("ninja", [os.path.join(SRC, "ninja.cc")], objs, flags=SHIPPED_FLAGS)


if __name__ == "__main__":
    print(real_ninja())
