"""R-manifest: an independent evaluator of the ninja manifest language, written from
doc/manual.asciidoc (sections "Ninja file reference", "Lexical syntax", "Rule variables",
"Evaluation and scoping", "Pools", "The phony rule") -- not from ninja's parser.

parse(files, main) -> Graph or raises ManifestError(file, line, msg).
Graph.dump() is the canonical text that the C++ side (src/ix/manifest.cc) also prints from State.
"""
import re

RESERVED = {"command", "depfile", "dyndep", "description", "deps", "generator", "pool", "restat", "rspfile",
            "rspfile_content", "msvc_deps_prefix"}
NAME_CHARS = set("abcdefghijklmnopqrstuvwxyzABCDEFGHIJKLMNOPQRSTUVWXYZ0123456789_.-")
SIMPLE_NAME_CHARS = NAME_CHARS - {"."}
KEYWORDS = {"build", "rule", "pool", "default", "include", "subninja"}


class ManifestError(Exception):
    def __init__(self, file, line, msg):
        Exception.__init__(self, "%s:%d: %s" % (file, line, msg))
        self.file, self.line, self.msg = file, line, msg


class Env:
    def __init__(self, parent=None):
        self.vars = {}
        self.rules = {}
        self.parent = parent

    def lookup(self, name):
        e = self
        while e is not None:
            if name in e.vars:
                return e.vars[name]
            e = e.parent
        return ""

    def lookup_rule(self, name):
        e = self
        while e is not None:
            if name in e.rules:
                return e.rules[name]
            e = e.parent
        return None


class Rule:
    def __init__(self, name):
        self.name = name
        self.bindings = {}   # name -> eval string (list of ("t", text) / ("v", name))


class Edge:
    def __init__(self):
        self.rule = None
        self.outs, self.iouts = [], []
        self.ins, self.implicit, self.order_only, self.validations = [], [], [], []
        self.env = None       # scope in which rule variables are expanded (block bindings -> file scope)
        self.block = {}       # build-level bindings
        self.pool = ""
        self.dyndep = ""


def canon(path):
    """Component-stack normaliser (the C14 reference)."""
    if path == "":
        return path
    ab = path.startswith("/")
    st = []
    for c in path.split("/"):
        if c == "" or c == ".":
            continue
        if c == ".." and st and st[-1] != "..":
            st.pop()
            continue
        st.append(c)
    r = ("/" if ab else "") + "/".join(st)
    return r or "."


def shell_quote(s):
    safe = set("abcdefghijklmnopqrstuvwxyzABCDEFGHIJKLMNOPQRSTUVWXYZ0123456789_+-./")
    if all(c in safe for c in s):
        return s
    return "'" + s.replace("'", "'\\''") + "'"


class Graph:
    def __init__(self):
        self.edges = []
        self.pools = {}
        self.defaults = []
        self.producer = {}

    def evaluate(self, edge, var, shell=True, stack=None):
        """Lookup order: built-ins, build block, rule (late, in the build's scope), file scopes."""
        if var == "in" or var == "in_newline":
            sep = " " if var == "in" else "\n"
            return sep.join((shell_quote(p) if shell else p) for p in edge.ins)
        if var == "out":
            return " ".join((shell_quote(p) if shell else p) for p in edge.outs)
        if var in edge.block:
            return edge.block[var]
        stack = stack or []
        if var in edge.rule.bindings:
            if var in stack:
                raise RecursionError("cycle in rule variables")
            out = ""
            for kind, text in edge.rule.bindings[var]:
                out += text if kind == "t" else self.evaluate(edge, text, shell, stack + [var])
            return out
        return edge.env.lookup(var)

    def dump(self):
        lines = []
        for name in sorted(self.pools):
            lines.append("pool %s depth=%d" % (name, self.pools[name]))
        lines.append("defaults " + " ".join(self.defaults))
        # manual, "Default target statements": without any, every output that is not named as an input of a statement
        if self.defaults:
            bd = sorted(set(self.defaults))
        else:
            used = set()
            for e in self.edges:
                used.update(e.ins + e.implicit + e.order_only)
            bd = sorted(set(o for e in self.edges for o in e.outs + e.iouts if o not in used))
            if self.edges and not bd:
                bd = ["!none"]
        lines.append("builds-by-default" + "".join(" " + x for x in bd))
        for e in self.edges:
            lines.append("edge rule=%s outs=%s iouts=%s ins=%s implicit=%s order_only=%s validations=%s pool=%s" % (
                e.rule.name, ",".join(e.outs), ",".join(e.iouts), ",".join(e.ins), ",".join(e.implicit),
                ",".join(e.order_only), ",".join(e.validations), e.pool))
            if e.rule.name != "phony":
                for v in ("command", "description", "depfile", "rspfile", "rspfile_content", "deps"):
                    shell = v not in ("depfile", "rspfile")
                    lines.append("  %s=%s" % (v, self.evaluate(e, v, shell)))
                lines.append("  dyndep=%s" % e.dyndep)   # resolved when the statement is read, like the pool
                lines.append("  restat=%d generator=%d" % (1 if self.evaluate(e, "restat") else 0,
                                                          1 if self.evaluate(e, "generator") else 0))
        return "\n".join(lines) + "\n"


class Lexer:
    def __init__(self, file, text):
        self.file, self.s, self.i = file, text, 0
        self.last = 0
        # `$^` (manual, "$-escapes"): "Requires ninja_required_version to be specified and greater or equal to 1.14 in
        # the build file".  own = the version this file declared so far; inherited = a file that (transitively) includes
        # this one had declared a sufficient version when it did so.  Whether an includer's declaration counts for the
        # included file is not said: both readings are permitted (inherit_reading).  A declaration in a *sibling* file
        # counts under no reading.
        self.own_version = None
        self.inherited = False
        self.inherit_reading = False

    def newline_escape_ok(self):
        if self.own_version is not None and self.own_version >= (1, 14):
            return True
        return self.inherited and self.inherit_reading

    def line(self, pos=None):
        pos = self.last if pos is None else pos
        return self.s.count("\n", 0, pos) + 1

    def err(self, msg, pos=None):
        raise ManifestError(self.file, self.line(pos), msg)

    def eat_ws(self):
        while True:
            if self.s.startswith(" ", self.i):
                self.i += 1
            elif self.s.startswith("$\r\n", self.i):
                self.i += 3
            elif self.s.startswith("$\n", self.i):
                self.i += 2
            else:
                return

    def token(self):
        """Returns (kind, text): kinds newline indent eof error ident = : | || |@ and the keywords."""
        s = self.s
        while True:
            start = self.i
            j = start
            while j < len(s) and s[j] == " ":
                j += 1
            # comment line (only after optional spaces at the start of a token)
            if j < len(s) and s[j] == "#":
                k = s.find("\n", j)
                if k != -1:
                    self.i = k + 1
                    continue
            if s.startswith("\r\n", j):
                self.last, self.i = start, j + 2
                return ("newline", "")
            if s.startswith("\n", j):
                self.last, self.i = start, j + 1
                return ("newline", "")
            if j > start:
                self.last, self.i = start, j
                self.eat_ws()
                return ("indent", "")
            break
        self.last = start
        if start >= len(s) or s[start] == "\0":
            return ("eof", "")
        for sym in ("|@", "||", "|", "=", ":"):
            if s.startswith(sym, start):
                self.i = start + len(sym)
                self.eat_ws()
                return (sym, sym)
        j = start
        while j < len(s) and s[j] in NAME_CHARS:
            j += 1
        if j > start:
            word = s[start:j]
            self.i = j
            self.eat_ws()
            return (word if word in KEYWORDS else "ident", word)
        self.i = start + 1
        return ("error", s[start])

    def peek(self, kind):
        save = (self.i, self.last)
        t = self.token()
        if t[0] == kind:
            return True
        self.i, self.last = save
        return False

    def unread(self, save):
        self.i, self.last = save

    def ident(self):
        j = self.i
        while j < len(self.s) and self.s[j] in NAME_CHARS:
            j += 1
        if j == self.i:
            self.last = self.i
            return None
        word = self.s[self.i:j]
        self.last = self.i
        self.i = j
        self.eat_ws()
        return word

    def eval_string(self, path):
        """Reads a path (ends at space : | newline) or a value (ends at newline).  Returns the
        eval string as a list of ("t", text) / ("v", name)."""
        s = self.s
        out = []

        def add(kind, text):
            if kind == "t" and out and out[-1][0] == "t":
                out[-1] = ("t", out[-1][1] + text)
            else:
                out.append((kind, text))
        while True:
            start = self.i
            if start >= len(s) or s[start] == "\0":
                self.last = start
                self.err("unexpected EOF")
            c = s[start]
            if s.startswith("\r\n", start):
                if not path:
                    self.i = start + 2
                break
            if c in " :|\n":
                if path:
                    break
                if c == "\n":
                    self.i = start + 1
                    break
                add("t", c)
                self.i += 1
                continue
            if c == "$":
                n = s[start + 1:start + 2]
                if n == "$":
                    add("t", "$"); self.i += 2; continue
                if n == " ":
                    add("t", " "); self.i += 2; continue
                if n == ":":
                    add("t", ":"); self.i += 2; continue
                if s.startswith("$\r\n", start) or s.startswith("$\n", start):
                    self.i = start + (3 if s.startswith("$\r\n", start) else 2)
                    while s.startswith(" ", self.i):
                        self.i += 1
                    continue
                if n == "{":
                    k = start + 2
                    while k < len(s) and s[k] in NAME_CHARS:
                        k += 1
                    if k > start + 2 and s.startswith("}", k):
                        add("v", s[start + 2:k]); self.i = k + 1; continue
                    self.last = start
                    self.err("bad $-escape (literal $ must be written as $$)")
                if n == "^":
                    if self.newline_escape_ok():
                        add("t", "\n"); self.i += 2; continue
                    self.last = start
                    self.err("using $^ escape requires specifying 'ninja_required_version' with version greater or equal 1.14")
                k = start + 1
                while k < len(s) and s[k] in SIMPLE_NAME_CHARS:
                    k += 1
                if k > start + 1:
                    add("v", s[start + 1:k]); self.i = k; continue
                self.last = start
                if n in ("", "\0"):
                    self.err("unexpected EOF")   # '$' followed by the end of input
                self.err("bad $-escape (literal $ must be written as $$)")
            if c == "\r":
                self.last = start
                self.err("lexing error")
            # plain text run
            k = start
            while k < len(s) and s[k] not in "$ :\r\n|\0":
                k += 1
            add("t", s[start:k])
            self.i = k
        self.last = start
        if path:
            self.eat_ws()
        return out


def evaluate(ev, env):
    return "".join(t if k == "t" else env.lookup(t) for k, t in ev)


class Parser:
    def __init__(self, files, graph, phony_rule, block_values_see_block=False, paths_see_block=True, inherit_version=False,
                 phonycycle_err=False):
        self.phonycycle_err = phonycycle_err   # -w phonycycle=err: the legacy self reference is not tolerated (it stays in the graph)
        self.files, self.g, self.phony = files, graph, phony_rule
        self.inherit_version = inherit_version
        self.block_values_see_block = block_values_see_block
        self.paths_see_block = paths_see_block

    def load(self, name, env, parent_lexer=None, chain=(), inherited=False):
        if name not in self.files:
            if parent_lexer:
                parent_lexer.err("loading '%s': No such file or directory" % name)
            raise ManifestError(name, 0, "loading '%s': No such file or directory" % name)
        self.parse(name, self.files[name], env, chain + (canon(name),), inherited)

    def expect(self, lx, kind):
        save = (lx.i, lx.last)
        t = lx.token()
        if t[0] != kind:
            lx.err("expected %s, got %s" % (kind, t[0]))
        return t

    def parse(self, fname, text, env, chain, inherited=False):
        lx = Lexer(fname, text)
        lx.inherited, lx.inherit_reading = inherited, self.inherit_version
        while True:
            kind, word = lx.token()
            if kind == "pool":
                self.parse_pool(lx, env)
            elif kind == "build":
                self.parse_edge(lx, env)
            elif kind == "rule":
                self.parse_rule(lx, env)
            elif kind == "default":
                self.parse_default(lx, env)
            elif kind == "ident":
                lx.unread((lx.last, lx.last))
                name, ev = self.parse_let(lx)
                value = evaluate(ev, env)
                if name == "ninja_required_version":
                    lx.own_version = parse_version(value)
                env.vars[name] = value
            elif kind in ("include", "subninja"):
                ev = lx.eval_string(True)
                path = evaluate(ev, env)
                if canon(path) in chain:
                    lx.err("'%s' includes itself" % path)
                sub = Env(env) if kind == "subninja" else env
                self.load(path, sub, lx, chain, (lx.own_version is not None and lx.own_version >= (1, 14)) or lx.inherited)
                self.expect(lx, "newline")
            elif kind == "error":
                lx.err("lexing error" if word != "\t" else "tabs are not allowed, use spaces")
            elif kind == "eof":
                return
            elif kind == "newline":
                pass
            else:
                lx.err("unexpected %s" % kind)

    def parse_let(self, lx):
        name = lx.ident()
        if name is None:
            lx.err("expected variable name")
        self.expect(lx, "=")
        ev = lx.eval_string(False)
        return name, ev

    def parse_pool(self, lx, env):
        name = lx.ident()
        if name is None:
            lx.err("expected pool name")
        self.expect(lx, "newline")
        if name in self.g.pools or name in ("console", ""):
            lx.err("duplicate pool '%s'" % name)
        depth = -1
        while lx.peek("indent"):
            key, ev = self.parse_let(lx)
            if key == "depth":
                v = evaluate(ev, env)
                # "depth = <integer>": a non-negative decimal integer that fits an int
                if not re.fullmatch(r"-?[0-9]+", v) or int(v) < 0 or int(v) > 2147483647:
                    lx.err("invalid pool depth")
                depth = int(v)
            else:
                lx.err("unexpected variable '%s'" % key)
        if depth < 0:
            lx.err("expected 'depth =' line")
        self.g.pools[name] = depth

    def parse_rule(self, lx, env):
        name = lx.ident()
        if name is None:
            lx.err("expected rule name")
        self.expect(lx, "newline")
        if name in env.rules:
            lx.err("duplicate rule '%s'" % name)
        r = Rule(name)
        while lx.peek("indent"):
            key, ev = self.parse_let(lx)
            if key not in RESERVED:
                lx.err("unexpected variable '%s'" % key)
            r.bindings[key] = ev
        has_rsp = bool(r.bindings.get("rspfile"))
        has_rspc = bool(r.bindings.get("rspfile_content"))
        if has_rsp != has_rspc:
            lx.err("rspfile and rspfile_content need to be both specified")
        if not r.bindings.get("command"):
            lx.err("expected 'command =' line")
        env.rules[name] = r

    def parse_default(self, lx, env):
        ev = lx.eval_string(True)
        if not ev:
            lx.err("expected target name")
        while ev:
            path = evaluate(ev, env)
            if path == "":
                lx.err("empty path")
            p = canon(path)
            if p not in self.g.nodes:
                lx.err("unknown target '%s'" % path)
            self.g.defaults.append(p)
            ev = lx.eval_string(True)
        self.expect(lx, "newline")

    def parse_edge(self, lx, env):
        outs, iouts, ins, implicit, order_only, validations = [], [], [], [], [], []

        def read_paths(dst):
            while True:
                ev = lx.eval_string(True)
                if not ev:
                    return
                dst.append(ev)
        read_paths(outs)
        if lx.peek("|"):
            read_paths(iouts)
        if not outs and not iouts:
            lx.err("expected path")
        self.expect(lx, ":")
        rule_name = lx.ident()
        if rule_name is None:
            lx.err("expected build command name")
        rule = self.phony if rule_name == "phony" and env.lookup_rule("phony") is None else env.lookup_rule(rule_name)
        if rule_name == "phony" and rule is None:
            rule = self.phony
        if rule is None:
            lx.err("unknown build rule '%s'" % rule_name)
        read_paths(ins)
        if lx.peek("|"):
            read_paths(implicit)
        if lx.peek("||"):
            read_paths(order_only)
        if lx.peek("|@"):
            read_paths(validations)
        self.expect(lx, "newline")
        e = Edge()
        e.rule = rule
        has_block = lx.peek("indent")
        benv = Env(env) if has_block else env
        while has_block:
            key, ev = self.parse_let(lx)
            value = evaluate(ev, benv if self.block_values_see_block else env)   # immediate expansion
            benv.vars[key] = value
            e.block[key] = value
            has_block = lx.peek("indent")
        e.env = env
        e.block_env = benv
        def paths(evs, what):
            res = []
            for ev in evs:
                p = evaluate(ev, benv if self.paths_see_block else env)
                if p == "":
                    lx.err("empty path")
                res.append(canon(p))
            return res
        e.outs = paths(outs, "out")
        e.iouts = paths(iouts, "out")
        for o in e.outs + e.iouts:
            if o in self.g.producer:
                lx.err("multiple rules generate %s" % o)
        seen = set()
        for o in e.outs + e.iouts:
            if o in seen:
                lx.err("multiple rules generate %s" % o)
            seen.add(o)
        e.ins = paths(ins, "in")
        e.implicit = paths(implicit, "in")
        e.order_only = paths(order_only, "in")
        e.validations = paths(validations, "in")
        # legacy: a phony statement whose single output is also an input (CMake 2.8.12 - 3.0)
        if rule.name == "phony" and len(e.outs) == 1 and not e.iouts and not e.implicit and not self.phonycycle_err:
            o = e.outs[0]
            if o in e.ins or o in e.order_only:
                e.ins = [x for x in e.ins if x != o]
                e.order_only = [x for x in e.order_only if x != o]
        for o in e.outs + e.iouts:
            self.g.producer[o] = e
            self.g.nodes.add(o)
        for p in e.ins + e.implicit + e.order_only + e.validations:
            self.g.nodes.add(p)
        # pool: a rule variable like any other -- expanded in the statement's scope, where $in and $out are bound
        pool = self.g.evaluate(e, "pool")
        if pool != "":
            if pool != "console" and pool not in self.g.pools:
                lx.err("unknown pool name '%s'" % pool)
            e.pool = pool
        dd = self.g.evaluate(e, "dyndep", shell=False)
        if dd != "":
            ddp = canon(dd)
            if ddp not in e.ins + e.implicit + e.order_only:
                lx.err("dyndep '%s' is not an input" % dd)
            e.dyndep = ddp
        self.g.edges.append(e)


def parse_version(v):
    """major.minor the way ninja reads them (version.cc ParseVersion): leading integers, missing minor = 0."""
    import re
    m = re.match(r"\s*(\d*)(?:\.(\d*))?", v)
    return (int(m.group(1) or 0), int(m.group(2) or 0))


def parse(files, main="build.ninja", block_values_see_block=False, paths_see_block=True, inherit_version=False, phonycycle_err=False):
    g = Graph()
    g.nodes = set()
    phony = Rule("phony")
    p = Parser(files, g, phony, block_values_see_block, paths_see_block, inherit_version, phonycycle_err)
    top = Env()
    p.load(main, top)
    return g


def expectations(files, phonycycle_err=False):
    """All readings the manual permits: list of dumps / '!error:<file>:<line>' / '!fatal'."""
    res = []
    uses_newline_escape = any("$^" in t for t in files.values())
    for bv in (False, True):
        for ps in (True, False):
          for iv in ((False, True) if uses_newline_escape else (False,)):
            try:
                g = parse(files, block_values_see_block=bv, paths_see_block=ps, inherit_version=iv, phonycycle_err=phonycycle_err)
                r = g.dump()
            except ManifestError as e:
                r = "!error:%s:%d:" % (e.file, e.line)
            except RecursionError:
                r = "!fatal"
            if r not in res:
                res.append(r)
    return res
