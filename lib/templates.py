"""Curated scenario templates (DESIGN.md 3.1): feature interactions named in the property texts."""
from scen import Stmt, Variant, scenario, standard_ops, ninja_op, sources_of


def _mk(name, variants, tags=(), files=None, depth=2, js=(1, 3), fresh_depth=1, builddir="", dirs=(), **kw):
    """Two scenarios per template: exploration from the fresh tree and from a fully built tree."""
    files = dict(files or {})
    out = []
    kw.setdefault("ks", (1, 0))
    ops = standard_ops(variants, files, js=js, **kw)
    build_idx = next(i for i, o in enumerate(ops) if o["op"] == "ninja")
    out.append(scenario(name + "/fresh", "template", variants, files=files, ops=ops, init=[], depth=fresh_depth,
                        tags=list(tags) + ["fresh"], builddir=builddir, dirs=dirs))
    out.append(scenario(name + "/built", "template", variants, files=files, ops=ops, init=[build_idx], depth=depth,
                        tags=list(tags) + ["built"], builddir=builddir, dirs=dirs))
    return out


def templates(tier="quick"):
    T = []
    d = 3 if tier == "quick" else 4

    # T1 chain of three plain statements
    v = Variant("v0", [Stmt("a", ex=["s"]), Stmt("b", ex=["a"]), Stmt("c", ex=["b"])])
    v1 = Variant("v1", [Stmt("a", ex=["s"], ver=1), Stmt("b", ex=["a"]), Stmt("c", ex=["b"])])
    T += _mk("chain3", [v, v1], tags=["plain", "cmdline-change"], depth=d)

    # T2 diamond with parallelism
    v = Variant("v0", [Stmt("a", ex=["s"]), Stmt("b", ex=["s", "t"]), Stmt("c", ex=["a", "b"])])
    T += _mk("diamond", [v], tags=["plain", "parallel"], depth=d, targets_extra=["a"], pair_faults=True)

    # T3 restat producer feeding a deps=gcc consumer with a hidden header (F1/F2 shape)
    v = Variant("v0", [Stmt("gen", ex=["tmpl"], restat=True),
                       Stmt("obj", ex=["src"], im=["gen"], hidden=["hdr"], deps="gcc")])
    T += _mk("restat_deps", [v], tags=["restat", "deps-gcc"], depth=d, touch=True)

    # T3b restat producer feeding a plain consumer and a depfile consumer
    v = Variant("v0", [Stmt("gen", ex=["tmpl"], restat=True),
                       Stmt("obj", ex=["src", "gen"]),
                       Stmt("obj2", ex=["gen"], hidden=["hdr"], depfile=True)])
    T += _mk("restat_plain_depfile", [v], tags=["restat", "depfile"], depth=d, touch=True)

    # T4 depfile (no deps log) consumer
    v = Variant("v0", [Stmt("obj", ex=["src"], hidden=["hdr", "hdr2"], depfile=True), Stmt("exe", ex=["obj"])])
    T += _mk("depfile", [v], tags=["depfile"], depth=d, rm_depfiles=True)

    # T4c a checked-in header that the statement lists after `||` and that its depfile names as well: what the depfile says makes
    # it a real dependency (plain depfile and deps log)
    for kind, kw in (("depfile", {"depfile": True}), ("gcc", {"deps": "gcc"})):
        v = Variant("v0", [Stmt("obj", ex=["src"], oo=["hdr", "stamp"], hidden=["hdr", "hdr2"], **kw), Stmt("stamp", ex=["cfg"]), Stmt("exe", ex=["obj"])])
        T += _mk("discovered_dep_also_order_only_" + kind, [v], tags=["depfile"], depth=d)

    # T5 deps=gcc with order-only input
    v = Variant("v0", [Stmt("stamp", ex=["cfg"]),
                       Stmt("obj", ex=["src"], oo=["stamp"], hidden=["a.h", "b.h"], deps="gcc"),
                       Stmt("exe", ex=["obj"])])
    T += _mk("deps_gcc_oo", [v], tags=["deps-gcc", "order-only"], depth=d)

    # T6 deps=msvc
    v = Variant("v0", [Stmt("obj", ex=["src"], hidden=["inc.h"], deps="msvc"), Stmt("exe", ex=["obj"])])
    T += _mk("deps_msvc", [v], tags=["deps-msvc"], depth=d)
    # T6b a unity / amalgamation source: the first files the compiler reports are themselves .cpp / .c files
    v = Variant("v0", [Stmt("unity.obj", ex=["unity.cpp"], hidden=["part1.cpp", "part2.c", "inc.h"], deps="msvc"), Stmt("exe", ex=["unity.obj"])])
    T += _mk("deps_msvc_unity", [v], tags=["deps-msvc"], depth=d, max_fault_stmts=1)

    # T7 generated header with an order-only manifest path to its generator
    v = Variant("v0", [Stmt("gen.h", ex=["h.in"]),
                       Stmt("obj", ex=["src"], oo=["gen.h"], hidden=["gen.h"], deps="gcc"),
                       Stmt("exe", ex=["obj"])])
    T += _mk("generated_header_oo", [v], tags=["deps-gcc", "generated-header", "order-only"], depth=d)

    # T8 phony alias pass-through
    v = Variant("v0", [Stmt("a", ex=["s"]), Stmt("b", ex=["t"]),
                       Stmt("all", ex=["a", "b"], phony=True),
                       Stmt("out", ex=["all"]),
                       Stmt("top", ex=["out"], phony=True)], defaults=["top"])
    T += _mk("phony_chain", [v], tags=["phony"], depth=d, targets_extra=["a", "out"])

    # T9 multi-output and implicit output
    v = Variant("v0", [Stmt(["x", "y"], ex=["s"], iouts=["z"]),
                       Stmt("c", ex=["x"]), Stmt("d", ex=["y"], im=["z"])])
    T += _mk("multi_output", [v], tags=["multi-output", "implicit-output"], depth=d, targets_extra=["c"])

    # T10 validation that depends on its requester
    v = Variant("v0", [Stmt("out", ex=["src"], val=["chk"]), Stmt("chk", ex=["out", "rules"]),
                       Stmt("top", ex=["out"])], defaults=["top"])
    T += _mk("validation", [v], tags=["validation"], depth=d, targets_extra=["out"])

    # T11 pool of depth 1 with three members, and a depth-2 pool
    v = Variant("v0", [Stmt("p1", ex=["s"], pool="one"), Stmt("p2", ex=["s"], pool="one"),
                       Stmt("p3", ex=["t"], pool="one"), Stmt("q", ex=["p1", "p2", "p3"])],
                pools={"one": 1})
    T += _mk("pool_depth1", [v], tags=["pool"], depth=d, js=(1, 2, 3), max_fault_stmts=2)
    v = Variant("v0", [Stmt("p1", ex=["s"], pool="two"), Stmt("p2", ex=["s"], pool="two"),
                       Stmt("p3", ex=["t"], pool="two"), Stmt("p4", ex=["t"], pool="two"),
                       Stmt("q", ex=["p1", "p2"]), Stmt("r", ex=["p3", "p4", "q"])],
                pools={"two": 2})
    T += _mk("pool_depth2", [v], tags=["pool"], depth=min(d, 2), js=(2, 4), with_rm=False, max_fault_stmts=2)
    # load-limited capacity (-l): above the limit only one command at a time, below it up to the limit
    lops = standard_ops([v], {}, js=(4,), with_rm=False, with_faults=False, edits_during=False)
    for load in ("0", "1.5", "9"):
        lops.append(ninja_op(j=4, flags=["-l", "2"], env={"VERIF_LOADAVG": load}, label="ninja -j4 -l2 (load average %s)" % load))
        lops.append(ninja_op(j=4, flags=["-l", "2"], env={"VERIF_LOADAVG": load}, faults={"p1": {"code": 1}}, k=0,
                             label="ninja -j4 -k0 -l2 (load average %s) faults=p1:1" % load))
    T.append(scenario("load_limit/fresh", "template", [v], ops=lops, init=[], depth=1, tags=["pool", "load", "fresh"]))

    # T10b validations of validations (out |@ v1, v1 |@ v2, v2 |@ v3 ...): every one reachable this way belongs to the build
    v = Variant("v0", [Stmt("out", ex=["s"], val=["v1"]), Stmt("v1", ex=["out"], val=["v2"]), Stmt("v2", ex=["t"], val=["v3"]),
                       Stmt("v3", ex=["v2", "u"]), Stmt("top", ex=["out"])], defaults=["top"])
    T += _mk("validations_of_validations", [v], tags=["validation"], depth=d, js=(1, 3), targets_extra=["out"], max_fault_stmts=2)

    # T10c `restat = 1` (and `generator = 1`) bound at file level, for statements with and without a block of their own: the
    # lookup order for a statement's bindings is build, rule, file
    r1 = Stmt("gen", ex=["tmpl"], restat=True, pool="pp")     # has a block of its own (pool)
    r1.restat_at_file_level = True
    r2 = Stmt("gen2", ex=["tmpl2"], restat=True)               # has none
    r2.restat_at_file_level = True
    v = Variant("v0", [r1, r2, Stmt("a", ex=["gen"]), Stmt("b", ex=["gen2"]), Stmt("top", ex=["a", "b"])], pools={"pp": 1},
                header="restat = 1")
    T += _mk("restat_bound_at_file_level", [v], tags=["restat", "pool"], depth=d, js=(1, 2), touch=True, max_fault_stmts=1, edits_during=False)

    # T13f / T21c a build statement that overrides the rule's `rspfile` / `depfile` binding with a path of its own (lookup
    # order build, rule, file): ninja writes the response file and makes the depfile's directory where the *statement* says
    lib = Stmt("out/lib", ex=["a.o"], rsp=("out/lib.rsp", "a.o"))
    lib.rsp_decoy = "elsewhere/rule.rsp"
    obj = Stmt("a.o", ex=["a.c"], hidden=["h"], depfile=True)
    obj.depfile_dir = "deps/a"
    obj.depfile_decoy = "rule_deps/$out.d"
    v = Variant("v0", [obj, lib, Stmt("exe", ex=["out/lib"])])
    T += _mk("statement_overrides_rule_paths", [v], tags=["rspfile", "mkdirs", "depfile"], depth=min(d, 2), js=(1, 2), max_fault_stmts=2, edits_during=False)

    # T9b a statement with recorded dependencies and two outputs (the second is written after the first), and a depfile that
    # names an implicit output next to the explicit one
    two = Stmt(["o1", "o2"], ex=["s"], hidden=["h"], deps="gcc")
    imp = Stmt("g.c", iouts=["g.h"], ex=["g.y"], hidden=["defs.h"], depfile=True)
    imp.dep_all_outs = True
    v = Variant("v0", [two, imp, Stmt("top", ex=["o1", "o2", "g.c"], im=["g.h"])])
    T += _mk("several_outputs_with_discovered_deps", [v], tags=["deps-gcc", "depfile", "multi-output"], depth=d, js=(1, 2), max_fault_stmts=2, touch=True)

    # T9d a file that the command has always written becomes a declared output of the (otherwise unchanged) statement: it has
    # no record in the log, so the statement runs -- also when somebody had edited the file in the meantime
    v0 = Variant("v0", [Stmt("a", ex=["s"], extra_outs=["b"]), Stmt("top", ex=["a"])])
    v1 = Variant("v1", [Stmt(["a", "b"], ex=["s"]), Stmt("top", ex=["a"])])
    fops = standard_ops([v0, v1], {}, js=(1, 2), ks=(1,), edits_during=False, max_fault_stmts=1, with_rm=False)
    fops.append({"op": "write", "path": "b", "content": "edited by hand while the manifest did not claim it\n", "label": "b:=hand edit"})
    fb = next(i for i, o in enumerate(fops) if o["op"] == "ninja")
    # (history depth 3 in both tiers: one level deeper the alphabet reaches "the manifest claims b, a build, then the hand
    # edit" -- editing a declared output by hand is outside the premises of C01, and the thorough tier reported it)
    T.append(scenario("file_becomes_a_declared_output/built", "template", [v0, v1], ops=fops, init=[fb], depth=min(d, 3), tags=["multi-output", "built"]))

    # T9c statements all of whose outputs are implicit (`build | out.bin: ...`), with discovered dependencies
    for kind, kw in (("gcc", {"deps": "gcc"}), ("depfile", {"depfile": True})):
        o = Stmt("out.bin", ex=["src"], hidden=["hdr"], **kw)
        o.outs_all_implicit = True
        T += _mk("only_implicit_outputs_%s" % kind, [Variant("v0", [o, Stmt("top", ex=["out.bin"])])], tags=["deps", "implicit-output"], depth=d,
                 js=(1, 2), max_fault_stmts=1, touch=True)

    # T6c a localized compiler: the /showIncludes prefix is bound at file level (msvc_deps_prefix), as build generators write it
    o = Stmt("obj", ex=["src"], hidden=["inc.h", "gen.h"], oo=["gen.h"], deps="msvc")
    o.msvc_prefix = "Hinweis: Einlesen der Datei: "
    v = Variant("v0", [Stmt("gen.h", ex=["h.in"]), o, Stmt("exe", ex=["obj"])], header="msvc_deps_prefix = Hinweis: Einlesen der Datei: ")
    T += _mk("deps_msvc_localized_prefix", [v], tags=["deps-msvc"], depth=d, js=(1, 2), max_fault_stmts=1)

    # T11b a phony statement bound to the pool (a build-level `pool =` on an alias) that becomes ready in the middle of the
    # build, with more members of the pool behind it than the pool is deep
    v = Variant("v0", [Stmt("a", ex=["s"]), Stmt("al", ex=["a"], phony=True, pool="one"), Stmt("p1", ex=["al"], pool="one"),
                       Stmt("p2", ex=["al"], pool="one"), Stmt("p3", ex=["al", "t"], pool="one"), Stmt("q", ex=["p1", "p2", "p3"])],
                pools={"one": 1})
    T += _mk("pool_with_phony_member", [v], tags=["pool", "phony"], depth=min(d, 2), js=(2, 3), max_fault_stmts=1, with_rm=False)

    # T12 console pool
    v = Variant("v0", [Stmt("c1", ex=["s"], pool="console"), Stmt("c2", ex=["t"], pool="console"),
                       Stmt("n", ex=["s"]), Stmt("top", ex=["c1", "c2", "n"])])
    T += _mk("console", [v], tags=["pool", "console"], depth=min(d, 2), js=(1, 3), max_fault_stmts=2)

    # T13 response file; content change
    v = Variant("v0", [Stmt("lib", ex=["a.o", "b.o"], rsp=("lib.rsp", "a.o b.o")), Stmt("exe", ex=["lib"])])
    v1 = Variant("v1", [Stmt("lib", ex=["a.o", "b.o"], rsp=("lib.rsp", "a.o b.o --extra")), Stmt("exe", ex=["lib"])])
    T += _mk("rspfile", [v, v1], tags=["rspfile"], depth=d)
    # ... `-d keepdepfile` is about depfiles: the response file of a command that succeeded goes all the same
    T[-1]["ops"].append(ninja_op(j=2, flags=["-d", "keepdepfile"], label="ninja -j2 -d keepdepfile"))
    T[-2]["ops"].append(ninja_op(j=2, flags=["-d", "keepdepfile"], label="ninja -j2 -d keepdepfile"))
    # ... and an interrupt while the command that reads the response file runs: it has not succeeded, the file stays
    T[-1]["ops"].append(ninja_op(j=2, interrupt=True))
    T[-2]["ops"].append(ninja_op(j=2, interrupt=True))
    # T13b response file whose declared content is empty (and becomes empty after having been non-empty)
    v2 = Variant("v2", [Stmt("lib", ex=["a.o", "b.o"], rsp=("lib.rsp", "")), Stmt("exe", ex=["lib"])])
    T += _mk("rspfile_empty", [v2, v], tags=["rspfile"], depth=d)
    T += _mk("rspfile_becomes_empty", [v, v2], tags=["rspfile"], depth=d)

    # T13c the response file sits next to an output in a directory that does not exist yet (ninja creates output directories;
    # no depfile of the same rule that would have it created earlier)
    v = Variant("v0", [Stmt("o2/deep/lib", ex=["s"], rsp=("o2/deep/lib.rsp", "s")), Stmt("exe", ex=["o2/deep/lib"])])
    T += _mk("rspfile_in_new_directory", [v], tags=["rspfile", "mkdirs"], depth=2, js=(1, 2), max_fault_stmts=1, edits_during=False)

    # T13d the content is written as $in_newline / $in and the inputs have names the shell would split or expand: the
    # file holds one quoted word per input (the quoting of $in, newline separated)
    def shq(n):
        import re
        return n if re.fullmatch(r"[A-Za-z0-9_+\-./]+", n) else "'" + n.replace("'", "'\\''") + "'"
    names = ["a b.o", "c'd.o", "e$$f.o".replace("$$", "$"), "plain.o", "..gen/q.o", ".../r.o"]   # (components that merely begin with dots)
    for var, sep in (("$in_newline", "\n"), ("$in", " ")):
        lib = Stmt("lib", ex=names, rsp=("lib.rsp", sep.join(shq(n) for n in names)))
        lib.rsp_manifest = var
        T += _mk("rspfile_" + var[1:], [Variant("v0", [lib, Stmt("exe", ex=["lib"])])], tags=["rspfile", "names"], depth=2, js=(1, 2),
                 max_fault_stmts=1, edits_during=False)

    # T13g the statement's dyndep file names, as an implicit input, a file the manifest already lists as an explicit one: the
    # statement's $in (here: what goes into the response file) is still every explicit input
    names2 = ["a.o", "b.o", "c.o"]
    for var, sep in (("$in_newline", "\n"), ("$in", " ")):
        lib = Stmt("lib", ex=names2, oo=["dd"], dyndep="dd", rsp=("lib.rsp", sep.join(names2)))
        lib.rsp_manifest = var
        from family_cycles import dyndep_text as _ddt0
        T += _mk("rspfile_in_with_dyndep_repeating_an_input_" + var[1:], [Variant("v0", [lib, Stmt("exe", ex=["lib"])])], tags=["rspfile", "dyndep"],
                 depth=2, js=(1, 2), max_fault_stmts=1, edits_during=False, files={"dd": _ddt0([("lib", [], ["c.o", "b.o"], False)])}, touch_only=("dd",))

    # T13e writing the response file (or creating a directory) fails: every file operation of a build with response files
    # in subdirectories is made to fail once -- nothing may start without what it needs
    vf = Variant("v0", [Stmt("out/x.o", ex=["s"]), Stmt("out/lib", ex=["out/x.o"], rsp=("out/lib.rsp", "out/x.o")),
                        Stmt("exe", ex=["out/lib"], rsp=("exe.rsp", "out/lib"))])
    fops = [{"op": "edit", "path": "s", "label": "edit s"}, ninja_op(j=1),
            dict(ninja_op(j=2, subsets=False, label="ninja -j2 [a fault at every file operation]"), crash=True, no_expand=True)]
    T.append(scenario("rspfile_io_errors/fresh", "template", [vf], ops=fops, init=[], depth=1, tags=["rspfile", "io-errors", "fresh"]))
    T.append(scenario("rspfile_io_errors/built", "template", [vf], ops=fops, init=[1], depth=2, tags=["rspfile", "io-errors", "built"]))

    # T13c the command with the response file succeeds, but the build is stopped by an error found while finishing it:
    # the dyndep file it produced does not parse
    vb = Variant("v0", [Stmt("dd", ex=["dd.in"], copy=True, rsp=("dd.rsp", "dd.in")), Stmt("out", ex=["in"], oo=["dd"], dyndep="dd"),
                        Stmt("other", ex=["s"])])
    T += _mk("rspfile_finish_error", [vb], tags=["rspfile", "no-conformance"], depth=2, js=(1, 2), with_faults=False, edits_during=False,
             files={"dd.in": "ninja_dyndep_version = 1\nbuild out: dyndep |\n  garbage\n"}, touch_only=("dd.in",))

    # T14 outputs in subdirectories that do not exist yet
    v = Variant("v0", [Stmt("out/a/x.o", ex=["s"], hidden=["h"], depfile=True), Stmt("out/bin/exe", ex=["out/a/x.o"])])
    T += _mk("subdirs", [v], tags=["mkdirs", "depfile"], depth=d)

    # T15 generator rule: command-line change must not re-run it
    v = Variant("v0", [Stmt("cfg.out", ex=["cfg.in"], generator=True), Stmt("use", ex=["cfg.out"])])
    v1 = Variant("v1", [Stmt("cfg.out", ex=["cfg.in"], generator=True, ver=1), Stmt("use", ex=["cfg.out"])])
    T += _mk("generator_rule", [v, v1], tags=["generator"], depth=d)

    # T16 manifest regeneration: build.ninja is produced from build.ninja.in by a generator statement
    def regen(name, ver):
        return Variant(name, [Stmt("build.ninja", ex=["build.ninja.in"], generator=True, copy=True),
                              Stmt("a", ex=["s"], ver=ver), Stmt("b", ex=["a"])], defaults=["b"])
    va, vb = regen("m0", 0), regen("m1", 1)
    ops = [
        {"op": "write", "path": "build.ninja.in", "content": vb.manifest(), "label": "build.ninja.in:=m1"},
        {"op": "write", "path": "build.ninja.in", "content": va.manifest(), "label": "build.ninja.in:=m0"},
        {"op": "edit", "path": "s", "label": "edit s"},
        {"op": "rm", "path": "a", "label": "rm a"},
        ninja_op(j=1), ninja_op(j=3),
        ninja_op(j=3, faults={"a": {"code": 1}}),
        ninja_op(j=3, faults={"build.ninja": {"code": 1}}),
        ninja_op(j=3, faults={"build.ninja": {"code": 7}}),
        {"op": "rm", "path": "s", "label": "rm source s"},
        # the generator's own source is gone: bringing the manifest up to date is refused (missing, no rule) -- an error, not a success
        {"op": "rm", "path": "build.ninja.in", "label": "rm source build.ninja.in"},
    ]
    files = {"build.ninja.in": va.manifest(), "s": "s-v0\n"}
    T.append(scenario("manifest_regen/fresh", "template", [va, vb], files=files, ops=ops, init=[], depth=2,
                      tags=["generator", "manifest-regen", "fresh"]))
    T.append(scenario("manifest_regen/built", "template", [va, vb], files=files, ops=ops, init=[4], depth=d,
                      tags=["generator", "manifest-regen", "built"]))

    # T16c the manifest is up to date itself but has a prerequisite with work to do: ninja runs it in the manifest phase, resets
    # the graph's state (State::Reset) and scans everything a second time in the same process -- dyndep files still to be
    # loaded, recorded dependencies still to be looked at
    from family_cycles import dyndep_text as _ddt
    def regen3(name, ver):
        return Variant(name, [Stmt("pre", ex=["p.in"]),
                              Stmt("build.ninja", ex=["build.ninja.in"], oo=["pre"], generator=True, copy=True),
                              Stmt("dd", ex=["dd.in"], copy=True), Stmt("x", ex=["s"]),
                              Stmt("out", ex=["in"], oo=["dd"], dyndep="dd", extra_reads=["x"]),
                              Stmt("gen.h", ex=["g.in"]), Stmt("obj", ex=["src"], oo=["gen.h"], hidden=["gen.h"], deps="gcc"),
                              Stmt("top", ex=["out", "obj"], ver=ver)], defaults=["top"])
    va, vb = regen3("m0", 0), regen3("m1", 1)
    ops = [{"op": "edit", "path": "p.in", "label": "edit p.in"}, {"op": "edit", "path": "s", "label": "edit s"},
           {"op": "edit", "path": "g.in", "label": "edit g.in"}, {"op": "touch", "path": "dd.in", "label": "touch dd.in"},
           {"op": "write", "path": "build.ninja.in", "content": vb.manifest(), "label": "build.ninja.in:=m1"},
           ninja_op(j=1), ninja_op(j=3)]
    files = {"build.ninja.in": va.manifest(), "dd.in": _ddt([("out", [], ["x"], False)])}
    T.append(scenario("manifest_prerequisite_then_second_scan/built", "template", [va, vb], files=files, ops=ops, init=[5], depth=5,
                      tags=["generator", "manifest-regen", "built", "dyndep", "deps"]))

    # T16d ... and the prerequisite is a statement with recorded dependencies, one of them generated and out of date as well; the
    # generator (restat) leaves the manifest alone, so the second scan runs on the same graph objects
    v = Variant("v0", [Stmt("hdr.h", ex=["hdr.src"]), Stmt("cfg.out", ex=["cfg.in"], hidden=["hdr.h"], deps="gcc"),
                       Stmt("build.ninja", ex=["build.ninja.in"], im=["cfg.out"], generator=True, restat=True, copy=True)],
                defaults=["cfg.out", "hdr.h"])
    ops = [{"op": "edit", "path": "cfg.in", "label": "edit cfg.in"}, {"op": "edit", "path": "hdr.src", "label": "edit hdr.src"},
           {"op": "touch", "path": "build.ninja.in", "label": "touch build.ninja.in"}, ninja_op(j=1), ninja_op(j=2)]
    T.append(scenario("manifest_prerequisite_with_recorded_deps/built", "template", [v], files={"build.ninja.in": v.manifest()}, ops=ops,
                      init=[3, 3], depth=5, tags=["generator", "manifest-regen", "built", "deps", "only:C01,C02,C03"]))
    # (only under the final-state / convergence oracles: with the statement dirty for a reason of its own its recorded
    # dependencies are not loaded in the manifest phase -- F1 -- so it runs there with the old header and once more in the
    # build proper, which the ordering and at-most-once oracles of C04 / C06 would report as F1 in another guise)

    # T16b a manifest written in parts: the generator (restat, as generators that only touch what changes are) writes build.ninja
    # and the file it pulls in with `subninja`; the two variants differ only in the included file, so a regeneration leaves
    # build.ninja itself alone
    def split(name, ver):
        a = Stmt("a", ex=["s"], ver=ver)
        a.scope = "rules.ninja"
        v = Variant(name, [Stmt("build.ninja", ex=["build.ninja.in", "rules.ninja.in"], iouts=["rules.ninja"], generator=True,
                                restat=True, copy=True), a, Stmt("b", ex=["a"])], defaults=["b"])
        v.title = "written in parts"
        return v
    sa, sb = split("p0", 0), split("p1", 1)
    assert sa.manifest() == sb.manifest()
    ops = [
        {"op": "write", "path": "rules.ninja.in", "content": sb.scoped_files()["rules.ninja"], "label": "rules.ninja.in:=p1"},
        {"op": "write", "path": "rules.ninja.in", "content": sa.scoped_files()["rules.ninja"], "label": "rules.ninja.in:=p0"},
        {"op": "touch", "path": "build.ninja.in", "label": "touch build.ninja.in"},
        {"op": "edit", "path": "s", "label": "edit s"},
        ninja_op(j=1), ninja_op(j=3),
    ]
    files = {"build.ninja.in": sa.manifest(), "rules.ninja.in": sa.scoped_files()["rules.ninja"], "s": "s-v0\n"}
    T.append(scenario("manifest_in_parts_regen/fresh", "template", [sa, sb], files=files, ops=ops, init=[], depth=2,
                      tags=["generator", "manifest-regen", "restat", "fresh"]))
    T.append(scenario("manifest_in_parts_regen/built", "template", [sa, sb], files=files, ops=ops, init=[4], depth=d,
                      tags=["generator", "manifest-regen", "restat", "built"]))

    # T17 two independent chains, partial targets
    v = Variant("v0", [Stmt("a1", ex=["s"]), Stmt("a2", ex=["a1"]), Stmt("b1", ex=["t"]), Stmt("b2", ex=["b1", "a1"])])
    T += _mk("two_chains", [v], tags=["plain", "partial-targets"], depth=d, targets_extra=["a2", "b2"], pair_faults=True)

    # T18 restat + phony + order-only mix
    v = Variant("v0", [Stmt("r", ex=["s"], restat=True), Stmt("al", ex=["r"], phony=True),
                       Stmt("o", ex=["t"], oo=["al"]), Stmt("p", ex=["al", "o"])])
    T += _mk("restat_phony_oo", [v], tags=["restat", "phony", "order-only"], depth=d, touch=True)


    # T19 four independent statements, more than -j allows: failures in flight beyond the -k budget
    v = Variant("v0", [Stmt("i1", ex=["s"]), Stmt("i2", ex=["s"]), Stmt("i3", ex=["t"]), Stmt("i4", ex=["t"]),
                       Stmt("link", ex=["i1", "i2", "i3", "i4"])])
    ops = standard_ops([v], {}, js=(2, 3), with_rm=False, with_faults=False)
    for fl in (("i1", "i2"), ("i1", "i3"), ("i2", "i4"), ("i1", "i2", "i3")):
        for k in (1, 2, 0):
            for j in (2, 3):
                ops.append(ninja_op(j=j, k=k, faults={n: {"code": c} for n, c in zip(fl, (1, 2, 3))}))
    ops.append(ninja_op(j=2, k=1, faults={"i1": {"code": 200}}))
    ops.append(ninja_op(j=2, k=0, faults={"i2": {"code": 255, "touch": True}, "i3": {"code": 131}}))
    ops.append(ninja_op(j=2, k=1, faults={"i1": {"code": 127}, "i2": {"code": 137}}))
    bi = next(i for i, o in enumerate(ops) if o["op"] == "ninja")
    T.append(scenario("indep4/fresh", "template", [v], ops=ops, init=[], depth=1, tags=["parallel", "faults", "fresh"]))
    T.append(scenario("indep4/built", "template", [v], ops=ops, init=[bi], depth=2, tags=["parallel", "faults", "built"]))

    # T20 restat statement behind two phony aliases next to independent work
    v = Variant("v0", [Stmt("r", ex=["s"], restat=True), Stmt("al1", ex=["r"], phony=True),
                       Stmt("al2", ex=["al1"], phony=True), Stmt("x", ex=["t"]), Stmt("y", ex=["al2"]),
                       Stmt("z", ex=["u"], oo=["al1"])], defaults=["y", "x", "z"])
    T += _mk("restat_aliases", [v], tags=["restat", "phony"], depth=d, touch=True, js=(1, 2))

    # T21: file names with spaces; depfile in a directory of its own, named through $out
    o = Stmt("obj dir/x y.o", ex=["src file.c"], hidden=["inc dir/h.h"], deps="gcc")
    o.depfile_dir = "deps"
    p = Stmt("obj dir/z.o", ex=["src file.c"], hidden=["inc dir/h.h"], depfile=True)
    p.depfile_dir = "d2/sub"
    v = Variant("v0", [o, p, Stmt("bin/app", ex=["obj dir/x y.o", "obj dir/z.o"])])
    T += _mk("spaces_depfile_dir", [v], tags=["mkdirs", "spaces", "depfile"], depth=d, files={"inc dir/h.h": "h\n"})

    # T14b outputs in directories nobody has made: an implicit output in a directory of its own (not shared with an explicit
    # one), written in the manifest and supplied by a dyndep file
    v = Variant("v0", [Stmt("a", iouts=["gen/sub/b.h"], ex=["s"]), Stmt("use", ex=["a"], im=["gen/sub/b.h"])])
    T += _mk("implicit_output_in_a_new_directory", [v], tags=["mkdirs", "implicit-output"], depth=min(d, 3))
    ddm = _ddt([("out", ["mods/m/out.mod"], [], False)])
    v = Variant("v0", [Stmt("dd", ex=["dd.in"], copy=True), Stmt("out", ex=["in"], oo=["dd"], dyndep="dd", extra_outs=["mods/m/out.mod"]),
                       Stmt("top", ex=["out"])])
    T += _mk("dyndep_output_in_a_new_directory", [v], tags=["mkdirs", "dyndep"], depth=min(d, 3), files={"dd.in": ddm}, touch_only=("dd.in",))

    # T22 dyndep information discovered mid-build names the output of a pooled / console / plain statement that is
    # already running, already delayed by its pool, or already done (the discovered producer was ready at the start)
    from family_cycles import dyndep_text
    for pname, pools, pool in (("none", {}, ""), ("depth1", {"pp": 1}, "pp"), ("depth2", {"pp": 2}, "pp"), ("console", {}, "console")):
        # (the plain variant also spells the discovered input in a non-canonical way)
        dd = dyndep_text([("out", [], ["./sub/../x" if pname == "none" else "x"], False)])
        v = Variant("v0", [Stmt("dd", ex=["dd.in"], copy=True), Stmt("x", ex=["s"], pool=pool), Stmt("w", ex=["t"], pool=pool),
                           Stmt("out", ex=["in"], oo=["dd"], dyndep="dd", extra_reads=["x"]), Stmt("top", ex=["out", "w"])],
                    pools=pools)
        T += _mk("dyndep_pool_" + pname, [v], tags=["dyndep", "pool"], depth=min(d, 3), js=(2, 4), files={"dd.in": dd},
                 max_fault_stmts=2, edits_during=False, touch_only=("dd.in",))

    # T22b the statement bound to the dyndep file also waits (order-only) for a stamp that is done before the dyndep file
    # is: its readiness has been examined once when the new input is spliced in front of the inputs examined then
    dd = dyndep_text([("out", [], ["x"], False)])
    v = Variant("v0", [Stmt("dd", ex=["dd.in"], copy=True), Stmt("stamp", ex=["u"]), Stmt("x", ex=["s"]),
                       Stmt("out", ex=["in"], oo=["stamp", "dd"], dyndep="dd", extra_reads=["x"]), Stmt("top", ex=["out"])])
    T += _mk("dyndep_after_stamp", [v], tags=["dyndep"], depth=min(d, 3), js=(3,), files={"dd.in": dd},
             max_fault_stmts=1, edits_during=False, touch_only=("dd.in",))
    v = Variant("v0", [Stmt("dd", ex=["dd.in"], copy=True), Stmt("stamp", ex=["u"]), Stmt("x", ex=["s"]),
                       Stmt("out", ex=["in"], im=["stamp"], oo=["dd"], dyndep="dd", extra_reads=["x"]), Stmt("top", ex=["out"])])
    T += _mk("dyndep_after_implicit_stamp", [v], tags=["dyndep"], depth=min(d, 3), js=(3,), files={"dd.in": dd},
             max_fault_stmts=1, edits_during=False, touch_only=("dd.in",))

    # T22c one statement makes a stamp (first output) and the dyndep file (second output); the bound statement waits for both
    v = Variant("v0", [Stmt(["stamp", "dd"], ex=["u", "dd.in"], copy=True), Stmt("x", ex=["s"]),
                       Stmt("out", ex=["in"], oo=["stamp", "dd"], dyndep="dd", extra_reads=["x"]), Stmt("top", ex=["out"])])
    T += _mk("dyndep_file_is_a_second_output", [v], tags=["dyndep"], depth=min(d, 3), js=(1, 3), files={"dd.in": dd},
             max_fault_stmts=1, edits_during=False, touch_only=("dd.in",))

    # T22d ... and with the dyndep file as an *implicit* output of that statement (build stamp | dd: ...)
    v = Variant("v0", [Stmt("stamp", iouts=["dd"], ex=["u", "dd.in"], copy=True), Stmt("x", ex=["s"]),
                       Stmt("out", ex=["in"], oo=["stamp", "dd"], dyndep="dd", extra_reads=["x"]), Stmt("top", ex=["out"])])
    T += _mk("dyndep_file_is_an_implicit_output", [v], tags=["dyndep"], depth=min(d, 3), js=(1, 3), files={"dd.in": dd},
             max_fault_stmts=1, edits_during=False, touch_only=("dd.in",))

    # T20b an up-to-date statement in the middle whose order-only inputs are being rebuilt (one of them fails) and a dirty
    # statement behind it: what is behind a failure does not start, however the path to it runs
    v = Variant("v0", [Stmt("a", ex=["s"]), Stmt("b", ex=["s"]), Stmt("mid", ex=["m"], oo=["a", "b"]), Stmt("top", ex=["mid", "u"])])
    T += _mk("failure_behind_an_up_to_date_statement", [v], tags=["order-only"], depth=d, js=(1, 2), ks=(1, 0), pair_faults=True)

    # T21b output directories that are siblings with a common name prefix (out/generated, out/gen, out/g), longest first
    v = Variant("v0", [Stmt("o/generated/a", ex=["s"]), Stmt("o/gen/b", ex=["o/generated/a"]), Stmt("o/g/c", ex=["o/gen/b"]),
                       Stmt("o/generated2/d", ex=["o/g/c"], depfile=True, hidden=["h"])])
    T += _mk("sibling_dirs_common_prefix", [v], tags=["mkdirs"], depth=min(d, 2), js=(1, 2), max_fault_stmts=1, edits_during=False)

    # T33b a statement with deps whose command reports no dependency at all (an empty list is a record like any other),
    # in a deps log with a long history: the recompaction must carry the empty record over
    v = Variant("v0", [Stmt("obj", ex=["src"], deps="gcc"), Stmt("obj2", ex=["src2"], hidden=["h"], deps="gcc"), Stmt("exe", ex=["obj", "obj2"])])
    eops = standard_ops([v], {}, js=(1, 2), ks=(1,), edits_during=False, max_fault_stmts=1, with_rm=False)
    eops.append({"op": "dupdeps", "path": "obj2", "content": "1100", "label": "1100 more deps records of obj2 (long history)"})
    eb = next(i for i, o in enumerate(eops) if o["op"] == "ninja")
    T.append(scenario("deps_empty_list_long_history/built", "template", [v], ops=eops, init=[eb], depth=d,
                      tags=["deps-gcc", "recompaction", "built"]))

    # T23 a depfile consumer that depends only order-only on a restat producer, and whose depfile gets lost
    # (deleted by hand, or by a failing compiler): missing dependency information must force a rebuild even
    # when the restat producer re-runs without rewriting its output in the same invocation
    for kind, kw in (("depfile", {"depfile": True}), ("gcc", {"deps": "gcc"})):
        v = Variant("v0", [Stmt("gen", ex=["tmpl"], restat=True),
                           Stmt("obj", ex=["src"], oo=["gen"], hidden=["hdr"], **kw), Stmt("exe", ex=["obj"])])
        files = {}
        ops = standard_ops([v], files, js=(1, 2), touch=True, rm_depfiles=True, ks=(1,), edits_during=False, max_fault_stmts=2)
        bi = next(i for i, o in enumerate(ops) if o["op"] == "ninja")
        T.append(scenario("restat_oo_%s/built" % kind, "template", [v], files=files, ops=ops, init=[bi], depth=d,
                          tags=["restat", "order-only", kind, "built"]))
        if kind == "depfile":
            ri = next(i for i, o in enumerate(ops) if o["op"] == "rm" and o["path"] == "obj.d")
            T.append(scenario("restat_oo_depfile/depfile_lost", "template", [v], files=files, ops=ops, init=[bi, ri], depth=d,
                              tags=["restat", "order-only", "depfile", "lost-depfile"]))
        else:
            # the deps log itself is lost
            ops2 = ops + [{"op": "rm", "path": ".ninja_deps", "label": "rm .ninja_deps"}]
            T.append(scenario("restat_oo_gcc/depslog_lost", "template", [v], files=files, ops=ops2, init=[bi, len(ops2) - 1], depth=d,
                              tags=["restat", "order-only", "gcc", "lost-depslog"]))

    # T24 a statement with discovered dependencies, a dyndep file that is re-produced in the build, and a restat
    # producer among its inputs; its depfile / deps record is lost.  Loading the dyndep file mid-build re-scans the
    # statement: the "dependency information is missing" state must survive that re-scan, whatever finishes first.
    for kind, kw in (("depfile", {"depfile": True}), ("gcc", {"deps": "gcc"})):
        dd = dyndep_text([("x.o", [], [], False)])
        v = Variant("v0", [Stmt("dd", ex=["dd.in"], copy=True), Stmt("r", ex=["rsrc"], restat=True),
                           Stmt("x.o", ex=["x.c", "r"], oo=["dd"], dyndep="dd", hidden=["hdr"], **kw), Stmt("b", ex=["b.in"]),
                           Stmt("exe", ex=["x.o", "b"])])
        files = {"dd.in": dd}
        ops = standard_ops([v], files, js=(2, 3), touch=True, rm_depfiles=True, ks=(1,), edits_during=False, with_faults=False,
                           touch_only=("dd.in",))
        bi = next(i for i, o in enumerate(ops) if o["op"] == "ninja")
        if kind == "depfile":
            ri = next(i for i, o in enumerate(ops) if o["op"] == "rm" and o["path"] == "x.o.d")
        else:
            ops.append({"op": "rm", "path": ".ninja_deps", "label": "rm .ninja_deps"})
            ri = len(ops) - 1
        T.append(scenario("dyndep_restat_lost_%s/built" % kind, "template", [v], files=files, ops=ops, init=[bi], depth=d,
                          tags=["dyndep", "restat", kind, "built"]))
        T.append(scenario("dyndep_restat_lost_%s/lost" % kind, "template", [v], files=files, ops=ops, init=[bi, ri], depth=d,
                          tags=["dyndep", "restat", kind, "lost-deps"]))

    # T25 dyndep information produced in the build names an input whose producer has a validation; the
    # validation's own inputs are ready (nothing else will ever wake it up)
    dd = dyndep_text([("out", [], ["h"], False)])
    v = Variant("v0", [Stmt("dd", ex=["dd.in"], copy=True), Stmt("check", ex=["check.in"]), Stmt("h", ex=["h.in"], val=["check"]),
                       Stmt("out", ex=["in"], oo=["dd"], dyndep="dd", extra_reads=["h"]), Stmt("top", ex=["out"])],
                defaults=["top"])
    T += _mk("dyndep_validation", [v], tags=["dyndep", "validation"], depth=d, js=(1, 3), files={"dd.in": dd},
             max_fault_stmts=3, edits_during=False, touch_only=("dd.in",))

    # T26 a restat statement that also reports dependencies (deps / depfile): its header is touched without a
    # content change, the command re-runs and leaves the output alone -- the build must converge
    for kind, kw in (("gcc", {"deps": "gcc"}), ("depfile", {"depfile": True}), ("msvc", {"deps": "msvc"})):
        v = Variant("v0", [Stmt("obj", ex=["src"], hidden=["hdr"], restat=True, **kw), Stmt("exe", ex=["obj"])])
        T += _mk("restat_with_%s" % kind, [v], tags=["restat", kind], depth=d, touch=True, js=(1, 2))

    # T27 a restat statement with two outputs whose contents depend on different inputs: one is rewritten, the
    # other left alone; consumers of each, in both declaration orders
    for order in (("a", "b"), ("b", "a")):
        g = Stmt(list(order), ex=["s", "t"], restat=True)
        g.per_out_reads = {"a": ["s"], "b": ["t"]}
        v = Variant("v0", [g, Stmt("xa", ex=["a"]), Stmt("xb", ex=["b"]), Stmt("top", ex=["xa", "xb"])])
        T += _mk("restat_two_outputs_%s%s" % order, [v], tags=["restat", "multi-output"], depth=d, touch=True, js=(1, 2),
                 max_fault_stmts=1)

    # T28 a project that binds `builddir`: logs and lock file live there, an output too; restat + recorded deps + rspfile
    v = Variant("v0", [Stmt("gen", ex=["tmpl"], restat=True), Stmt("bd/obj", ex=["src"], im=["gen"], hidden=["hdr"], deps="gcc"),
                       Stmt("lib", ex=["bd/obj"], rsp=("bd/lib.rsp", "bd/obj")), Stmt("exe", ex=["lib"])], header="builddir = bd")
    v1 = Variant("v1", [Stmt("gen", ex=["tmpl"], restat=True), Stmt("bd/obj", ex=["src"], im=["gen"], hidden=["hdr"], deps="gcc"),
                        Stmt("lib", ex=["bd/obj"], rsp=("bd/lib.rsp", "bd/obj"), ver=1), Stmt("exe", ex=["lib"])], header="builddir = bd")
    T += _mk("builddir_project", [v, v1], tags=["builddir", "restat", "deps-gcc", "rspfile"], depth=d, touch=True, js=(1, 2), builddir="bd",
             max_fault_stmts=2)

    # T29 statements and their rules in subninja files (scopes of their own; the second shadows a rule name of the first
    # and of the top level), linked across the files
    def scoped(st, f, rule=None):
        st.scope = f
        if rule:
            st.rule_name = rule
        return st
    v = Variant("v0", [Stmt("a", ex=["s"]), scoped(Stmt("b", ex=["a"], hidden=["h"], depfile=True), "sub1.ninja", "r0"),
                       scoped(Stmt("c", ex=["b"], restat=True), "sub2.ninja", "r0"), Stmt("top", ex=["c", "a"])])
    T += _mk("subninja_scopes", [v], tags=["subninja", "depfile", "restat"], depth=d, touch=True, js=(1, 2), max_fault_stmts=2)

    # T30 a phony alias whose name also exists on disk, as a directory (`build docs: phony docs/index.html`) or as a file
    for what in ("dir", "file"):
        v = Variant("v0", [Stmt("gen.h", ex=["h.in"]), Stmt("hdrs", ex=["hdr.h", "gen.h"], phony=True),
                           Stmt("out", ex=["src"], im=["hdrs"]), Stmt("top", ex=["out"])])
        T += _mk("phony_alias_exists_as_" + what, [v], tags=["phony"], depth=d, touch=True, js=(1, 2), max_fault_stmts=1,
                 dirs=["hdrs"] if what == "dir" else (), files={} if what == "dir" else {"hdrs": "a file named like the alias\n"})

    # T31 an output whose name contains a TAB (the lexer accepts it; the build log separates its fields with TABs), next
    # to an output named like the part before the TAB
    v = Variant("v0", [Stmt("a\tb", ex=["s"]), Stmt("a", ex=["t"]), Stmt("top", ex=["a\tb", "a"])])
    T += _mk("tab_in_output_name", [v], tags=["names"], depth=d, js=(1, 2), max_fault_stmts=1)

    # T33 an implicit output that only a dyndep file declares, in a project with a long build history: the automatic
    # recompaction of the log runs before any dyndep file is loaded
    from family_cycles import dyndep_text as _ddt
    v = Variant("v0", [Stmt("dd", ex=["dd.in"], copy=True), Stmt("out", ex=["in"], oo=["dd"], dyndep="dd", extra_outs=["out.x"]),
                       Stmt("use", ex=["in2"], oo=["dd", "out"], dyndep="dd", extra_reads=["out.x"]), Stmt("top", ex=["use"])])
    hops = [{"op": "edit", "path": "in", "label": "edit in"}, {"op": "edit", "path": "in2", "label": "edit in2"},
            {"op": "duplog", "path": "top", "content": "400", "label": "400 more records of top in the log (long history)"}]
    hb = len(hops)
    hops += [ninja_op(j=1), ninja_op(j=2)]
    hfiles = {"dd.in": _ddt([("out", ["out.x"], [], False), ("use", [], ["out.x"], False)])}
    T.append(scenario("dyndep_output_long_history/built", "template", [v], files=hfiles, ops=hops, init=[hb], depth=d,
                      tags=["dyndep", "recompaction", "built"]))

    # T34 a restat statement with recorded dependencies whose command, after a manifest change, reports one dependency
    # more while leaving its output untouched (what ninja trusts afterwards: recorded-deps-stale)
    for kind in ("gcc", "msvc"):
        def rv(name, hidden, kind=kind):
            return Variant(name, [Stmt("obj", ex=["src"], hidden=hidden, deps=kind, restat=True, copy=True), Stmt("exe", ex=["obj"])])
        T += _mk("restat_deps_%s_list_changes" % kind, [rv("v0", ["h1"]), rv("v1", ["h1", "h2"])], tags=["restat", "deps"], depth=d, touch=True,
                 js=(1, 2), max_fault_stmts=1, files={"h2": "h2-v0\n"}, edits_during=False)

        # ... or a list of the same length whose first half stays: the second dependency is exchanged for one that another
        # statement has already made known to the deps log (h3 has an id; comparing the lists has to look at every entry)
        def rv2(name, hidden, kind=kind):
            return Variant(name, [Stmt("obj", ex=["src"], hidden=hidden, deps=kind, restat=True, copy=True),
                                  Stmt("obj2", ex=["src2"], hidden=["h3"], deps=kind), Stmt("exe", ex=["obj", "obj2"])])
        T += _mk("restat_deps_%s_list_second_half_changes" % kind, [rv2("v0", ["h1", "h2"]), rv2("v1", ["h1", "h3"])], tags=["restat", "deps"],
                 depth=d, touch=True, js=(1, 2), max_fault_stmts=1, edits_during=False, with_rm=False)

        # ... a first build in a tree that already holds the right object (unpacked from an archive, logs deleted): the restat
        # command leaves it untouched and its dependencies are recorded all the same
        T.append(scenario("restat_deps_%s_output_already_right/fresh" % kind, "template", [rv("v0", ["h1"])], files={"obj": "src-v0\n"},
                          ops=standard_ops([rv("v0", ["h1"])], {}, js=(1, 2), ks=(1,), edits_during=False, max_fault_stmts=1, touch=True),
                          init=[], depth=2, tags=["restat", "deps", "fresh"]))

    # T35 `restat` supplied by a dyndep file that is re-made in the build: before the file is loaded the statement is
    # judged as an ordinary one (output older than its input: dirty, wanted), afterwards as a restat statement (the log
    # says its output was examined after that input: clean) -- while it is wanted, and perhaps running
    ddr = dyndep_text([("e", [], [], True)])
    e = Stmt("e", ex=["src"], oo=["dd"], dyndep="dd")
    e.dyn_restat = True
    v = Variant("v0", [Stmt("dd", ex=["dd.in"], copy=True), e, Stmt("g", ex=["g.in"]), Stmt("f", ex=["e", "g"])], defaults=["f"])
    T += _mk("dyndep_supplies_restat", [v], tags=["dyndep", "restat"], depth=5, js=(2, 3), files={"dd.in": ddr}, touch=True,
             with_faults=False, with_rm=False, edits_during=False, touch_only=("dd.in",))

    # T36 the regeneration-style statement (generator + restat) whose output exists but has no record in the build log:
    # the state right after the generator was run by hand, or after the log was lost
    v = Variant("v0", [Stmt("cfg.out", ex=["cfg.in"], generator=True, restat=True), Stmt("use", ex=["cfg.out"]), Stmt("top", ex=["use"])])
    T += _mk("generator_restat_no_log", [v], tags=["generator", "restat"], depth=d, touch=True, js=(1, 2), max_fault_stmts=1, edits_during=False)
    T[-1]["ops"].append({"op": "rm", "path": ".ninja_log", "label": "rm .ninja_log"})
    T[-2]["ops"].append({"op": "rm", "path": ".ninja_log", "label": "rm .ninja_log"})

    # T37 an alias with nothing to do of its own behind which two producers are still at work (the `headers: phony || h1 h2`
    # pattern), and a clean stamp statement in the same position
    v = Variant("v0", [Stmt("h1", ex=["a"]), Stmt("h2", ex=["b"]), Stmt("headers", oo=["h1", "h2"], phony=True),
                       Stmt("obj", ex=["src"], oo=["headers"]), Stmt("stamp", ex=["c"], oo=["h1", "h2"]), Stmt("obj2", ex=["src"], oo=["stamp"]),
                       Stmt("top", ex=["obj", "obj2"])])
    T += _mk("alias_before_two_producers", [v], tags=["phony", "order-only"], depth=d, js=(2, 3), max_fault_stmts=2)
    # T37b the same alias named as an *implicit* and as an explicit input: an alias whose own inputs are all order-only and
    # whose name is no file has inputs all the same (it is not the "phony without inputs = always out of date" idiom)
    v = Variant("v0", [Stmt("h1", ex=["a"]), Stmt("headers", oo=["h1"], phony=True),
                       Stmt("obj", ex=["src"], im=["headers"]), Stmt("obj2", ex=["src2", "headers"]), Stmt("top", ex=["obj", "obj2"])])
    T += _mk("alias_of_order_only_inputs_as_input", [v], tags=["phony", "order-only"], depth=d, js=(1, 2), max_fault_stmts=1)

    # T38 a plain-depfile statement whose tool spells its own target the way compilers do with -o ./obj/x.o
    for spn, sp in (("dot", "./obj/x.o"), ("dotdot", "obj/../obj/x.o")):
        o = Stmt("obj/x.o", ex=["x.c"], hidden=["h"], depfile=True)
        o.dep_spell = {"obj/x.o": sp}
        T += _mk("depfile_target_spelled_" + spn, [Variant("v0", [o, Stmt("exe", ex=["obj/x.o"])])], tags=["depfile", "spelling"], depth=d,
                 js=(1, 2), max_fault_stmts=1, edits_during=False)

    # T39 an implicit output that only an up-to-date dyndep file declares and nothing else names
    v = Variant("v0", [Stmt("dd", ex=["dd.in"], copy=True), Stmt("out", ex=["in"], oo=["dd"], dyndep="dd", extra_outs=["out.x"]),
                       Stmt("top", ex=["out"])])
    T += _mk("dyndep_output_unnamed_elsewhere", [v], tags=["dyndep"], depth=d, js=(1, 2), max_fault_stmts=1, edits_during=False,
             files={"dd.in": _ddt([("out", ["out.x"], [], False)])}, touch_only=("dd.in",))

    # T40 a build log of more than 256 KiB (the loader reads it in chunks of that size): a long history of outputs that are
    # gone, sized so that the records the first build appends lie across the chunk boundary
    for off in (8, 30, 60, 100):
        line = "0\t1\t1700000000000000000\t%s\tabcdef0123456789\n"
        name = lambda i: ("gone/" + "d" * 40 + "%06d") % i
        L = len(line % name(0))
        body = "# ninja log v7\n"
        i = 0
        while len(body) + L <= 262144 - off:
            body += line % name(i)
            i += 1
        # lengthen the last dead record's name so that the file ends exactly `off` bytes before the boundary
        pad = 262144 - off - len(body)
        body = body[:-L] + line % (name(i - 1) + "p" * pad)
        assert len(body) == 262144 - off
        v = Variant("v0", [Stmt("a", ex=["s"]), Stmt("b", ex=["a"]), Stmt("c", ex=["b", "t"])])
        T += _mk("log_across_chunk_boundary_%d" % off, [v], tags=["buildlog"], depth=2, js=(1,), with_faults=False, edits_during=False,
                 files={".ninja_log": body})

    # T41 tools that close their output when their work is done but keep running until they are waited for (`cmd >log 2>&1`,
    # `exec >/dev/null`): to the poll loop they have finished, but they still occupy their slot
    st = []
    for i in range(5):
        x = Stmt("w%d" % i, ex=["s"] if i % 2 else ["t"])
        x.detach = True
        st.append(x)
    st.append(Stmt("top", ex=[x.id for x in st]))
    T += _mk("detached_output_tools", [Variant("v0", st)], tags=["parallel", "detach"], depth=1, js=(2, 3, 4), with_faults=False, with_rm=False,
             edits_during=False)

    # T32 declared sources that are missing and have no rule: as explicit, implicit, order-only input and as a validation,
    # of statements with and without work to do (C05: reported before any command runs)
    v = Variant("v0", [Stmt("a", ex=["s"]), Stmt("b", ex=["a"], im=["isrc"]), Stmt("c", ex=["t"], oo=["osrc"]),
                       Stmt("d", ex=["u"], val=["vsrc"]), Stmt("all", ex=["a", "b", "c", "d"], phony=True)], defaults=["all"])
    mops = [{"op": "rm", "path": x, "label": "rm source " + x} for x in ("s", "isrc", "osrc", "vsrc")] + \
           [{"op": "edit", "path": x, "label": "edit " + x} for x in ("t", "u")] + \
           [{"op": "write", "path": x, "content": x + "-back\n", "label": "restore " + x} for x in ("osrc", "vsrc")] + \
           [{"op": "rm", "path": "c", "label": "rm c"}]
    mb = len(mops)
    mops += [ninja_op(j=1), ninja_op(j=2), ninja_op(j=2, k=0), ninja_op(targets=["c"], j=1), ninja_op(targets=["d"], j=1)]
    T.append(scenario("missing_source/fresh", "template", [v], ops=mops, init=[], depth=2, tags=["missing-source", "fresh"]))
    T.append(scenario("missing_source/built", "template", [v], ops=mops, init=[mb], depth=d, tags=["missing-source", "built"]))

    # T32-v a validation that is a statement with a source of its own (it does not consume what it validates): the missing
    # source in the validation's subtree is reported like any other, and nothing runs
    v = Variant("v0", [Stmt("lib", ex=["in"]), Stmt("out", ex=["lib"], val=["out.checked"]), Stmt("out.checked", ex=["report.cfg"]),
                       Stmt("deep", ex=["u"], val=["chk2"]), Stmt("chk2", ex=["chk1"]), Stmt("chk1", ex=["deep.cfg"]),
                       Stmt("all", ex=["out", "deep"], phony=True)], defaults=["all"])
    mops = [{"op": "rm", "path": x, "label": "rm source " + x} for x in ("report.cfg", "deep.cfg")] + \
           [{"op": "edit", "path": x, "label": "edit " + x} for x in ("in", "u")] + \
           [{"op": "write", "path": x, "content": x + "-back\n", "label": "restore " + x} for x in ("report.cfg", "deep.cfg")]
    mb = len(mops)
    mops += [ninja_op(j=1), ninja_op(j=2, k=0), ninja_op(targets=["out"], j=1), ninja_op(targets=["deep"], j=2)]
    T.append(scenario("missing_source_of_a_validation/fresh", "template", [v], ops=mops, init=[], depth=2, tags=["missing-source", "fresh", "validation"]))
    T.append(scenario("missing_source_of_a_validation/built", "template", [v], ops=mops, init=[mb], depth=min(d, 4), tags=["missing-source", "built", "validation"]))

    # T32-d a `default` statement that names a plain source file (no rule): missing, it is reported when ninja runs without targets
    v = Variant("v0", [Stmt("a", ex=["s"]), Stmt("b", ex=["t", "dsrc"])], defaults=["a", "dsrc"])
    mops = [{"op": "rm", "path": "dsrc", "label": "rm source dsrc"}, {"op": "edit", "path": "s", "label": "edit s"},
            {"op": "write", "path": "dsrc", "content": "dsrc-back\n", "label": "restore dsrc"}]
    mb = len(mops)
    mops += [ninja_op(j=1), ninja_op(j=2, k=0), ninja_op(targets=["b"], j=1)]
    T.append(scenario("missing_source_named_by_default/fresh", "template", [v], files={"dsrc": "dsrc-v0\n"}, ops=mops, init=[], depth=2,
                      tags=["missing-source", "fresh"]))
    T.append(scenario("missing_source_named_by_default/built", "template", [v], files={"dsrc": "dsrc-v0\n"}, ops=mops, init=[mb], depth=min(d, 4),
                      tags=["missing-source", "built"]))

    # T32a a declared source that the recorded dependencies of *another*, up-to-date statement name as well (a header that is
    # also somebody's explicit input): what a dependency list says about a file does not make it optional where it is declared
    for kind, kw in (("gcc", {"deps": "gcc"}), ("depfile", {"depfile": True})):
        v = Variant("v0", [Stmt("b", ex=["t"], hidden=["shared.h"], **kw), Stmt("a", ex=["shared.h", "s"]), Stmt("top", ex=["b", "a"])])
        mops = [{"op": "rm", "path": "shared.h", "label": "rm source shared.h"}, {"op": "edit", "path": "s", "label": "edit s"},
                {"op": "write", "path": "shared.h", "content": "shared.h-back\n", "label": "restore shared.h"}]
        mb = len(mops)
        mops += [ninja_op(j=1), ninja_op(j=2, k=0), ninja_op(targets=["a"], j=1)]
        T.append(scenario("missing_source_also_a_recorded_dependency_%s/built" % kind, "template", [v], ops=mops, init=[mb], depth=min(d, 3),
                          tags=["missing-source", "deps", "built"]))

    # T32b the same for a source that only an (existing, up-to-date) dyndep file names as an implicit input
    v = Variant("v0", [Stmt("a", ex=["s"]), Stmt("e", ex=["w"], oo=["dd"], dyndep="dd", extra_reads=["gsrc"]), Stmt("top", ex=["a", "e"])])
    mops = [{"op": "rm", "path": "gsrc", "label": "rm source gsrc"}, {"op": "edit", "path": "w", "label": "edit w"},
            {"op": "edit", "path": "s", "label": "edit s"},
            {"op": "write", "path": "gsrc", "content": "gsrc-back\n", "label": "restore gsrc"}]
    mb = len(mops)
    mops += [ninja_op(j=1), ninja_op(j=2, k=0), ninja_op(targets=["e"], j=1), ninja_op(targets=["a"], j=1)]
    ddf = {"dd": _ddt([("e", [], ["gsrc"], False)])}
    T.append(scenario("missing_source_named_by_dyndep_file/fresh", "template", [v], files=ddf, ops=mops, init=[], depth=2,
                      tags=["missing-source", "dyndep", "fresh"]))
    T.append(scenario("missing_source_named_by_dyndep_file/built", "template", [v], files=ddf, ops=mops, init=[mb], depth=min(d, 3),
                      tags=["missing-source", "dyndep", "built"]))

    # T32c ... and a source named only by an (existing) dyndep file, which the recorded dependencies of an up-to-date statement
    # name too: still a missing source where the dyndep file names it (F38)
    v = Variant("v0", [Stmt("a.o", ex=["a.c"], hidden=["gsrc"], deps="gcc"), Stmt("e", ex=["w"], oo=["dd"], dyndep="dd", extra_reads=["gsrc"]),
                       Stmt("top", ex=["a.o", "e"])])
    mops = [{"op": "rm", "path": "gsrc", "label": "rm source gsrc"}, {"op": "edit", "path": "w", "label": "edit w"},
            {"op": "write", "path": "gsrc", "content": "gsrc-back\n", "label": "restore gsrc"}]
    mb = len(mops)
    mops += [ninja_op(j=1), ninja_op(j=2, k=0), ninja_op(targets=["e"], j=1)]
    T.append(scenario("missing_source_named_by_dyndep_file_and_a_record/built", "template", [v], files={"dd": _ddt([("e", [], ["gsrc"], False)])},
                      ops=mops, init=[mb], depth=min(d, 3), tags=["missing-source", "dyndep", "deps", "built"]))

    return T
