"""Engine-A scenarios for C14 beyond the routine itself: wherever ninja takes a path -- manifest, depfile
targets and dependencies, /showIncludes lines, dyndep files, command-line targets, tool arguments -- a
spelling that differs only lexically names the same file.  Metamorphic: the project with the odd
spellings runs in lock step with its canonical twin; invocations with odd arguments are compared with
the same invocation given canonical arguments."""
from family_cycles import dyndep_text
from scen import Stmt, Variant, scenario, ninja_op, tool_op, unspelled_twin

SPELLINGS = {
    "dot": lambda n: "./" + n,
    "dotdot": lambda n: "zz/../" + n,
    "slashes": lambda n: n.replace("/", "//") if "/" in n else ".//" + n,
    "trailing_dot": lambda n: n + "/.",
    "trailing_slash": lambda n: n + "/",
    "inner": lambda n: (n.split("/")[0] + "/./" + "/".join(n.split("/")[1:])) if "/" in n else "./././" + n,
}


def _ops(v, targets, js=(1, 2), tool_names=()):
    ops = []
    from scen import sources_of
    for s in sources_of([v]):
        if s.endswith("dd.in"):
            ops.append({"op": "touch", "path": s, "label": "touch " + s})
        else:
            ops.append({"op": "edit", "path": s, "label": "edit " + s})
    for st in v.stmts:
        if not st.phony:
            for o in st.all_outs():
                ops.append({"op": "rm", "path": o, "label": "rm " + o})
    build = len(ops)
    ops.append(ninja_op(j=js[-1]))
    for t in targets:
        for name, sp in sorted(SPELLINGS.items()):
            op = ninja_op(j=js[-1], targets=[sp(t)], label="ninja -j%d %s" % (js[-1], sp(t)))
            op["canonical_args"] = ["-j%d" % js[-1], "-k1", t]
            ops.append(op)
    # "src^" = the first statement that consumes src: the caret is not part of the spelling of the path
    for srcname in sources_of([v])[:2]:
        if srcname.endswith("dd.in"):
            continue
        for name, sp in sorted(SPELLINGS.items()):
            op = ninja_op(j=js[-1], targets=[sp(srcname) + "^"], label="ninja -j%d %s^" % (js[-1], sp(srcname)))
            op["canonical_args"] = ["-j%d" % js[-1], "-k1", srcname + "^"]
            ops.append(op)
    for t in tool_names:
        for name, sp in sorted(SPELLINGS.items())[:2]:
            for kind, args in (("restat", ["-t", "restat"]), ("clean-targets", ["-t", "clean"]), ("readonly", ["-t", "query"]),
                               ("readonly", ["-t", "inputs"]), ("commands", ["-t", "commands"])):
                op = tool_op(kind if kind != "clean-targets" else "clean-targets", [sp(t)] if kind == "clean-targets" else args + [sp(t)])
                op["tool_args"] = [sp(t)]
                op["canonical_args"] = args + [t]
                op["label"] = "ninja " + " ".join(args + [sp(t)])
                ops.append(op)
    return ops, build


def templates(tier="quick"):
    T = []
    d = 2 if tier == "quick" else 3
    for name, sp in sorted(SPELLINGS.items()):
        # S1 a two-output statement whose depfile names both outputs and two headers, oddly spelled
        a = Stmt(["o1", "sub/o2"], ex=["s"], hidden=["h", "inc/h2"], depfile=True)
        a.dep_all_outs = True
        a.dep_spell = {"o1": sp("o1"), "sub/o2": sp("sub/o2"), "h": sp("h"), "inc/h2": sp("inc/h2")}
        v = Variant("v0", [a, Stmt("t", ex=["o1", "sub/o2"])], spell={"s": sp("s"), "sub/o2": sp("sub/o2"), "o1": sp("o1")})
        ops, b = _ops(v, ["t", "sub/o2"], tool_names=["o1", "sub/o2"])
        T.append(scenario("c14/depfile_two_outputs/" + name, "c14", [v], ops=ops, init=[b], depth=d, tags=["spelling", name],
                          twin_variants=[unspelled_twin(v)], files={"inc/h2": "h2\n"}))
        # S2 deps=gcc / msvc with a generated header reached through an order-only manifest path
        for kind in ("gcc", "msvc"):
            o = Stmt("obj/x.o", ex=["x.c"], oo=["gen/g.h"], hidden=["gen/g.h", "h"], deps=kind)
            o.dep_spell = {"gen/g.h": sp("gen/g.h"), "h": sp("h")}
            v = Variant("v0", [Stmt("gen/g.h", ex=["g.in"]), o, Stmt("exe", ex=["obj/x.o"])],
                        spell={"gen/g.h": sp("gen/g.h"), "obj/x.o": sp("obj/x.o")})
            ops, b = _ops(v, ["exe", "obj/x.o"], tool_names=["obj/x.o"])
            T.append(scenario("c14/deps_%s_generated_header/%s" % (kind, name), "c14", [v], ops=ops, init=[b], depth=d,
                              tags=["spelling", name, kind], twin_variants=[unspelled_twin(v)]))
        # S3 dyndep information that spells the discovered input and the implicit output oddly
        dd_sp = dyndep_text([("out", [sp("out.mod")], [sp("m/x")], False)])
        dd_cn = dyndep_text([("out", ["out.mod"], ["m/x"], False)])
        st = [Stmt("dd", ex=["dd.in"], copy=True), Stmt("m/x", ex=["s"]),
              Stmt("out", ex=["in"], oo=["dd"], dyndep="dd", extra_reads=["m/x"], extra_outs=["out.mod"]), Stmt("top", ex=["out"])]
        v = Variant("v0", st, extra_files={"dd.in": dd_sp}, defaults=["top"])
        tw = unspelled_twin(v)
        tw.extra_files = {"dd.in": dd_cn}
        ops, b = _ops(v, ["top", "out.mod"])
        T.append(scenario("c14/dyndep/" + name, "c14", [v], ops=ops, init=[b], depth=d, tags=["spelling", name, "dyndep"],
                          twin_variants=[tw]))
    for name, sp in sorted(SPELLINGS.items()):
        if name in ("trailing_dot", "trailing_slash"):
            continue   # (a file is not a directory)
        # S3b the dyndep *binding* spelled oddly while the input list names the file plainly (and the other way round)
        for where in ("binding", "input"):
            o = Stmt("out", ex=["in"], oo=["dd"], dyndep="dd", extra_reads=["m/x"])
            if where == "binding":
                o.dyndep_spelled = sp("dd")
            st = [Stmt("dd", ex=["dd.in"], copy=True), Stmt("m/x", ex=["s"]), o, Stmt("top", ex=["out"])]
            v = Variant("v0", st, extra_files={"dd.in": dyndep_text([("out", [], ["m/x"], False)])}, defaults=["top"],
                        spell={"dd": sp("dd")} if where == "input" else {})
            tw = unspelled_twin(v)
            for ts in tw.stmts:
                if hasattr(ts, "dyndep_spelled"):
                    del ts.dyndep_spelled
            ops, b = _ops(v, ["top"])
            T.append(scenario("c14/dyndep_%s_spelled/%s" % (where, name), "c14", [v], ops=ops, init=[b], depth=d, tags=["spelling", name, "dyndep"],
                              twin_variants=[tw]))
        # S2b a plain depfile that spells a generated header oddly, in front of `-t missingdeps` (which reads depfiles with a
        # loader of its own): what the tool reports does not depend on the spelling
        o = Stmt("obj/x.o", ex=["x.c"], hidden=["gen/g.h", "h"], depfile=True)
        o.dep_spell = {"gen/g.h": sp("gen/g.h"), "h": sp("h")}
        v = Variant("v0", [Stmt("gen/g.h", ex=["g.in"]), o, Stmt("exe", ex=["obj/x.o"], oo=["gen/g.h"])])
        ops, b = _ops(v, ["exe"])
        md = tool_op("readonly", ["-t", "missingdeps"])
        md["no_expand"] = True
        md["compare_output_with_twin"] = True
        ops.append(md)
        # (history depth 2 in both tiers: the object has, on purpose, no manifest path to the generated header -- that is what
        # the tool is to report -- so with the header's source and the object's source edited in one go the unmodified ninja
        # builds the object first, F1; a project outside the premise of the build oracles, which the thorough tier reached)
        T.append(scenario("c14/missingdeps_depfile/" + name, "c14", [v], ops=ops, init=[b], depth=min(d, 2), tags=["spelling", name, "depfile", "tools"],
                          twin_variants=[unspelled_twin(v)]))

    # S2c depfiles in the `gcc -MP` style (every header once more as a target without dependencies): the dependency
    # spelled oddly, the extra target plainly -- one file, named twice
    for name, sp in sorted(SPELLINGS.items()):
        if name in ("trailing_dot", "trailing_slash"):
            continue
        for kind in ("depfile", "gcc"):
            o = Stmt("obj/x.o", ex=["x.c"], hidden=["inc/g.h", "h"], depfile=(kind == "depfile"), deps="gcc" if kind == "gcc" else "")
            o.dep_spell = {"inc/g.h": sp("inc/g.h"), "h": sp("h")}
            o.dep_mp = True
            v = Variant("v0", [o, Stmt("exe", ex=["obj/x.o"])])
            ops, b = _ops(v, ["exe"])
            T.append(scenario("c14/depfile_MP_style_%s/%s" % (kind, name), "c14", [v], ops=ops, init=[b], depth=d,
                              tags=["spelling", name, "depfile"], twin_variants=[unspelled_twin(v)], files={"inc/g.h": "g\n"}))

    # S7b a project that binds `builddir`: a target may be named relative to it, and that argument may need canonicalising
    # after the two are joined (`../gen/x` is out/gen/x for builddir = out/obj)
    v = Variant("v0", [Stmt("out/gen/x", ex=["s"]), Stmt("out/obj/lib", ex=["out/gen/x"]), Stmt("out/obj/sub/y", ex=["t"]),
                       Stmt("exe", ex=["out/obj/lib", "out/obj/sub/y"])], header="builddir = out/obj")
    bops = []
    for srcn in ("s", "t"):
        bops.append({"op": "edit", "path": srcn, "label": "edit " + srcn})
    for o in ("out/gen/x", "out/obj/lib", "out/obj/sub/y"):
        bops.append({"op": "rm", "path": o, "label": "rm " + o})
    bb = len(bops)
    bops.append(ninja_op(j=2))
    for arg, canon in (("../gen/x", "out/gen/x"), ("..//gen/./x", "out/gen/x"), ("lib", "out/obj/lib"), ("./lib", "out/obj/lib"),
                       ("sub/../lib", "out/obj/lib"), ("sub//y", "out/obj/sub/y"), ("../obj/sub/y", "out/obj/sub/y")):
        op = ninja_op(j=2, targets=[arg], label="ninja -j2 " + arg)
        op["canonical_args"] = ["-j2", "-k1", canon]
        bops.append(op)
        t = tool_op("readonly", ["-t", "query", arg])
        t["tool_args"] = [arg]
        t["canonical_args"] = ["-t", "query", canon]
        t["label"] = "ninja -t query " + arg
        bops.append(t)
    T.append(scenario("c14/builddir_relative_arguments", "c14", [v], ops=bops, init=[bb], depth=d, tags=["spelling", "builddir"], builddir="out/obj"))

    # S8b a `default` line with several targets, the later ones spelled oddly
    for name, sp in sorted(SPELLINGS.items()):
        if name in ("trailing_dot", "trailing_slash"):
            continue
        v = Variant("v0", [Stmt("a", ex=["s"]), Stmt("sub/b", ex=["t"]), Stmt("c", ex=["u"]), Stmt("other", ex=["s"])], defaults=["a", "sub/b", "c"])
        v.defaults_spell = {"sub/b": sp("sub/b"), "c": sp("c")}
        tw = unspelled_twin(v)
        tw.defaults_spell = {}
        ops, b = _ops(v, ["other"])
        T.append(scenario("c14/default_line/" + name, "c14", [v], ops=ops, init=[b], depth=d, tags=["spelling", name], twin_variants=[tw]))

    # S9 the manifest named on the command line (-f) spelled oddly, in a project whose manifest is regenerated
    def regen(name, ver):
        return Variant(name, [Stmt("build.ninja", ex=["build.ninja.in"], generator=True, copy=True),
                              Stmt("a", ex=["s"], ver=ver), Stmt("b", ex=["a"])], defaults=["b"])
    va, vb = regen("m0", 0), regen("m1", 1)
    ops = [{"op": "write", "path": "build.ninja.in", "content": vb.manifest(), "label": "build.ninja.in:=m1"},
           {"op": "write", "path": "build.ninja.in", "content": va.manifest(), "label": "build.ninja.in:=m0"},
           {"op": "edit", "path": "s", "label": "edit s"}]
    b = len(ops)
    ops.append(ninja_op(j=1))
    for name, sp in sorted(SPELLINGS.items()):
        if name not in ("dot", "slashes", "inner"):
            continue    # the operating system opens this path: only spellings it resolves to the same file whatever exists
        op = ninja_op(j=2, flags=["-f", sp("build.ninja")], label="ninja -j2 -f " + sp("build.ninja"))
        op["canonical_args"] = ["-j2", "-k1", "-f", "build.ninja"]
        ops.append(op)
    T.append(scenario("c14/manifest_named_with_f", "c14", [va, vb], files={"build.ninja.in": va.manifest(), "s": "s-v0\n"}, ops=ops,
                      init=[b], depth=d, tags=["spelling", "manifest-regen", "generator"]))
    return T
