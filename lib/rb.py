"""Engine B: the unmodified ninja executable built from the working tree, driven through real
files, real processes, real signals.  Commands are the vcmd helper (src/rb/vcmd.cc), which blocks
until this orchestrator releases it, so completion order is controlled exactly.

replay(scenario, history) runs one history and returns per-invocation observations in the same
shape as `nx replay=... json=1`, so that engine-A executions can be validated against the real
binary (trace conformance)."""
import json
import os
import shutil
import signal
import subprocess
import tempfile
import time

import nxbuild
import vbuild

SHM = "/dev/shm"


def build_tools():
    ninja = vbuild.real_ninja()
    vcmd = vbuild.harness("vcmd", ["src/nx/simcmd.cc", "src/rb/vcmd.cc"], [], flags=["-O2", "-std=c++17", "-w"],
                          deps=["src/nx/nx.h", "src/common/simfs.h"])
    return ninja, vcmd


# ---- what the ninja process is doing, read from /proc (no timing assumptions) ----
# ppoll, poll, pselect6, select; wait4, waitid (a build that was given up waits for the commands it does not kill) (x86-64)
POLL_SYSCALLS = {"271", "7", "270", "23", "61", "247"}


def live_children(pid):
    """Direct children of pid that are not zombies; None when /proc does not say."""
    try:
        kids = open("/proc/%d/task/%d/children" % (pid, pid)).read().split()
    except OSError:
        return None
    live = []
    for k in kids:
        try:
            st = open("/proc/%s/stat" % k).read()
            if st[st.rindex(")") + 2] != "Z":
                live.append(int(k))
        except (OSError, ValueError, IndexError):
            pass
    return live


def blocked_in_poll(pid):
    """True when the process sleeps in ppoll()/poll(); None when /proc does not say."""
    try:
        f = open("/proc/%d/syscall" % pid).read().split()
    except OSError:
        return None
    return bool(f) and f[0] in POLL_SYSCALLS


def sanitize(ident):
    return "".join(c if (c.isalnum() or c in "._-") else "_" for c in ident)


class Real:
    def __init__(self, scenario, ninja, vcmd, compound=False, keep=False):
        self.sc = scenario
        self.ninja, self.vcmd = ninja, vcmd
        self.compound = compound
        self.root = tempfile.mkdtemp(prefix="rb.", dir=SHM)
        self.work = os.path.join(self.root, "w")
        self.ctl = os.path.join(self.root, "ctl")
        os.mkdir(self.work)
        os.mkdir(self.ctl)
        self.last_ns = 0
        self.keep = keep
        self.variant = 0

    def close(self):
        if not self.keep:
            shutil.rmtree(self.root, ignore_errors=True)

    # ---- time: every mutation gets a strictly larger mtime than the previous one ----
    def fence(self):
        p = os.path.join(self.root, "fence")
        while True:
            with open(p, "w") as f:
                f.write("x")
            ns = os.stat(p).st_mtime_ns
            if ns > self.last_ns:
                self.last_ns = ns
                return
            time.sleep(0.0015)

    def bump_from(self, path):
        try:
            self.last_ns = max(self.last_ns, os.stat(path).st_mtime_ns)
        except OSError:
            pass

    def path(self, rel):
        return os.path.join(self.work, rel)

    def write(self, rel, data):
        self.fence()
        p = self.path(rel)
        os.makedirs(os.path.dirname(p), exist_ok=True)
        with open(p, "wb") as f:
            f.write(data.encode("latin-1"))
        self.bump_from(p)
        self.fence()

    def manifest_text(self, text):
        out = []
        for line in text.split("\n"):
            if line.startswith("  command = sim "):
                line = "  command = " + ("exec " if self.compound == "exec" else "") + self.vcmd + " " + line[len("  command = "):]
                if self.compound is True:
                    line += " && true"
            out.append(line)
        return "\n".join(out)

    def write_variant(self, idx):
        for name, text in self.sc["variants"][idx]["files"].items():
            cur = None
            try:
                cur = open(self.path(name), "rb").read().decode("latin-1")
            except OSError:
                pass
            new = self.manifest_text(text)
            if cur != new:
                self.write(name, new)
        self.variant = idx

    def setup(self):
        for d in self.sc.get("dirs", []):
            os.makedirs(self.path(d), exist_ok=True)
        for name, text in self.sc["files"].items():
            if name in (".ninja_log", ".ninja_deps"):
                continue
            self.write(name, text)
        self.write_variant(0)

    # ---- simple operations (same meaning as Explorer::ApplySimple) ----
    def apply_simple(self, op):
        k = op["op"]
        p = self.path(op.get("path", ""))
        if k == "edit":
            if not os.path.isfile(p):
                return False
            c = open(p, "rb").read().decode("latin-1")
            if c.endswith("~\n"):
                c = c[:-2] + "\n"
            elif c.endswith("\n"):
                c = c[:-1] + "~\n"
            else:
                c += "~"
            self.write(op["path"], c)
            return True
        if k == "touch":
            if not os.path.exists(p):
                return False
            self.fence()
            os.utime(p, None)
            self.bump_from(p)
            self.fence()
            return True
        if k == "rm":
            if not os.path.lexists(p):
                return False
            if os.path.isdir(p):
                os.rmdir(p)
            else:
                os.unlink(p)
            return True
        if k == "write":
            self.write(op["path"], op["content"])
            return True
        if k == "mkdir":
            os.makedirs(p, exist_ok=True)
            return True
        if k == "variant":
            self.write_variant(op["to"])
            return True
        return False

    # ---- one ninja invocation under a controlled schedule ----
    def started_files(self):
        names = [n for n in os.listdir(self.ctl) if n.startswith("started.")]
        names.sort(key=lambda n: (os.stat(os.path.join(self.ctl, n)).st_mtime_ns, n))
        return [n[len("started."):] for n in names]

    def run_ninja(self, op, choices, signal_at=None, sig=signal.SIGINT, env_extra=None, timeout=90.0):
        """choices as in engine A: index among the running commands (start order); -1 = youngest.
        signal_at: (wait index) at which `sig` is sent to ninja instead of releasing a command."""
        for n in os.listdir(self.ctl):
            os.unlink(os.path.join(self.ctl, n))
        env = {"PATH": os.environ.get("PATH", "/usr/bin:/bin"), "TERM": "dumb", "VCMD_CTL": self.ctl, "HOME": self.root}
        env.update(op.get("env", {}))
        if env_extra:
            env.update(env_extra)
        args = [self.ninja] + op["flags"] + op["targets"]
        self.fence()
        proc = subprocess.Popen(args, cwd=self.work, env=env, stdout=subprocess.PIPE, stderr=subprocess.STDOUT,
                                start_new_session=True)
        faults = op.get("faults", {})
        released, finished_order = [], []
        wait_index = 0
        deadline = time.time() + timeout
        obs = {"signalled": False}
        while True:
            # quiescence: ninja sleeps in ppoll(), every live child of it is a command that has announced itself and has
            # not been released, and every released command is gone.  Read from /proc, so that a slow machine only makes
            # this loop longer; where /proc does not say, "nothing changed for a while" with a wide margin.
            stable_since = time.time()
            last = None
            agree = 0
            while True:
                if proc.poll() is not None:
                    break
                st = self.started_files()
                pending = [i for i in released if not os.path.exists(os.path.join(self.ctl, "done." + i))]
                kids = live_children(proc.pid)
                inpoll = blocked_in_poll(proc.pid)
                if kids is not None and inpoll is not None:
                    running_now = [i for i in st if i not in released]
                    if inpoll and not pending and len(kids) == len(running_now):
                        agree += 1
                        if agree >= 3:
                            break
                    else:
                        agree = 0
                        # ninja can also be *busy* while it waits: with a readable jobserver pool that it watches but may
                        # not use (failure budget used up) ppoll() returns at once, over and over.  Nothing having changed
                        # for a good while then counts as well.
                        cur = (tuple(st), tuple(pending), len(kids))
                        if cur != last or pending or len(kids) != len(running_now):
                            last = cur
                            stable_since = time.time()
                        elif time.time() - stable_since > 0.6:
                            obs["busy_while_waiting"] = obs.get("busy_while_waiting", 0) + 1
                            break
                else:
                    cur = (tuple(st), tuple(pending))
                    if cur != last or pending:
                        last = cur
                        stable_since = time.time()
                    elif time.time() - stable_since > 0.5:
                        break
                if time.time() > deadline:
                    proc.kill()
                    obs["timeout"] = True
                    break
                time.sleep(0.002)
            if proc.poll() is not None or obs.get("timeout"):
                break
            started = self.started_files()
            running = [i for i in started if i not in released]
            obs["max_running"] = max(obs.get("max_running", 0), len(running))
            if not running:
                # ninja is alive and asleep in ppoll(), it has no child, nothing is pending: nothing can wake it but a signal
                # or the jobserver pool.  Confirmed over a second before it is called a hang.
                t_h = time.time()
                still = True
                while time.time() - t_h < 1.0:
                    time.sleep(0.02)
                    if proc.poll() is not None or [i for i in self.started_files() if i not in released] \
                            or live_children(proc.pid) or blocked_in_poll(proc.pid) is False:
                        still = False
                        break
                if still and proc.poll() is None:
                    obs["hang"] = True
                    proc.kill()
                    break
                continue
            if signal_at is not None and wait_index == signal_at:
                os.kill(proc.pid, sig)
                obs["signalled"] = True
                obs["running_at_signal"] = list(running)
                signal_at = None
                wait_index += 1
                # give ninja time to clean up and exit
                try:
                    proc.wait(timeout=1.5)
                except subprocess.TimeoutExpired:
                    # ninja may be waiting for commands it did not kill (a build given up because a *command* died of the
                    # signal is wound down by waiting for the others): real commands end by themselves, gated ones
                    # have to be let go.  A ninja that had to be SIGKILLed can return nothing, which would be our doing.
                    obs["waited_for_commands_after_signal"] = True
                    for ident in [i for i in self.started_files() if i not in released]:
                        with open(os.path.join(self.ctl, "go." + ident + ".tmp"), "w") as g:
                            g.write("ok")
                        os.rename(os.path.join(self.ctl, "go." + ident + ".tmp"), os.path.join(self.ctl, "go." + ident))
                        released.append(ident)
                    try:
                        proc.wait(timeout=5)
                    except subprocess.TimeoutExpired:
                        obs["no_exit_after_signal"] = True
                        proc.kill()
                break
            c = choices[wait_index] if wait_index < len(choices) else 0
            wait_index += 1
            if c == -2:
                names = [self.unsanitize(i) for i in running]
                c = names.index(max(names))
            elif c < 0:
                c = len(running) - 1
            pick = [running[c]] if c < len(running) else list(running)
            self.fence()
            for ident in pick:
                f = faults.get(self.unsanitize(ident), None)
                verdict = "ok"
                if f:
                    if f.get("signal"):
                        verdict = "sigint"
                    elif f.get("dies"):
                        verdict = "dies %d %d %d" % (f["dies"], 1 if f.get("touch") else 0, 1 if f.get("core") else 0)
                    else:
                        verdict = "fail %d %d" % (f.get("code", 1), 1 if f.get("touch") else 0)
                with open(os.path.join(self.ctl, "go." + ident + ".tmp"), "w") as g:
                    g.write(verdict)
                os.rename(os.path.join(self.ctl, "go." + ident + ".tmp"), os.path.join(self.ctl, "go." + ident))
                released.append(ident)
                finished_order.append(ident)
            # wait for them to finish, then let time pass
            t0 = time.time()
            while any(not os.path.exists(os.path.join(self.ctl, "done." + i)) for i in pick) and time.time() - t0 < 5:
                time.sleep(0.001)
            self.fence()
        out = self.drain(proc, obs)
        self.fence()
        obs.update({"exit": proc.returncode, "started": [self.unsanitize(i) for i in self.started_files()],
                    "finished_in_order": [self.unsanitize(i) for i in finished_order], "out": out,
                    "no_work": "ninja: no work to do." in out, "files": self.snapshot()})
        # commands that are still alive after ninja exited (must not happen after an interrupt)
        obs["stray_commands"] = self.stray()
        return obs

    def unsanitize(self, ident):
        # ids are first outputs; map back through the current variant
        for st in self.sc["variants"][self.variant]["stmts"]:
            if sanitize(st["outs"][0]) == ident:
                return st["outs"][0]
        return ident

    def stray(self):
        r = subprocess.run(["pgrep", "-f", self.vcmd + " sim"], stdout=subprocess.PIPE, text=True)
        mine = []
        for pid in r.stdout.split():
            try:
                env = open("/proc/%s/environ" % pid, "rb").read()
                if self.ctl.encode() in env:
                    mine.append(int(pid))
            except OSError:
                pass
        return mine

    def drain(self, proc, obs):
        """Reads ninja's output after it has exited.  A console-pool command shares ninja's stdout: one that ninja left
        alive keeps the pipe open, and a plain communicate() would wait for it forever."""
        try:
            return proc.communicate(timeout=3)[0].decode("latin-1")
        except subprocess.TimeoutExpired:
            obs["survivors_holding_the_output"] = [self.unsanitize(x) for x in self.started_files()]
            obs["stray_pids_at_exit"] = self.stray()
            self.kill_strays()
            try:
                return proc.communicate(timeout=5)[0].decode("latin-1")
            except subprocess.TimeoutExpired:
                proc.kill()
                return proc.communicate()[0].decode("latin-1")

    def kill_strays(self):
        for pid in self.stray():
            try:
                os.kill(pid, signal.SIGKILL)
            except OSError:
                pass

    def snapshot(self):
        files = {}
        for root, dirs, names in os.walk(self.work):
            for n in names:
                rel = os.path.relpath(os.path.join(root, n), self.work)
                if os.path.basename(rel) in (".ninja_log", ".ninja_deps", ".ninja_lock"):
                    continue
                data = open(os.path.join(root, n), "rb").read().decode("latin-1")
                if rel == "build.ninja" or rel.endswith(".ninja"):
                    data = data.replace("exec " + self.vcmd + " ", "").replace(self.vcmd + " ", "").replace(" && true", "")
                files[rel] = data
        return files


def replay(scenario, history, ninja, vcmd, compound=False):
    """history: [{"op": index, "choices": [...]}].  Returns list of observations for the ninja steps."""
    r = Real(scenario, ninja, vcmd, compound=compound)
    res = []
    try:
        r.setup()
        for i, h in enumerate(history):
            op = scenario["ops"][h["op"]]
            if op["op"] == "ninja":
                o = r.run_ninja(op, h.get("choices", []))
                o["step"] = i
                res.append(o)
            else:
                r.apply_simple(op)
    finally:
        r.kill_strays()
        r.close()
    return res


def nx_replay(scenario, history, nx_exe):
    import tempfile as tf
    with tf.NamedTemporaryFile("w", suffix=".json", dir=SHM, delete=False) as f:
        json.dump({"scenario": scenario, "history": history}, f)
        path = f.name
    try:
        # (the replay is deterministic; on a machine shared with other exploration jobs the process was seen to end without
        # output once in several thousand runs: repeated before it is called a disagreement, and reported with its status)
        for attempt in range(3):
            out = subprocess.run([nx_exe, "replay=" + path, "json=1"], stdout=subprocess.PIPE, stderr=subprocess.PIPE)
            lines = [l for l in out.stdout.decode("latin-1").splitlines() if l.startswith("[")]
            if lines:
                return json.loads(lines[-1])
            time.sleep(0.5)
        raise RuntimeError("nx replay produced no result (exit status %s): %s" % (out.returncode, out.stderr.decode()[-500:]))
    finally:
        os.unlink(path)


def compare(nx_steps, real_steps):
    """Returns list of disagreement strings."""
    diffs = []
    if len(nx_steps) != len(real_steps):
        return ["different number of ninja invocations: %d vs %d" % (len(nx_steps), len(real_steps))]
    for a, b in zip(nx_steps, real_steps):
        if a["exit"] != b["exit"]:
            diffs.append("step %d: exit %s (engine A) vs %s (real binary)" % (a["step"], a["exit"], b["exit"]))
        if sorted(a["started"]) != sorted(b["started"]):
            diffs.append("step %d: started %s vs %s" % (a["step"], a["started"], b["started"]))
        if a["no_work"] != b["no_work"]:
            diffs.append("step %d: 'no work to do' %s vs %s" % (a["step"], a["no_work"], b["no_work"]))
        fa, fb = a["files"], b["files"]
        for k in sorted(set(fa) | set(fb)):
            if fa.get(k) != fb.get(k):
                diffs.append("step %d: file %s differs: %r vs %r" % (a["step"], k, (fa.get(k) or "")[:60], (fb.get(k) or "")[:60]))
                break
    return diffs
