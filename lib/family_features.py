"""Feature-interaction family X(A; link; B; C) (DESIGN.md 3.1): every graph built from one slot per
role, crossing the features that the curated templates only combine pairwise.

  A  producer                 plain | restat | pool depth 1 | pool depth 2 | console | two outputs | restat in a pool
  w  sibling of A (same pool) always present, reads source t
  link A -> B                 explicit | implicit | order-only | discovered through a depfile/deps (generated header
                              with an order-only manifest path) | supplied by a dyndep file produced in the build |
                              validation (B does not read A)
  B  consumer                 plain | restat | depfile | deps=gcc | deps=msvc | same pool as A | console
  C  top                      reads B and w | reads a phony alias of B, and w | depends order-only on B

The true reads of every command are known (scen.Stmt), so the same oracles as for the templates apply.
Not every combination is meaningful: a discovered link needs a B that reports dependencies, and B can
only share A's pool when A has one."""
import itertools

from family_cycles import dyndep_text
from scen import Stmt, Variant, scenario, standard_ops

A_KINDS = ["plain", "restat", "pool1", "pool2", "console", "two_outputs", "restat_pool1"]
LINKS = ["ex", "im", "oo", "discovered", "dyndep", "validation"]
B_KINDS = ["plain", "restat", "depfile", "gcc", "msvc", "same_pool", "console"]
C_KINDS = ["reads", "alias", "order_only"]


def build(a, link, b, c):
    pools = {}
    akw, wkw = {}, {}
    a_outs = ["a"]
    if a in ("restat", "restat_pool1"):
        akw["restat"] = True
    if a in ("pool1", "restat_pool1"):
        pools["pp"] = 1
        akw["pool"] = wkw["pool"] = "pp"
    if a == "pool2":
        pools["pp"] = 2
        akw["pool"] = wkw["pool"] = "pp"
    if a == "console":
        akw["pool"] = wkw["pool"] = "console"
    if a == "two_outputs":
        a_outs = ["a", "a2"]
    bkw = {}
    if b == "restat":
        bkw["restat"] = True
    if b == "depfile":
        bkw["depfile"] = True
    if b in ("gcc", "msvc"):
        bkw["deps"] = b
    if b == "same_pool":
        if "pool" not in akw:
            return None
        bkw["pool"] = akw["pool"]
    if b == "console":
        bkw["pool"] = "console"
    reporting = b in ("depfile", "gcc", "msvc")
    if link == "discovered" and not reporting:
        return None
    src_a = a_outs[-1]          # B uses the last output of A (the second one of a pair)
    bin_ = dict(ex=["src"], im=[], oo=[], val=[], hidden=["hdr"] if reporting else [], extra_reads=[], dyndep="")
    files = {}
    stmts = [Stmt(a_outs, ex=["s"], **akw), Stmt("w", ex=["t"], **wkw)]
    if link == "ex":
        bin_["ex"].append(src_a)
    elif link == "im":
        bin_["im"].append(src_a)
    elif link == "oo":
        bin_["oo"].append(src_a)       # B waits for A but does not read it
    elif link == "discovered":
        bin_["oo"].append(src_a)
        bin_["hidden"].append(src_a)
    elif link == "dyndep":
        bin_["oo"].append("dd")
        bin_["dyndep"] = "dd"
        bin_["extra_reads"].append(src_a)
        files["dd.in"] = dyndep_text([("b", [], [src_a], False)])
        stmts.append(Stmt("dd", ex=["dd.in"], copy=True))
    elif link == "validation":
        bin_["val"].append(src_a)
    stmts.append(Stmt("b", ex=bin_["ex"], im=bin_["im"], oo=bin_["oo"], val=bin_["val"], hidden=bin_["hidden"],
                      extra_reads=bin_["extra_reads"], dyndep=bin_["dyndep"], **bkw))
    if c == "reads":
        stmts.append(Stmt("top", ex=["b", "w"]))
    elif c == "alias":
        stmts.append(Stmt("al", ex=["b"], phony=True))
        stmts.append(Stmt("top", ex=["al", "w"]))
    else:
        stmts.append(Stmt("top", ex=["u"], oo=["b"]))
    defaults = ["top"] if link != "validation" else []
    if c == "order_only":
        defaults = []      # everything: w would otherwise be outside the closure
    return Variant("v0", stmts, pools=pools, defaults=defaults), files


def family(tier="quick", a_kinds=A_KINDS, links=LINKS, b_kinds=B_KINDS, c_kinds=C_KINDS):
    depth = 3 if tier == "quick" else 4
    n = 0
    for a, link, b, c in itertools.product(a_kinds, links, b_kinds, c_kinds):
        r = build(a, link, b, c)
        if r is None:
            continue
        v, files = r
        restat = a in ("restat", "restat_pool1") or b == "restat"
        ops = standard_ops([v], files, js=(1, 3), touch=restat, fault_modes=({"code": 1, "touch": True},), ks=(1, 0),
                           max_fault_stmts=3, edits_during=False, touch_only=("dd.in",),
                           rm_depfiles=(b == "depfile"))
        bi = next(i for i, o in enumerate(ops) if o["op"] == "ninja")
        n += 1
        name = "X#%d A=%s link=%s B=%s C=%s" % (n, a, link, b, c)
        tags = sorted({a, "link-" + link, "B-" + b, "C-" + c})
        yield scenario(name + "/built", "X(A;link;B;C)", [v], files=files, ops=ops, init=[bi], depth=depth, tags=tags)
        yield scenario(name + "/fresh", "X(A;link;B;C)", [v], files=files, ops=ops, init=[], depth=1, tags=tags + ["fresh"])
