"""Shared driver for the engine-A checks: build nx, shard scenario files over the cores, aggregate
statistics, classify violations against known_findings.json, write replays."""
import json
import os
import subprocess
import sys
import time

import nxbuild
import scen
import vbuild
from vcheck import NCPU


def nx_exe():
    return nxbuild.nx_binary("nx", "src/nx/explore.cc", ["src/nx/scenario.cc"],
                             ["src/nx/scenario.h", "src/common/vjson.h", "src/common/logparse.h"])


def matches(v, finding):
    m = finding.get("match", {})
    if "clause" in m and v.get("clause") != m["clause"]:
        return False
    if "clauses" in m and v.get("clause") not in m["clauses"]:
        return False
    for k, want in m.get("facts", {}).items():
        if v.get("facts", {}).get(k) != want:
            return False
    for t in m.get("tags_any", []) and [m["tags_any"]]:
        if not set(t) & set(v.get("tags", [])):
            return False
    return True


NUM_KEYS = ["memory_stops", "scenarios", "incomplete_scenarios", "single_outcome_scenarios", "states", "transitions", "invocations",
            "schedules", "commands", "multi_outcome_points", "tainted_worlds", "dev_capped", "crash_runs", "crash_worlds", "io_fault_runs",
            "js_runs", "js_moves", "js_spins", "desc_allocs"]


def _sweep_fifos():
    """The jobserver seam's FIFO (/dev/shm/nxjs.<pid>) of worker processes that left through _exit(): remove those whose
    process is gone."""
    import glob
    for f in glob.glob("/dev/shm/nxjs.*"):
        pid = f.rsplit(".", 1)[1]
        if pid.isdigit() and not os.path.exists("/proc/" + pid):
            try:
                os.unlink(f)
            except OSError:
                pass


def run(check, scenarios, props, depth=None, devbound=None, seconds=None, tag="nx", extra=()):
    """Explore all scenarios; returns aggregated dict.  Violations for properties in `props` are
    reported through check.violation()/check.known()."""
    exe = nx_exe()
    os.makedirs(os.path.join(vbuild.BUILD, "scen"), exist_ok=True)
    path = os.path.join(vbuild.BUILD, "scen", "%s-%s-%d.jsonl" % (check.prop, tag, os.getpid()))
    scen.dump(scenarios, path)
    nsh = min(NCPU, max(1, len(scenarios)))
    cmds = []
    for i in range(nsh):
        c = [exe, "scenarios=" + path, "shard=%d" % i, "nshards=%d" % nsh, "props=" + ",".join(props),
             "known=" + os.path.join(vbuild.VERIF, "known_findings.json")]
        if depth is not None:
            c.append("depth=%d" % depth)
        if devbound is not None:
            c.append("devbound=%d" % devbound)
        if seconds is not None:
            c.append("seconds=%f" % seconds)
        c += list(extra)
        cmds.append(c)
    res = check.run_many(cmds)
    _sweep_fifos()
    agg = {k: 0 for k in NUM_KEYS}
    agg["max_schedules_per_point"] = 0
    agg["max_running"] = 0
    agg["outcome_kinds"] = set()
    agg["samples"] = []
    agg["violations"] = []
    agg["incomplete_scenario_names"] = []
    for (rc, val, err), cmd in zip(res, cmds):
        crash = [ln for ln in err.splitlines() if ln.startswith("NXCRASH ")]
        for ln in crash[:4]:
            # a crash inside ninja (assertion, heap corruption, segfault) while exploring one scenario; the
            # shard went on with the next scenario in a fresh worker
            cj = json.loads(ln[8:])
            sc = scenarios[cj["scenario_index"]]
            for h in cj["history"]:
                h["label"] = sc["ops"][h["op"]].get("label", "op%d" % h["op"])
            check.violation("crash inside ninja (signal %d) in %s  history: %s" % (
                cj["signal"], sc["name"], " ; ".join("%s%s" % (h["label"], h["choices"] or "") for h in cj["history"])),
                {"engine": "nx", "scenario": sc, "history": cj["history"], "clause": "crash",
                 "facts": {"signal": cj["signal"]}, "detail": err[-1500:]})
        if rc == 97 and val is not None and crash:
            rc = 0
        if rc != 0 or val is None:
            # A dying worker is a verdict of its own (crash inside ninja code) unless it is exit 2
            # (harness error).
            if crash:
                continue
            if rc == 2:
                check.harness_error("nx shard failed: %s\n%s" % (" ".join(cmd), err[-3000:]))
            check.violation("nx worker died (rc=%s) -- crash inside ninja under exploration?\n%s" % (rc, err[-2000:]),
                            {"cmd": cmd, "stderr": err[-4000:], "kind": "worker-death"})
            continue
        for k in NUM_KEYS:
            agg[k] += int(val.get(k, 0))
        agg["max_schedules_per_point"] = max(agg["max_schedules_per_point"], val.get("max_schedules_per_point", 0))
        agg["max_running"] = max(agg["max_running"], val.get("max_running", 0))
        agg["outcome_kinds"] |= set(val.get("outcome_kinds", []))
        agg["samples"] += val.get("samples", [])[:1]
        agg["violations"] += val.get("violations", [])
        agg["incomplete_scenario_names"] += val.get("incomplete_scenario_names", [])
    try:
        os.unlink(path)
    except OSError:
        pass
    agg["outcome_kinds"] = sorted(agg["outcome_kinds"])
    # classify
    viols = sorted(agg["violations"], key=lambda v: (len(v["history"]), v["scenario_name"]))
    reported = set()
    for v in viols:
        if v["prop"] not in props:
            continue
        known = None
        for f in check.findings:
            if f.get("property") == v["prop"] and matches(v, f):
                known = f
                break
        if known:
            check.known(known["id"], "%s [%s] e.g. %s: %s" % (known["what"], known["id"], v["scenario_name"],
                                                              " ; ".join(h["label"] for h in v["history"])))
            continue
        sig = (v["prop"], v["clause"], json.dumps(v["facts"], sort_keys=True)[:200])
        if sig in reported:
            continue
        reported.add(sig)
        if len(reported) > 8:
            continue
        sc = scenarios[v["scenario_index"]]
        check.violation("%s/%s in %s: %s  history: %s" % (v["prop"], v["clause"], v["scenario_name"], v["detail"],
                                                          " ; ".join(h["label"] for h in v["history"])),
                        {"engine": "nx", "scenario": sc, "history": v["history"], "clause": v["clause"],
                         "facts": v["facts"], "detail": v["detail"]})
    return agg


def replay(check, props):
    exe = nx_exe()
    rc1 = subprocess.call([exe, "replay=" + check.replay, "props=" + ",".join(props)], stdout=sys.stdout)
    if rc1 < 0 or rc1 in (134, 139):
        print("replay: ninja crashed with signal %d on this history" % abs(rc1))
        sys.exit(1)
    sys.exit(1 if rc1 == 1 else (0 if rc1 == 0 else 2))


def merge(a, b):
    out = dict(a)
    for k in NUM_KEYS:
        out[k] = a.get(k, 0) + b.get(k, 0)
    out["max_schedules_per_point"] = max(a.get("max_schedules_per_point", 0), b.get("max_schedules_per_point", 0))
    out["max_running"] = max(a.get("max_running", 0), b.get("max_running", 0))
    out["outcome_kinds"] = sorted(set(a.get("outcome_kinds", [])) | set(b.get("outcome_kinds", [])))
    out["samples"] = (a.get("samples", []) + b.get("samples", []))[:6]
    out["violations"] = a.get("violations", []) + b.get("violations", [])
    return out


def coverage(agg, rule, families, extra=None):
    cov = {
        "states": agg["states"],
        "transitions": agg["transitions"],
        "traces_validated_against_impl": agg["schedules"],
        "evaluations": agg["invocations"],
        "distinct_nontrivial": agg["multi_outcome_points"],
        "rule": rule,
        "scenarios": agg["scenarios"],
        "schedules_executed_on_real_code": agg["schedules"],
        "invocations_of_real_ninja_main": agg["invocations"],
        "simulated_commands_run": agg["commands"],
        "world_op_points_with_more_than_one_outcome": agg["multi_outcome_points"],
        "scenarios_with_a_single_outcome_everywhere": agg["single_outcome_scenarios"],
        "max_schedules_for_one_invocation": agg["max_schedules_per_point"],
        "max_commands_running_at_once": agg["max_running"],
        "outcome_kinds": agg["outcome_kinds"],
        "deviation_capped_branches": agg["dev_capped"],
        "crash_point_executions": agg.get("crash_runs", 0),
        "worlds_after_a_crash_examined": agg.get("crash_worlds", 0),
        "injected_io_error_executions": agg.get("io_fault_runs", 0),
        "incomplete_scenarios": agg["incomplete_scenarios"],
        "scenarios_stopped_by_the_memory_budget": agg.get("memory_stops", 0),
        "worlds_not_expanded_because_tainted_by_a_finding": agg["tainted_worlds"],
        "edge_and_node_objects_placed_at_descending_addresses": agg.get("desc_allocs", 0),
        "jobserver_invocations_in_process": agg.get("js_runs", 0),
        "jobserver_moves_of_the_other_client": agg.get("js_moves", 0),
        "jobserver_busy_waits_observed": agg.get("js_spins", 0),
        "families": families,
        "samples": agg["samples"][:6] or [{"note": "no multi-command execution sampled"}],
    }
    if extra:
        cov.update(extra)
    return cov
