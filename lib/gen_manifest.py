#!/usr/bin/env python3
"""Regenerates MANIFEST.json from the table below (single source of truth for the interface)."""
import json
import os

VERIF = os.path.dirname(os.path.dirname(os.path.abspath(__file__)))

BASELINE_OFF = ("cmake -G Ninja -S /repo -B /repo/_build >/dev/null && cmake --build /repo/_build >/dev/null && "
                "ctest --test-dir /repo/_build -j8 --timeout 900")

# id -> dict(level, text, note, technique, engine, design_ref)
CHECKS = {}
NOT_YET = {}


def check(pid, **kw):
    CHECKS[pid] = kw


check("C14", level="model_checking", engine="ix",
      technique="bounded-exhaustive input enumeration on the real routine vs reference normaliser",
      text="Every string over {a,b,.,/} up to length 11 (quick) / 14 (thorough), plus a second alphabet with "
           "backslash, space and a high byte, is run through the real CanonicalizePath (exact-size canaried buffer; "
           "shorter lengths again under ASan+UBSan) and compared with a ten-line component-stack reference; "
           "idempotence, no growth, leading slash and slash_bits are checked on every input. Complete within the bound.",
      note="Trusts the reference normaliser RefCanon in src/ix/canon.cc; other byte values are opaque to the routine.",
      design_ref="5/C14")

NX_NOTE = ("Trusted base: the simulated environment (src/nx/simproc.cc commands and completion choices, src/common/simfs.cc "
           "libc-level in-memory files), the reference models in src/nx/explore.cc and the scenario generators in lib/. "
           "ninja's own code runs unmodified (real_main, Builder, Plan, Pool, RealCommandRunner, RealDiskInterface, logs). "
           "Bounds: curated templates + generated graph families listed in the evidence; history depth and schedule "
           "bounds as reported there.")

check("C01", level="model_checking", engine="nx",
      technique="explicit-state BFS over histories x exhaustive schedule DFS on the real ninja main loop, clean-build content oracle",
      text="Every world reachable within the history depth from a fresh and from a built tree of each scenario (templates + all "
           "2-statement graphs over 4 rule kinds; thorough adds 3-statement and 3-input families and deeper histories) is "
           "expanded by every operation of the alphabet; each ninja invocation is run under every completion schedule "
           "(all subsets of simultaneous completions); after every exit 0 the target closure must equal the clean-build "
           "oracle computed from the true graph. Complete within the stated bounds.",
      note=NX_NOTE, design_ref="5/C01")
check("C02", level="model_checking", engine="nx",
      technique="explicit-state BFS over histories x exhaustive schedule DFS; immediate re-run oracle",
      text="Same exploration as C01; after every successful invocation on every schedule the identical invocation is repeated: "
           "no command may start, 'no work to do' must be printed, exit 0, and the world must be unchanged.",
      note=NX_NOTE, design_ref="5/C02")
check("C04", level="model_checking", engine="nx",
      technique="exhaustive schedule DFS (all completion subsets) with a start-time ordering monitor on the real Builder/Plan",
      text="On every schedule of every explored invocation (-j1/2/3/4, pools, validations, phony chains) each command start is "
           "checked: all producers that run have finished successfully, output/depfile directories exist, response file "
           "holds the declared content.",
      note=NX_NOTE, design_ref="5/C04")
check("C05", level="model_checking", engine="nx",
      technique="fault-set x schedule enumeration on the real Builder/Plan with trace and log oracles",
      text="Every single failing statement (and pairs on parallel templates), with and without overwritten outputs, under "
           "-k1/-k0/-k2 and every schedule: containment, exit status, budget, no log record for failures, successes recorded, "
           "independent work started (differential against the fault-free run), retry by the next build.",
      note=NX_NOTE, design_ref="5/C05")
check("C06", level="model_checking", engine="nx",
      technique="exhaustive schedule DFS with concurrency-limit, at-most-once, liveness (hang/stuck/horizon) and idle-slot monitors; under a jobserver, exhaustive placement of the other client's token moves at every wait (real client code on a FIFO owned by the harness)",
      text="On every schedule: running <= -j, per pool <= depth, console <= 1, each statement at most once per manifest cycle, "
           "no hang (wait with nothing running), never 'stuck', and no wait while a later-started statement was startable. As a "
           "jobserver client (in process): for every pool state of the family and every placement of the other client's takes and "
           "returns within the move budget, running <= tokens held + 1 at every start, every token back after exit on every path "
           "but a kill, no startable statement next to a readable pool that ninja does not watch, no livelock, an explicit -j "
           "leaves the pool alone. The dyndep / pool / console / validation shapes also with Edge/Node objects at descending addresses.",
      note=NX_NOTE + " Engine B adds the real SubprocessSet: the unmodified executable as a client of a real FIFO jobserver "
           "(tokens before = tokens after on every path, running <= tokens held + 1 at every sample), manifest regeneration and "
           "failing completions under a jobserver, and a tool that closes its output early next to ordinary commands (the real "
           "poll loop must go on reaping and starting).",
      design_ref="5/C06")

check("C03", level="model_checking", engine="nx",
      technique="explicit-state BFS over change sets of size <= 2 from converged worlds x exhaustive schedule DFS; make-semantics run-set oracle",
      text="From every successful content-correct full build reached in the exploration, every change set of size 0, 1 and 2 "
           "from the alphabet is applied and every ninja invocation is run on every schedule; the started set must equal the "
           "reference set computed on the true graph (directly affected + non-order-only dependents of rewritten outputs; "
           "restat rewrites only on content change; generator ignores command-line changes).",
      note=NX_NOTE + " The reference set is defined relative to a converged base build; histories after partial or failed "
           "builds are covered by C01/C02, not by this oracle.", design_ref="5/C03")

check("C07", level="fault_enumeration", engine="nx",
      technique="exhaustive crash-point enumeration (every mutating libc call x torn/untorn x orphan outcomes) and interrupt points on the real ninja main loop, followed by BFS over recovery histories",
      text="For each crash/interrupt template and schedule, ninja is killed at every file-system mutating operation (create, "
           "append with and without a torn part, mkdir, remove, rename, truncate), orphaned commands complete or not; an "
           "interrupt is offered at every wait and as a child dying of the signal; all resulting worlds are expanded by "
           "further operations: the next invocation must start normally and, after exit 0, clean-build and convergence "
           "oracles must hold; interrupted builds exit 130, remove the lock file, modified outputs (always for depfile "
           "statements) and depfiles of killed commands; a console command may have died with the interrupt and sit among the "
           "finished ones nobody has asked for yet.",
      note=NX_NOTE + " Death is modelled at libc-call granularity on an in-memory file system. Engine B adds real signals on the "
           "unmodified executable: SIGINT/SIGTERM/SIGHUP/SIGKILL at each of the first three waits of fresh and incremental builds "
           "(to the process and, for console commands, to the process group as a terminal does), with and without partially written "
           "outputs, and an interrupt that arrives while ninja is outside ppoll() (pending, found by sigpending()); exit 130, lock file "
           "gone, no surviving command, recovery build equals a clean build; a command that catches the signal and writes once more "
           "before it is gone (ninja must wait for it before it removes the output).", design_ref="5/C07")

check("C08", level="model_checking", engine="lx",
      technique="explicit-state BFS over log operation sequences x every tear offset x continuations on the real BuildLog, independent reference reader",
      text="All sequences of log operations up to depth 2 (quick) / 3 (thorough) from the alphabet, every byte offset of every "
           "reached file as a tear point, every continuation of length <= 2 after the tear; after each step the real "
           "BuildLog's loaded state is compared with an independent last-wins reader of the file bytes and with the "
           "per-operation expectations (acknowledged records visible, only dead entries dropped, restat touches only mtimes, "
           "unsupported versions discarded).",
      note="Trusted base: src/common/simfs.cc (in-memory files behind libc), src/common/logparse.h (reference reader), the "
           "operation oracles in src/lx/lx_buildlog.cc. Bounds: 3 edges (one with two outputs, one with a space, one 300 KiB "
           "name), 2 command hashes, small mtime domain; depth and tear caps as reported.", design_ref="5/C08")

check("C09", level="model_checking", engine="lx",
      technique="explicit-state BFS over deps-log operation sequences x every tear offset x garbage tails x continuations on the real DepsLog, independent reference reader",
      text="All sequences of deps-log operations up to depth 3 (quick) / 4 (thorough), every byte offset of every reached file "
           "as a tear point, garbage tails of 1-2 words over a 20-word alphabet and short byte tails, continuations of length "
           "<= 2/3 after each; after each step the real DepsLog's state (GetDeps of every node, file size after recovery, id "
           "table) is compared with an independent reader of the bytes and with per-operation expectations.",
      note="Trusted base: src/common/simfs.cc, src/common/logparse.h (reference reader), oracles in src/lx/lx_depslog.cc. "
           "Bounds: 2 outputs, 4 dependency paths (all padding cases) + one path at the record size limit, small mtime domain.",
      design_ref="5/C09")

check("C16", level="model_checking", engine="ix",
      technique="bounded-exhaustive name enumeration through the real Edge evaluation and the real /bin/sh; rspfile lifecycle by schedule/fault enumeration in engine A",
      text="Every 1-2 byte name (all byte values but NUL/newline) and every 3-byte name over 24 shell-special bytes is "
           "substituted for $in, $out and $in_newline by ninja's own evaluation and parsed by the real /bin/sh: exactly one "
           "word per name, equal to the name; safe names verbatim. Response files: content at command start, removal after "
           "success and retention after failure on every schedule of the rspfile templates.",
      note="Trusted base: src/ix/shell.cc, src/ix/printargs.c, /bin/sh (dash) as reference; for (b) the engine-A base. "
           "Names with NUL/newline excluded as the property states; longer names are not enumerated.", design_ref="5/C16")

check("C13", level="model_checking", engine="ix",
      technique="bounded-exhaustive token-string enumeration per input format on the real parsers/loaders under ASan+UBSan, forked workers with watchdog",
      text="For each of 16 input formats (manifest, manifest includes, rule variables referring to each other, depfile, depfile through the dependency scan, dyndep, "
           ".ninja_log tokens and whole records with extreme field values through NinjaMain, .ninja_deps behind a valid header, "
           "/showIncludes text, MAKEFLAGS, NINJA_STATUS, --status, ElideMiddle, CanonicalizePath) every token string up to "
           "the stated length is processed by the real code in a sanitizer build; plus a list of structural stress cases "
           "(self-including manifests, deep nesting, variable cycles, oversized records/lines, -d explain with names around the size of "
           "its buffer). Any sanitizer report, abort, "
           "stack overflow or watchdog timeout is a violation.",
      note="Trusted base: src/ix/fuzzall.cc (drivers, token alphabets), the sanitizers. Complete only within the token "
           "alphabets and lengths reported in the evidence; long random inputs are outside this family.", design_ref="5/C13")
check("C15", level="model_checking", engine="ix",
      technique="bounded-exhaustive name x layout enumeration, reference encoder (GCC/Clang quoting) vs the real DepfileParser",
      text="Every representable name (incl. names ending in an even run of backslashes) up to length 4 (quick) / 5 (thorough) over "
           "an 11-symbol alphabet of special characters, in "
           "4 placements and every ordered pair of names up to length 3, each in 7 layouts, with and without escaped colons; "
           "the real parser must return exactly the encoded names, each dependency once, targets and dependencies apart; "
           "depfiles without ':' and dependencies re-used as targets with dependencies must be rejected. Rule structures: every "
           "depfile of up to 3 (thorough 4) rules over four names with one target and 0-2 dependencies per rule, and every text "
           "without ':' of up to 6 tokens over names, blanks and line ends, against a reference reader.",
      note="Trusted base: reference encoder and representability predicate in src/ix/depfile.cc.", design_ref="5/C15")

check("C18", level="model_checking", engine="nx",
      technique="explicit-state BFS over tree/log states x every clean scope through the real front end; reference scope model on the true graph",
      text="From every world reached in the clean templates every clean invocation (all, -g, each target and pairs, each rule "
           "incl. the built-in phony, cleandead; with and without -n) is executed through ninja's real main; the set of "
           "deleted files must equal the reference scope restricted to existing files, -n must delete nothing and list the "
           "same set, and the following build must satisfy the clean-build oracle.",
      note=NX_NOTE + " Generator outputs are outside every scope without -g, as the property states (ninja's target and rule forms ignore "
           "-g: known finding F48). Shapes include subninja scopes with shadowed rule names, builddir projects, dyndep files that "
           "claim foreign outputs, generator bound in the build block.", design_ref="5/C18")
check("C19", level="model_checking", engine="nx",
      technique="explicit-state BFS over tree/log states x every read-only tool and -n through the real front end; before/after world comparison, differential next build, prediction and JSON oracles",
      text="From every world reached in the tool templates, -n and each read-only tool is executed through ninja's real "
           "main: no command starts, the world (files + parsed meaning of both logs) is unchanged, the next real build is "
           "identical to the one from the untouched world, -n predicts the real build's commands (superset under restat "
           "pruning) in dependency order, -t commands lists the closure in dependency order, compdb output is strict JSON "
           "for every byte a manifest can carry and for working directories whose name needs escaping; dry runs of the tools "
           "that write (-n -t restat, -n -t recompact) and a damaged depfile in front of the tools are part of the alphabet.",
      note=NX_NOTE + " Directories count (a dry run creates none); only ninja's own builddir, created by every tool that loads the logs, is "
           "not judged, and a pending log recompaction is not part of the logs' meaning. compdb must also be valid UTF-8 (F51), "
           "compdb -x is run with the response file named at every small offset, targets may be named relative to $builddir.",
      design_ref="5/C19")

check("C17", level="model_checking", engine="nx",
      technique="exhaustive enumeration of small graphs x targets (scan) and schedule DFS for mid-build dyndep cases on the real scanner/planner; reference cycle search on the effective graph",
      text="Every 3-statement manifest with <= 1 input per statement over 4 input kinds and with <= 2 inputs over explicit+"
           "validation (thorough adds implicit+order-only and explicit+order-only) x every single target and the default, plus templates for every way a cycle can "
           "be closed (manifest, depfile, deps log gcc/msvc, dyndep inputs and outputs present at start or produced "
           "mid-build under every schedule, phony, multi-output, validations): cyclic => a 'dependency cycle' error that "
           "spells a real cycle, no command of it starts, exit != 0; acyclic => never rejected; never a hang.",
      note=NX_NOTE + " The reference graph contains discovered dependencies only when ninja could load them (existing depfile, "
           "valid deps record) and dyndep-supplied outputs only once the bound statement is reachable.", design_ref="5/C17")

check("C10", level="model_checking", engine="nx",
      technique="explicit-state BFS over histories x exhaustive schedule DFS, lock-step metamorphic twin (discovered vs declared dependencies)",
      text="For depfile / deps=gcc / deps=msvc consumers with source headers, generated headers with and without a manifest "
           "path, restat-generated headers, two-level generation, two consumers, two-output consumers in a pool, nested discovery, "
           "a consumer reached as a validation, compiler spellings (./gen.h) and a restat consumer whose reported list grows, "
           "every history up to the depth bound (5 quick / 6 thorough) is run on the scenario and on its twin "
           "with the same dependencies declared as implicit inputs: equal started sets and success per invocation (every "
           "schedule), ordering after the producers of discovered dependencies, clean-build final state; the permitted "
           "difference (a vanished discovered dependency rebuilds instead of failing) is modelled.",
      note=NX_NOTE, design_ref="5/C10")
check("C11", level="model_checking", engine="nx",
      technique="explicit-state BFS over histories x exhaustive schedule DFS, lock-step metamorphic twin (dyndep vs inlined manifest); exhaustive invalid-variant and every-byte truncation enumeration against a reference reader",
      text="Valid side: dyndep shapes (existing/produced file, added inputs incl. source files, implicit outputs incl. a long "
           "log history, restat, shared file, two levels, validations, order-only behind a discovered input, dyndep file named "
           "twice, file loaded from inside the bookkeeping of the statement it names; depth 6 quick / 7 thorough) are explored in lock step with the inlined twin: equal started sets and success on every schedule, "
           "ordering after producers of dyndep-supplied inputs, clean-build final state. Invalid side: every structural "
           "mutation and every truncation offset that the reference reader classifies as not a valid complete description, "
           "pre-existing and produced mid-build, must make the build fail.",
      note=NX_NOTE + " Reference reader for the invalid side: lib/templates_c11.py ref_parse/valid_for (simple lexical forms only).",
      design_ref="5/C11")

check("C20", level="model_checking", engine="nx",
      technique="exhaustive schedule DFS (all completion subsets) on the real StatusPrinter/LinePrinter/Builder with a transcript parser as oracle",
      text="For output templates (every kind of command output, failures, restat pruning, dyndep additions, console-pool "
           "mixes, manifest regeneration) and every schedule, -j/-k, default, NINJA_STATUS, --status and -v formats, the "
           "captured transcript is parsed: each command's visible output exactly once, contiguous, directly after its status "
           "line (failed: FAILED [code] outputs + command line first), nothing between a console command's status line and "
           "its own output, counters within bounds and finished = total after success.",
      note=NX_NOTE + " Command output is delivered whole at completion (output arriving in pieces through real pipes is not covered). "
           "Every schedule and fault set runs with piped output and, through an isatty/TIOCGWINSZ seam, with stdout as a 50-column "
           "terminal; there the oracle rebuilds the screen (CR, LF, erase-line, control sequences) and requires every finished "
           "command's output to be visible whole.", design_ref="5/C20")

check("C12", level="model_checking", engine="ix",
      technique="bounded-exhaustive program families evaluated by an independent reference evaluator of the manifest language and by the real ManifestParser; canonical graph comparison",
      text="Four complete manifest families (scoping across include/subninja, statement forms incl. every legacy "
           "self-referencing phony shape, lexical token strings in path and value positions, all single-token mutations of "
           "15 base manifests) are evaluated by lib/refmanifest.py, written from the manual, and parsed by the real parser: "
           "equal canonical graph dumps (pools, defaults, per statement outputs, input kinds, validations, pool and every "
           "evaluated rule variable), agreeing rejections with file:line. Readings the manual leaves open are all accepted.",
      note="Trusted base: lib/refmanifest.py (reference evaluator), lib/family_manifest.py, src/ix/manifest.cc (dump). "
           "Families include ninja_required_version / $^ across a parent and two included files, file-level reserved variables, "
           "empty rule-level bindings, rule-level pool with $in/$out, and what a plain ninja builds by default (root nodes).", design_ref="5/C12")

ALL = ["C%02d" % i for i in range(1, 21)]


def main():
    checks = []
    for pid in ALL:
        if pid not in CHECKS:
            continue
        c = CHECKS[pid]
        checks.append({
            "property_id": pid,
            "quick_cmd": "bin/check %s --tier quick" % pid,
            "thorough_cmd": "bin/check %s --tier thorough" % pid,
            "evidence_file": "/verif/evidence/%s.json" % pid,
            "replay_cmd_template": "bin/check %s --replay {path}" % pid,
            "engine": c["engine"],
            "level_claimed": {"category": c["level"], "text": c["text"], "design_ref": "DESIGN.md " + c["design_ref"]},
            "level_note": c["note"],
            "technique": c["technique"],
        })
    na = [{"property_id": pid, "reason": NOT_YET.get(pid, "check not built yet in this round (planned: DESIGN.md section 5); nothing is claimed for it")}
          for pid in ALL if pid not in CHECKS]
    m = {
        "version": 1,
        "setup_cmd": "python3 lib/setup.py",
        "hooks": {
            "guard": "NINJA_BUILD_NINJA_VERIF",
            "enable": "checks compile /repo/src themselves with -DNINJA_BUILD_NINJA_VERIF=1 (lib/vbuild.py); no source hook exists so far, all seams are link-time",
            "baseline_off_cmd": BASELINE_OFF,
            "source_commits": [],
            "add_only": True,
        },
        "engines": [
            {"name": "ix", "path": "src/ix", "serves_properties": ["C12", "C13", "C14", "C15", "C16"],
             "kind_free_text": "bounded-exhaustive input enumerators over the real parsers/routines"},
            {"name": "nx", "path": "src/nx", "serves_properties": ["C01", "C02", "C03", "C04", "C05", "C06", "C07", "C10", "C11", "C17", "C18", "C19", "C20"],
             "kind_free_text": "in-process world explorer: real ninja front end + Builder/Plan over simulated disk and subprocesses, BFS over histories x DFS over schedules"},
            {"name": "lx", "path": "src/lx", "serves_properties": ["C08", "C09"],
             "kind_free_text": "explicit-state search over log operation sequences x tear offsets on the real BuildLog/DepsLog"},
            {"name": "rb", "path": "src/rb", "serves_properties": ["C06", "C07", "C16", "C20"],
             "kind_free_text": "real-binary conformance: gated helper commands, real signals/FIFO/pty"},
        ],
        "checks": checks,
        "not_applicable": na,
        "notes": "See DESIGN.md. Known findings are listed in known_findings.json.",
    }
    with open(os.path.join(VERIF, "MANIFEST.json"), "w") as f:
        json.dump(m, f, indent=1)
        f.write("\n")


if __name__ == "__main__":
    main()
