#!/usr/bin/env python3
"""Regenerates MANIFEST.json from the table below (single source of truth for the interface)."""
import json
import os

VERIF = os.path.dirname(os.path.dirname(os.path.abspath(__file__)))

BASELINE_OFF = ("cmake -G Ninja -S /repo -B /repo/_build >/dev/null && cmake --build /repo/_build >/dev/null && "
                "ctest --test-dir /repo/_build -j8 --timeout 900")

# id -> dict(level, text, note, technique, engine, design_ref)
CHECKS = {}
NOT_YET = {}


def check(pid, **kw):
    CHECKS[pid] = kw


check("C14", level="model_checking", engine="ix",
      technique="bounded-exhaustive input enumeration on the real routine vs reference normaliser",
      text="Every string over {a,b,.,/} up to length 11 (quick) / 14 (thorough), plus a second alphabet with "
           "backslash, space and a high byte, is run through the real CanonicalizePath (exact-size canaried buffer; "
           "shorter lengths again under ASan+UBSan) and compared with a ten-line component-stack reference; "
           "idempotence, no growth, leading slash and slash_bits are checked on every input. Complete within the bound.",
      note="Trusts the reference normaliser RefCanon in src/ix/canon.cc; other byte values are opaque to the routine.",
      design_ref="5/C14")

ALL = ["C%02d" % i for i in range(1, 21)]


def main():
    checks = []
    for pid in ALL:
        if pid not in CHECKS:
            continue
        c = CHECKS[pid]
        checks.append({
            "property_id": pid,
            "quick_cmd": "bin/check %s --tier quick" % pid,
            "thorough_cmd": "bin/check %s --tier thorough" % pid,
            "evidence_file": "/verif/evidence/%s.json" % pid,
            "replay_cmd_template": "bin/check %s --replay {path}" % pid,
            "engine": c["engine"],
            "level_claimed": {"category": c["level"], "text": c["text"], "design_ref": "DESIGN.md " + c["design_ref"]},
            "level_note": c["note"],
            "technique": c["technique"],
        })
    na = [{"property_id": pid, "reason": NOT_YET.get(pid, "check not built yet in this round (planned: DESIGN.md section 5); nothing is claimed for it")}
          for pid in ALL if pid not in CHECKS]
    m = {
        "version": 1,
        "setup_cmd": "python3 lib/setup.py",
        "hooks": {
            "guard": "NINJA_BUILD_NINJA_VERIF",
            "enable": "checks compile /repo/src themselves with -DNINJA_BUILD_NINJA_VERIF=1 (lib/vbuild.py); no source hook exists so far, all seams are link-time",
            "baseline_off_cmd": BASELINE_OFF,
            "source_commits": [],
            "add_only": True,
        },
        "engines": [
            {"name": "ix", "path": "src/ix", "serves_properties": ["C12", "C13", "C14", "C15", "C16"],
             "kind_free_text": "bounded-exhaustive input enumerators over the real parsers/routines"},
            {"name": "nx", "path": "src/nx", "serves_properties": ["C01", "C02", "C03", "C04", "C05", "C06", "C07", "C10", "C11", "C17", "C18", "C19", "C20"],
             "kind_free_text": "in-process world explorer: real ninja front end + Builder/Plan over simulated disk and subprocesses, BFS over histories x DFS over schedules"},
            {"name": "lx", "path": "src/lx", "serves_properties": ["C08", "C09"],
             "kind_free_text": "explicit-state search over log operation sequences x tear offsets on the real BuildLog/DepsLog"},
            {"name": "rb", "path": "src/rb", "serves_properties": ["C06", "C07", "C16", "C20"],
             "kind_free_text": "real-binary conformance: gated helper commands, real signals/FIFO/pty"},
        ],
        "checks": checks,
        "not_applicable": na,
        "notes": "See DESIGN.md. Known findings are listed in known_findings.json.",
    }
    with open(os.path.join(VERIF, "MANIFEST.json"), "w") as f:
        json.dump(m, f, indent=1)
        f.write("\n")


if __name__ == "__main__":
    main()
