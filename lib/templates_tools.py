"""Scenarios for C18 (clean tools) and C19 (dry run and read-only tools)."""
import itertools

from scen import Stmt, Variant, scenario, ninja_op, tool_op, sources_of


def shapes():
    """(name, [variants]) -- variants[1:] remove or rename statements (for cleandead)."""
    S = []
    S.append(("chain", [
        Variant("v0", [Stmt("a", ex=["s"]), Stmt("b", ex=["a"]), Stmt("c", ex=["b"])]),
        Variant("v1", [Stmt("a", ex=["s"]), Stmt("b", ex=["a"])]),
        Variant("v2", [Stmt("a", ex=["s"]), Stmt("b2", ex=["a"]), Stmt("c", ex=["b2"])]),
    ]))
    # an output whose name contains a TAB (the build log's field separator) leaves the manifest; `data` itself is a source
    S.append(("stale_output_with_a_tab_in_its_name", [
        Variant("v0", [Stmt("data\tv2", ex=["s"]), Stmt("use", ex=["data"]), Stmt("top", ex=["use", "data\tv2"])]),
        Variant("v1", [Stmt("use", ex=["data"]), Stmt("top", ex=["use"])]),
    ]))
    S.append(("depfile_rsp_subdir", [
        Variant("v0", [Stmt("out/x.o", ex=["s"], hidden=["h"], depfile=True),
                       Stmt("out/lib", ex=["out/x.o"], rsp=("out/lib.rsp", "out/x.o")),
                       Stmt("all", ex=["out/lib"], phony=True)], defaults=["all"]),
    ]))
    S.append(("deps_gcc", [
        Variant("v0", [Stmt("obj", ex=["src"], hidden=["hdr"], deps="gcc"), Stmt("exe", ex=["obj"])]),
        Variant("v1", [Stmt("exe", ex=["src"])]),
    ]))
    S.append(("generator_phony_alias", [
        Variant("v0", [Stmt("cfg", ex=["cfg.in"], generator=True), Stmt("use", ex=["cfg"]),
                       Stmt("srcalias", ex=["s"], phony=True), Stmt("t", ex=["srcalias"]),
                       Stmt("s2", phony=True), Stmt("u", ex=["s2"])]),
    ]))
    # `generator = 1` bound in the build block (one rule shared by a generator and an ordinary statement)
    _gb = Stmt("cfg", ex=["cfg.in"], generator=True)
    _gb.generator_at_build = True
    S.append(("generator_bound_in_build_block", [
        Variant("v0", [_gb, Stmt("use", ex=["cfg"]), Stmt("top", ex=["use"])]),
    ]))
    S.append(("multi_shared", [
        Variant("v0", [Stmt(["x", "y"], ex=["s"], iouts=["z"]), Stmt("c", ex=["x", "sh"]), Stmt("d", ex=["y", "sh"], im=["z"])]),
    ]))
    S.append(("validation", [
        Variant("v0", [Stmt("out", ex=["src"], val=["chk"]), Stmt("chk", ex=["out", "rules"]), Stmt("top", ex=["out"])],
                defaults=["top"]),
        # chk is no longer built but still named as a validation
        Variant("v1", [Stmt("out", ex=["src"], val=["chk"]), Stmt("top", ex=["out"])], defaults=["top"]),
    ]))
    # a validation that consumes something built *from* the statement it validates (what validations are for: no cycle)
    S.append(("validation_of_a_downstream", [
        Variant("v0", [Stmt("a", ex=["src"], val=["v"]), Stmt("t", ex=["a"]), Stmt("v", ex=["t", "rules"]), Stmt("u", ex=["t"], val=["v"])],
                defaults=["u"]),
    ]))
    # validations of validations: what a validation needs may itself be validated (the walk from the targets finds the
    # second level only while it walks the first)
    S.append(("validation_nested", [
        Variant("v0", [Stmt("a", ex=["src"], val=["v"]), Stmt("v", ex=["a", "rules"], val=["w"]), Stmt("w", ex=["v"], val=["x"]),
                       Stmt("x", ex=["w", "a"]), Stmt("top", ex=["a"])], defaults=["top"]),
    ]))
    # two dyndep-bound statements; building only the second leaves the first one's dyndep file missing
    dd1 = "ninja_dyndep_version = 1\nbuild out1 | out1.imp: dyndep\n"
    dd2 = "ninja_dyndep_version = 1\nbuild out2 | out2.imp: dyndep\n"
    S.append(("two_dyndep", [
        Variant("v0", [Stmt("dd1", ex=["dd1.in"], copy=True), Stmt("dd2", ex=["dd2.in"], copy=True),
                       Stmt("out1", ex=["in"], oo=["dd1"], dyndep="dd1", extra_outs=["out1.imp"]),
                       Stmt("out2", ex=["in"], oo=["dd2"], dyndep="dd2", extra_outs=["out2.imp"])]),
    ]))
    # one scan statement writes the dyndep files of two statements (cleaning by target in any order: what the first target's
    # cleaning removes must not hide what the second target's dyndep file says)
    S.append(("one_scan_two_dyndep", [
        Variant("v0", [Stmt(["dd1", "dd2"], ex=["dd1.in", "dd2.in"], copy=True),
                       Stmt("out1", ex=["in"], oo=["dd1"], dyndep="dd1", extra_outs=["out1.imp"]),
                       Stmt("out2", ex=["in"], oo=["dd2"], dyndep="dd2", extra_outs=["out2.imp"])]),
    ]))
    # two statements share a dyndep file; one of them is no longer bound to it while the file on disk still has its entry (the
    # build refuses that file; the clean tools go on after the loader's error and still know what the other entry says)
    S.append(("shared_dyndep_file_with_a_stale_entry", [
        Variant("v0", [Stmt("dd", ex=["dd.in"], copy=True),
                       Stmt("a.o", ex=["a.c"], oo=["dd"], dyndep="dd", extra_outs=["a.mod"]),
                       Stmt("b.o", ex=["b.c"], oo=["dd"], dyndep="dd", extra_outs=["b.mod"])]),
        Variant("v1", [Stmt("dd", ex=["dd.in"], copy=True),
                       Stmt("a.o", ex=["a.c"], oo=["dd"], dyndep="dd", extra_outs=["a.mod"]),
                       Stmt("b.o", ex=["b.c"])]),     # still built, no longer bound to the dyndep file
    ]))
    # a generated header becomes a checked-in one: its statement leaves the manifest, the file stays and is still
    # what the object's recorded dependencies name
    for kind, kw in (("gcc", {"deps": "gcc"}), ("depfile", {"depfile": True})):
        S.append(("generated_header_becomes_source_" + kind, [
            Variant("v0", [Stmt("gen.h", ex=["g.in"]), Stmt("foo.o", ex=["foo.c"], oo=["gen.h"], hidden=["gen.h"], **kw),
                           Stmt("old.out", ex=["foo.c"])]),
            Variant("v1", [Stmt("foo.o", ex=["foo.c"], hidden=["gen.h"], **kw)]),
            # ... and the statement stops recording dependencies at all: nothing in the graph names gen.h any more
            Variant("v2", [Stmt("foo.o", ex=["foo.c"])]),
        ]))
    # a subninja file is a scope of its own and may declare a rule named like one of the including file: `clean -r`
    # names the rule, and statements of both scopes use a rule of that name.  (A rule name that exists *only* inside a
    # subninja scope is refused by `clean -r` with "unknown rule", exit 1: a diagnosed refusal, not in the alphabet.)
    def scoped(st, rule, f="sub.ninja"):
        st.scope, st.rule_name = f, rule
        return st
    S.append(("shadowed_rule", [
        Variant("v0", [Stmt("a", ex=["s"]), scoped(Stmt("b", ex=["a"], hidden=["h"], depfile=True), "r0"), Stmt("c", ex=["b"]),
                       scoped(Stmt("d", ex=["s"]), "r2", "sub2.ninja")]),
    ]))
    # several ready statements next to a console-pool statement: a dry run "starts" them all at once
    S.append(("console_among_ready", [
        Variant("v0", [Stmt("a1", ex=["s"]), Stmt("a2", ex=["s"]), Stmt("a3", ex=["t"]), Stmt("con", ex=["t"], pool="console"),
                       Stmt("z1", ex=["s"]), Stmt("all", ex=["a1", "a2", "a3", "con", "z1"], phony=True)], defaults=["all"]),
    ]))
    # an (invalid) dyndep file that claims, as implicit output of its statement, a name that a phony statement declares
    # (a checked-in header) or that another statement produces: the build refuses it; the clean tools ignore loader errors
    S.append(("dyndep_claims_phony_name", [
        Variant("v0", [Stmt("hdr.h", phony=True), Stmt("out", ex=["in"], oo=["ddx"], dyndep="ddx"), Stmt("other", ex=["hdr.h"])]),
    ]))
    S.append(("dyndep_claims_other_output", [
        Variant("v0", [Stmt("gen", ex=["s"]), Stmt("out", ex=["in"], oo=["ddx"], dyndep="ddx"), Stmt("other", ex=["gen"])]),
    ]))
    # a statement with deps whose recorded list is EMPTY (its command reports nothing), in a project with a long history of
    # deps records: the tools that open the deps log recompact it
    S.append(("deps_empty_list", [
        Variant("v0", [Stmt("obj", ex=["src"], deps="gcc"), Stmt("obj2", ex=["src2"], hidden=["hdr"], deps="gcc"),
                       Stmt("m", ex=["src3"], deps="msvc"), Stmt("exe", ex=["obj", "obj2", "m"])]),
    ]))
    # a generator statement WITHOUT restat whose command leaves its output alone when nothing changed (the usual configure
    # step), with dependents: the dry run must list exactly what the build runs
    _g = Stmt("cfg.h", ex=["cfg.in"], generator=True)
    _g.dyn_restat = True      # the tool writes only on change; the rule does not say restat
    S.append(("generator_leaves_output_alone", [
        Variant("v0", [_g, Stmt("use", ex=["cfg.h"]), Stmt("top", ex=["use", "s"])]),
    ]))
    S.append(("no_input_edge", [
        Variant("v0", [Stmt("ver.h"), Stmt("obj", ex=["src"], im=["ver.h"]), Stmt("exe", ex=["obj"])]),
    ]))
    S.append(("restat_pool", [
        Variant("v0", [Stmt("r", ex=["s"], restat=True, pool="one"), Stmt("q", ex=["r"], pool="one"), Stmt("p", ex=["t"], oo=["r"])],
                pools={"one": 1}),
    ]))
    return S


def _common_ops(variants, damaged_depfile=False):
    v0 = variants[0]
    ops = []
    produced = set(o for v in variants for st in v.stmts for o in st.all_outs())
    for s in sources_of(variants):
        if s not in produced:
            if s.startswith("dd") and s.endswith(".in"):
                ops.append({"op": "touch", "path": s, "label": "touch " + s})   # content must stay a valid dyndep file
            else:
                ops.append({"op": "edit", "path": s, "label": "edit " + s})
    for st in v0.stmts:
        if not st.phony:
            for o in st.all_outs():
                ops.append({"op": "rm", "path": o, "label": "rm " + o})
    for st in v0.stmts:
        if not st.phony and not st.generator and not st.restat:
            # an output whose time stamp is exactly the epoch (unpacked from an archive made reproducibly): it exists
            ops.append({"op": "epoch", "path": st.all_outs()[0], "label": "touch -d @0 " + st.all_outs()[0]})
            break
    for st in v0.stmts:
        if st.deps == "gcc":
            # a depfile left behind by an earlier failed or killed command
            ops.append({"op": "write", "path": st.id + ".d", "content": st.id + ": " + " ".join(st.hidden) + "\n",
                        "label": "leftover depfile " + st.id + ".d"})
    for st in v0.stmts:
        if damaged_depfile and st.depfile and not st.deps:
            # what a compiler that was killed half way left of its depfile: it does not parse, and looking is not touching
            ops.append({"op": "write", "path": st.id + ".d", "content": "cut off before the colo", "label": "damaged depfile " + st.id + ".d"})
            break
    for st in v0.stmts:
        if st.rsp:
            # a response file kept because its command failed in an earlier build
            ops.append({"op": "write", "path": st.rsp[0], "content": st.rsp[1], "label": "response file %s kept by a failed build" % st.rsp[0]})
    for i in range(1, len(variants)):
        ops.append({"op": "variant", "to": i, "label": "manifest:=" + variants[i].name})
    for st in v0.stmts:
        if st.deps and not st.hidden:
            ops.append({"op": "dupdeps", "path": st.id, "content": "1100", "label": "1100 more deps records of %s (long history)" % st.id})
            break
    for st in v0.stmts:
        if getattr(st, "dyn_restat", False):
            for x in st.ex:
                ops.append({"op": "touch", "path": x, "label": "touch " + x})
    build = len(ops)
    ops.append(ninja_op(j=2))
    cmd = [st for st in v0.stmts if not st.phony]
    if len(cmd) >= 2:
        ops.append(ninja_op(targets=[cmd[-1].id], j=1))   # partial build: only the last statement's closure
    return ops, build


def clean_scenarios(tier="quick"):
    T = []
    for name, variants in shapes():
        ops, build = _common_ops(variants)
        v0 = variants[0]
        outs = [o for st in v0.stmts for o in st.all_outs()]
        tools = []
        for dry in (False, True):
            tools.append(tool_op("clean-all", dry=dry, verbose=dry))
            tools.append(tool_op("clean-all-g", dry=dry, verbose=dry))
            tools.append(tool_op("cleandead", dry=dry, verbose=dry))
            for o in outs:
                tools.append(tool_op("clean-targets", [o], dry=dry, verbose=dry))
            rules = sorted(set(v0.rule_name(i) for i, st in enumerate(v0.stmts) if not st.phony)) + ["phony"]
            for r in rules:
                tools.append(tool_op("clean-rules", [r], dry=dry, verbose=dry))
        for a, b in itertools.permutations(outs[:5] if name == "one_scan_two_dyndep" else outs[:4], 2):
            if name != "one_scan_two_dyndep" and a > b:
                continue
            tools.append(tool_op("clean-targets", [a, b]))
        for t in tools:
            t["no_expand"] = True
        files = {"s2": "s2-v0\n"} if name == "generator_phony_alias" else {}
        if name in ("two_dyndep", "one_scan_two_dyndep"):
            files = {"dd1.in": "ninja_dyndep_version = 1\nbuild out1 | out1.imp: dyndep\n",
                     "dd2.in": "ninja_dyndep_version = 1\nbuild out2 | out2.imp: dyndep\n"}
        if name == "shared_dyndep_file_with_a_stale_entry":
            files = {"dd.in": "ninja_dyndep_version = 1\nbuild a.o | a.mod: dyndep\nbuild b.o | b.mod: dyndep\n"}
        if name == "dyndep_claims_phony_name":
            files = {"ddx": "ninja_dyndep_version = 1\nbuild out | hdr.h: dyndep\n", "hdr.h": "hand-written header\n"}
        if name == "dyndep_claims_other_output":
            files = {"ddx": "ninja_dyndep_version = 1\nbuild out | gen: dyndep\n"}
        T.append(scenario("c18/" + name, "c18", variants, files=files, ops=ops + tools, init=[build],
                          depth=3 if tier == "quick" else 4, tags=["clean"] + (["invalid-dyndep"] if name.startswith("dyndep_claims") or name == "shared_dyndep_file_with_a_stale_entry" else [])))
    # cleandead and clean in a project that binds builddir (the logs it consults live there)
    for name, variants in builddir_shapes():
        bv = [variants[0], Variant("v1", [st for st in variants[0].stmts if st.id != "obj2"][:2] + [Stmt("exe", ex=["obj", "r"])], header="builddir = bd")]
        ops, build = _common_ops(bv)
        tools = [tool_op("cleandead"), tool_op("cleandead", dry=True, verbose=True), tool_op("clean-all"), tool_op("clean-targets", ["exe"]),
                 tool_op("clean-rules", ["r0"])]
        for t in tools:
            t["no_expand"] = True
        T.append(scenario("c18/" + name, "c18", bv, ops=ops + tools, init=[build], depth=3 if tier == "quick" else 4, tags=["clean", "builddir"],
                          builddir="bd"))
    # a build log past the recompaction threshold with a stale output that still exists on disk
    v = Variant("v0", [Stmt("a", ex=["s"]), Stmt("b", ex=["a"])])
    log = "# ninja log v7\n"
    for rep in range(4):
        for i in range(40):
            log += "0\t1\t1700000000000000000\tgone%d\tabc%d\n" % (i, i)
        log += "0\t1\t1700000000000000000\tstale\tfeed\n"
    tools = [tool_op("cleandead"), tool_op("cleandead", dry=True, verbose=True), tool_op("clean-all")]
    for t in tools:
        t["no_expand"] = True
    ops = [ninja_op(j=1)] + tools
    T.append(scenario("c18/recompacted_log_stale_output", "c18", [v], files={".ninja_log": log, "stale": "old output\n"}, ops=ops,
                      init=[], depth=2, tags=["clean", "recompaction"]))
    return T


def builddir_shapes():
    """Projects that bind `builddir`: both logs and the lock file live there, for the dry run and the tools as well."""
    return [("builddir_deps", [
        Variant("v0", [Stmt("obj", ex=["src"], hidden=["hdr"], deps="gcc"), Stmt("obj2", ex=["src2"], hidden=["hdr"], deps="msvc"),
                       Stmt("r", ex=["s"], restat=True), Stmt("bd/lib", ex=["obj"]), Stmt("exe", ex=["bd/lib", "obj2", "r"])],
                header="builddir = bd"),
    ])]


def regen_scenario(tier):
    """The manifest is itself an output (generator statement copying build.ninja.in): a dry run with an out-of-date manifest."""
    def regen(name, ver):
        return Variant(name, [Stmt("build.ninja", ex=["build.ninja.in"], generator=True, copy=True),
                              Stmt("a", ex=["s"], ver=ver), Stmt("b", ex=["a"])], defaults=["b"])
    va, vb = regen("m0", 0), regen("m1", 1)
    ops = [{"op": "touch", "path": "build.ninja.in", "label": "touch build.ninja.in"},
           {"op": "write", "path": "build.ninja.in", "content": vb.manifest(), "label": "build.ninja.in:=m1"},
           {"op": "edit", "path": "s", "label": "edit s"}, {"op": "rm", "path": "a", "label": "rm a"},
           ninja_op(j=2)]
    tools = [ninja_op(j=2, flags=["-n"], dry_run=True, label="ninja -j2 -n"),
             ninja_op(targets=["a"], j=1, flags=["-n"], dry_run=True, label="ninja -j1 -n a")]
    t = tool_op("commands", ["-t", "commands"]); t["tool_args"] = []
    tools.append(t)
    for t in tools:
        t["no_expand"] = True
    return scenario("c19/manifest_regen", "c19", [va, vb], files={"build.ninja.in": va.manifest(), "s": "s-v0\n"}, ops=ops + tools,
                    init=[4], depth=4 if tier == "quick" else 5, tags=["readonly", "manifest-regen"])


def regen_prerequisite_scenario(tier):
    """The manifest is up to date itself but has an order-only prerequisite whose command has changed: ninja brings the
    prerequisite up to date in the manifest phase and then scans the graph a second time in the same process (a dry run
    only pretends the first part: what it lists afterwards must still be what the real build runs)."""
    def regen(name, ver):
        return Variant(name, [Stmt("build.ninja", ex=["build.ninja.in"], oo=["x", "y"], generator=True, copy=True),
                              Stmt("x", ex=["sx"], ver=ver), Stmt("y", ver=ver), Stmt("out", ex=["y"]), Stmt("outx", ex=["x"]), Stmt("side", ex=["s"])], defaults=["out", "outx", "side"])
    va, vb = regen("m0", 0), regen("m1", 1)
    # (the generator's input and the manifest are both rewritten by hand, the manifest last: it is not out of date)
    ops = [{"op": "write", "path": "build.ninja.in", "content": vb.manifest(), "label": "build.ninja.in:=m1"},
           {"op": "write", "path": "build.ninja", "content": vb.manifest(), "label": "build.ninja:=m1 (by hand, newer than build.ninja.in)"},
           {"op": "edit", "path": "sx", "label": "edit sx"}, {"op": "rm", "path": "x", "label": "rm x"},
           ninja_op(j=2)]
    tools = [ninja_op(j=2, flags=["-n"], dry_run=True, label="ninja -j2 -n"),
             ninja_op(j=1, flags=["-n", "-v"], dry_run=True, label="ninja -j1 -n -v"),
             ninja_op(targets=["out"], j=1, flags=["-n"], dry_run=True, label="ninja -j1 -n out")]
    for t in tools:
        t["no_expand"] = True
    return scenario("c19/manifest_prerequisite_out_of_date", "c19", [va, vb], files={"build.ninja.in": va.manifest(), "s": "s-v0\n", "sx": "sx-v0\n"},
                    ops=ops + tools, init=[4], depth=4 if tier == "quick" else 5, tags=["readonly", "manifest-regen"])


def readonly_scenarios(tier="quick"):
    T = [regen_scenario(tier), regen_prerequisite_scenario(tier)]
    for name, variants in shapes() + builddir_shapes():
        if name in ("two_dyndep", "one_scan_two_dyndep", "shared_dyndep_file_with_a_stale_entry") or name.startswith("dyndep_claims"):
            continue   # C19 is stated for graphs without pending dyndep files
        variants = variants[:1]
        ops, build = _common_ops(variants, damaged_depfile=True)
        v0 = variants[0]
        outs = [o for st in v0.stmts for o in st.all_outs()]
        tools = []
        tools.append(ninja_op(j=2, flags=["-n"], dry_run=True, label="ninja -j2 -n"))
        tools.append(ninja_op(j=1, flags=["-n", "-v"], dry_run=True, label="ninja -j1 -n -v"))
        for o in outs[:3]:
            tools.append(ninja_op(targets=[o], j=2, flags=["-n"], dry_run=True, label="ninja -j2 -n " + o))
        def ro(args, kind="readonly", targs=()):
            t = tool_op(kind, args)
            t["tool_args"] = list(targs)
            return t
        tools.append(ro(["-t", "commands"], "commands"))
        for o in outs[:3]:
            tools.append(ro(["-t", "commands", o], "commands", [o]))
            tools.append(ro(["-t", "inputs", o]))
            tools.append(ro(["-t", "query", o]))
            tools.append(ro(["-t", "multi-inputs", o]))
            tools.append(ro(["-t", "compdb-targets", o], "compdb"))
        if name.startswith("builddir"):
            # a target may be named relative to $builddir: "lib" is bd/lib -- for the build, the dry run and every tool alike
            tools.append(ninja_op(targets=["lib"], j=2, flags=["-n"], dry_run=True, label="ninja -j2 -n lib"))
            tools[-1]["targets_canonical"] = ["bd/lib"]
            for tname, kind in (("commands", "commands"), ("inputs", "readonly"), ("query", "readonly"), ("compdb-targets", "compdb")):
                tools.append(ro(["-t", tname, "lib"], kind, ["bd/lib"]))
        tools.append(ro(["-t", "targets", "all"]))
        tools.append(ro(["-t", "targets", "depth", "2"]))
        tools.append(ro(["-t", "targets", "rule"]))
        tools.append(ro(["-t", "rules", "-d"]))
        tools.append(ro(["-t", "graph"]))
        tools.append(ro(["-t", "compdb"], "compdb"))
        tools.append(ro(["-t", "deps"]))
        tools.append(ro(["-t", "missingdeps"]))
        # a dry run of the tools that do write: -n is -n
        tools.append(ro(["-n", "-t", "restat"]))
        tools.append(ro(["-n", "-t", "recompact"]))
        for t in tools:
            t["no_expand"] = True
        files = {"s2": "s2-v0\n"} if name == "generator_phony_alias" else {}
        if name == "two_dyndep":
            files = {"dd1.in": "ninja_dyndep_version = 1\nbuild out1 | out1.imp: dyndep\n",
                     "dd2.in": "ninja_dyndep_version = 1\nbuild out2 | out2.imp: dyndep\n"}
        T.append(scenario("c19/" + name, "c19", variants, files=files, ops=ops + tools, init=[],
                          depth=4 if tier == "quick" else 5, tags=["readonly"], builddir="bd" if name.startswith("builddir") else ""))
    # compdb -x (response file content spliced into the command): the response file's name at every small offset of the
    # command line, bare and behind '@', '-f ' and '--option-file='
    stmts = []
    for k, pre in enumerate((["x%d.rsp"], ["p=", "x%d.rsp"], ["p=61", "x%d.rsp"], ["p=6162", "x%d.rsp"], ["p=616263", "x%d.rsp"],
                             ["p=61626364", "x%d.rsp"], ["@x%d.rsp"], ["-f", "x%d.rsp"], ["--option-file=x%d.rsp"], ["p=61", "-f", "x%d.rsp"])):
        st = Stmt("lib%d" % k, ex=["a.o", "b.o"], rsp=("x%d.rsp" % k, "$in_newline"))
        st.cmd_prefix = [w % k if "%d" in w else w for w in pre]
        stmts.append(st)
    xv = Variant("v0", stmts)
    xops = []
    for args in (["-t", "compdb", "-x"], ["-t", "compdb"], ["-t", "compdb-targets", "-x", "lib4"], ["-t", "compdb-targets", "-x", "lib0", "lib9"]):
        t = tool_op("compdb", args)
        t["tool_kind"] = "compdb"
        t["no_expand"] = True
        xops.append(t)
    T.append(scenario("c19/compdb_rspfile_offsets", "c19", [xv], ops=xops, init=[], depth=1, tags=["compdb"]))
    # compdb with every byte a manifest can carry in a command / description / path
    stmts = []
    for b in range(1, 256):
        if b in (10, 13):
            continue
        ch = chr(b)
        esc = "$$" if ch == "$" else ch
        st = Stmt("o%d" % b, ex=["s"], desc="d" + esc + "x")
        st.weird = esc
        stmts.append(st)
    class WV(Variant):
        def manifest(self):
            text = Variant.manifest(self)
            # append the weird byte to every command line (ignored by the simulator's parser: unknown key)
            out = []
            i = 0
            for line in text.split("\n"):
                if line.startswith("  command = "):
                    line += " w=" + self.stmts[i].weird
                    i += 1
                out.append(line)
            return "\n".join(out)
    wv = WV("bytes", stmts)
    T.append(scenario("c19/compdb_bytes", "c19", [wv], ops=[tool_op("compdb", ["-t", "compdb"])], init=[], depth=1,
                      tags=["compdb"]))
    T[-1]["ops"][0]["tool_kind"] = "compdb"
    # ... and in a working directory whose own name needs escaping (the "directory" member of every entry): the harness answers
    # getcwd() for the invocation (VERIF_CWD)
    cv = Variant("v0", [Stmt("a.o", ex=["a.c"]), Stmt("lib", ex=["a.o"], rsp=("lib.rsp", "a.o")), Stmt("exe", ex=["lib"])])
    cops = []
    for cwd in ('/w/qu"ote', "/w/back\\slash", "/w/tab\there", "/w/bell\x07x", "/w/new\nline", "/w/caf\xc3\xa9"):
        cwd = cwd.encode("latin-1").decode("unicode_escape")
        for args in (["-t", "compdb"], ["-t", "compdb", "-x"], ["-t", "compdb-targets", "exe"], ["-t", "compdb-targets", "-x", "lib", "a.o"]):
            t = tool_op("compdb", args)
            t["tool_kind"] = "compdb"
            t["no_expand"] = True
            t["env"] = {"VERIF_CWD": cwd}
            t["label"] += " (in %r)" % cwd
            cops.append(t)
    T.append(scenario("c19/compdb_working_directory", "c19", [cv], ops=cops, init=[], depth=1, tags=["compdb"]))
    return T
