"""Common body of the engine-A checks that share the C01 exploration core (C01-C06)."""
import json
import os
import sys
import time

import family
import nxcheck
import templates
from vcheck import Check

ASSUMPTIONS = [
    "commands are the simulated tools of src/nx/simproc.cc: deterministic functions of the files they read at start, "
    "writing only declared outputs/depfile, reporting hidden reads through depfile / showIncludes text",
    "logical clock: every mutation gets a strictly larger timestamp (equal mtimes are outside the properties' premises)",
    "ninja's front end, Builder, Plan, Pool, RealCommandRunner, RealDiskInterface, BuildLog, DepsLog are the real code; "
    "SubprocessSet and libc file calls are the harness (src/nx/simproc.cc, src/common/simfs.cc)",
    "bounded: graphs, histories and schedules as listed under coverage.families",
]


def families(tier, want_g3=True, fault_codes=False):
    """[(name, scenario list, depth, devbound)]"""
    fams = []
    T = templates.templates(tier)
    fams.append(("templates", T, None, None))
    import family_features
    import scen
    X = list(family_features.family(tier))
    fams.append(("X(A;link;B;C) feature interactions", X, None, None))
    # seam S8: the dyndep / pool / validation shapes once more with Edge and Node objects at descending addresses
    D = scen.descending_copies(T) + scen.descending_copies(X, tags_any=("link-dyndep",))
    fams.append(("descending heap order (S8)", D, None, None))
    if tier == "quick":
        fams.append(("G(2;2;plain+restat+depfile+gcc)", list(family.family(2, 2, ["plain", "restat", "depfile", "gcc"], tier_depth=3)), None, None))
    else:
        fams.append(("G(2;2;plain+restat+depfile+gcc)", list(family.family(2, 2, ["plain", "restat", "depfile", "gcc"], tier_depth=4)), None, None))
        fams.append(("G(2;3;all kinds)", list(family.family(2, 3, ["plain", "restat", "depfile", "gcc", "msvc", "generator", "pool1", "console"], tier_depth=3)), None, None))
        if want_g3:
            fams.append(("G(3;2;<=1 non-plain)", list(family.family(3, 2, ["plain", "restat", "depfile", "gcc"], at_most_nonplain=1, tier_depth=3, chain_only=False)), None, None))
    return fams


def run_check(prop, argv, props, rule, level="model_checking", quick_budget=240, thorough_budget=2400, fam_fn=families,
              extra_assumptions=(), process_level=None):
    """process_level: optional callable(check) -> dict merged into coverage (engine-B part of the check)."""
    c = Check(prop, level, argv)
    if c.replay:
        rj = json.load(open(c.replay))
        if rj.get("engine") == "rb":
            import rbchecks
            sys.exit(rbchecks.replay(rj))
        nxcheck.replay(c, props)
    budget = quick_budget if c.tier == "quick" else thorough_budget
    c.set_budget(budget)
    total = None
    fam_info = []
    exhaustive = True
    only = c.opts.get("only")   # development aid: --only=<substring of a scenario name>; the run is not exhaustive then
    for name, scs, depth, devbound in fam_fn(c.tier):
        # a scenario may be meant for some properties only (tag "only:C01,C02"): under the others' oracles it shows nothing
        # but a known finding in another guise
        scs = [x for x in scs if not any(t.startswith("only:") and prop not in t[5:].split(",") for t in x.get("tags", []))]
        if only:
            scs = [x for x in scs if only in x["name"]]
            exhaustive = False
            if not scs:
                continue
        left = c.time_left()
        if left < 5:
            fam_info.append({"family": name, "scenarios": len(scs), "skipped": "global deadline reached"})
            exhaustive = False
            continue
        t0 = time.time()
        agg = nxcheck.run(c, scs, props, depth=depth, devbound=devbound, seconds=left, tag=name[:3].strip("("))
        fam_info.append({"family": name, "scenarios": len(scs), "states": agg["states"], "transitions": agg["transitions"],
                         "schedules": agg["schedules"], "invocations": agg["invocations"],
                         "history_depth": depth if depth is not None else (scs[0]["depth"] if scs else 0),
                         "incomplete_scenarios": agg["incomplete_scenarios"],
                         "incomplete_scenario_names": sorted(set(agg.get("incomplete_scenario_names", [])))[:20],
                         "wall_s": round(time.time() - t0, 1)})
        if agg["incomplete_scenarios"]:
            exhaustive = False
        total = agg if total is None else nxcheck.merge(total, agg)
    cov = nxcheck.coverage(total, rule, fam_info)
    # Trace conformance against the unmodified executable (engine B)
    conf = {"traces": 0, "invocations": 0, "disagreements": []}
    if os.environ.get("VERIF_NO_RB") != "1" and c.time_left() > 20:
        import conformance
        scs = []
        for name, fam, depth, devbound in fam_fn(c.tier):
            for sc in fam:
                if sc.get("family", "").startswith(("G(", "cycles(")) or "manifest-regen" in sc.get("tags", []):
                    continue
                scs.append(sc)
        if c.tier == "quick":
            scs = scs[:40]
        conf = conformance.run(scs, per_scenario=2 if c.tier == "quick" else 10)
        for d in conf["disagreements"][:5]:
            sys.stderr.write("CONFORMANCE DISAGREEMENT (harness vs real binary, not a property verdict): %s\n" % json.dumps(d)[:500])
    cov["traces_validated_against_impl"] = conf["traces"]
    cov["real_binary_invocations_compared"] = conf["invocations"]
    cov["conformance_disagreements"] = conf["disagreements"][:10]
    cov["explanation"] = ("states/transitions/schedules are executions of the real ninja main loop in process (engine A); "
                          "traces_validated_against_impl counts the histories that were additionally replayed on the unmodified "
                          "ninja executable with gated helper commands (engine B) and compared: exit status, started commands, "
                          "'no work to do', all file contents")
    if process_level is not None and os.environ.get("VERIF_NO_RB") != "1":
        cov.update(process_level(c))
    c.finish(cov, assumptions=ASSUMPTIONS + list(extra_assumptions), exhaustive=exhaustive)
