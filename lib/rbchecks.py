"""Engine B process-level checks: real signals (C07) and the real FIFO jobserver (C06)."""
import errno
import json
import multiprocessing
import os
import shutil
import signal
import subprocess
import tempfile
import time

import nxcheck
import rb
import templates_c07
from scen import Stmt, Variant, scenario, ninja_op


# ---------------------------------------------------------------------------------------------
# C07: SIGINT / SIGTERM / SIGHUP to ninja, and SIGKILL of ninja, at every gate point
# ---------------------------------------------------------------------------------------------

def _signal_case(args):
    sc, wait_index, signame, partial, ninja, vcmd, nx = args[:7]
    # "process": the signal goes to the ninja process alone (kill <pid>); "group": to its process group, which is what a
    # terminal does on Ctrl-C / hang-up -- console-pool commands live in that group, all others in groups of their own
    delivery = args[7] if len(args) > 7 else "process"
    sig = getattr(signal, signame)
    ops = sc["ops"]
    build = next(i for i, o in enumerate(ops) if o["op"] == "ninja" and not o.get("faults") and not o.get("crash")
                 and not o.get("interrupt"))
    r = rb.Real(sc, ninja, vcmd, compound=True)
    out = {"scenario": sc["name"], "signal": signame, "wait": wait_index, "partial": partial, "problems": [], "reached": False,
           "delivery": delivery, "facts": {}}
    try:
        r.setup()
        for i in sc.get("init", []):
            if ops[i]["op"] == "ninja":
                r.run_ninja(ops[i], [])
            else:
                r.apply_simple(ops[i])
        if sc.get("init"):
            # make the incremental build have work to do
            for o in ops:
                if o["op"] == "edit":
                    r.apply_simple(o)
        op = dict(ops[build])
        if partial:
            # the first running command at the signal point has already overwritten its outputs
            op = dict(op)
        before = r.snapshot()
        o = r.run_ninja_signal(op, wait_index, sig, partial, delivery)
        if not o.get("signalled"):
            return out      # the build finished before this wait index
        out["reached"] = True
        if o.get("console_commands_not_stopped"):
            out["facts"]["only_console_commands_kept_running_after_a_signal_to_the_ninja_process_alone"] = True
            out["problems"].append("console-pool command(s) %s were not stopped by %s sent to the ninja process alone: ninja "
                                   "waited for them to end by themselves" % (o["console_commands_not_stopped"], signame))
        if signame == "SIGKILL":
            # the whole tree is killed: nothing to check about ninja's own cleanup
            r.kill_strays()
        else:
            if o.get("no_exit"):
                out["problems"].append("ninja did not exit within 5 s of %s" % signame)
            elif o["exit"] != 130:
                out["problems"].append("exit status %s instead of 130 after %s" % (o["exit"], signame))
            if os.path.exists(r.path(".ninja_lock")):
                out["problems"].append(".ninja_lock left behind after %s" % signame)
            time.sleep(0.05)
            stray = r.stray()
            if stray:
                out["problems"].append("%d command process(es) still alive after ninja exited on %s" % (len(stray), signame))
                r.kill_strays()
            for ident in o.get("partial_ids", []):
                st = next(s for s in sc["variants"][0]["stmts"] if s["outs"][0] == ident)
                for outp in st["outs"]:
                    if os.path.exists(r.path(outp)):
                        out["problems"].append("partially written output '%s' of an interrupted command was not removed" % outp)
        # recovery: the next build starts normally and ends in the clean-build state
        rec = r.run_ninja(ops[build], [])
        if rec["exit"] != 0:
            out["problems"].append("the build after %s exits %s: %s" % (signame, rec["exit"], rec["out"][-300:]))
        else:
            # clean-build reference from engine A on the same sources
            srcs = dict(sc["files"])
            ref_sc = dict(sc)
            ref_files = {}
            for k in srcs:
                p = r.path(k)
                if os.path.isfile(p):
                    ref_files[k] = open(p, "rb").read().decode("latin-1")
            ref_sc = dict(sc, files=ref_files, init=[])
            ref = rb.nx_replay(ref_sc, [{"op": build, "choices": []}], nx)
            want = ref[-1]["files"]
            got = rec["files"]
            for k in sorted(want):
                if k.endswith(".d"):
                    continue
                if got.get(k) != want[k]:
                    out["problems"].append("after the recovery build '%s' differs from a clean build" % k)
                    break
            again = r.run_ninja(ops[build], [])
            if not again["no_work"]:
                out["problems"].append("the build after the recovery build still has work to do")
    except Exception as e:  # noqa
        out["problems"].append("exception: %r" % (e,))
    finally:
        r.kill_strays()
        r.close()
    return out


def _run_ninja_signal(self, op, wait_index, sig, partial, delivery="process"):
    """Like run_ninja with the default schedule, but at wait `wait_index` the signal is sent.
    partial: the oldest running command first overwrites its outputs (then blocks again)."""
    for n in os.listdir(self.ctl):
        os.unlink(os.path.join(self.ctl, n))
    import subprocess
    env = {"PATH": os.environ.get("PATH", "/usr/bin:/bin"), "TERM": "dumb", "VCMD_CTL": self.ctl, "HOME": self.root}
    args = [self.ninja] + op["flags"] + op["targets"]
    self.fence()
    proc = subprocess.Popen(args, cwd=self.work, env=env, stdout=subprocess.PIPE, stderr=subprocess.STDOUT,
                            start_new_session=True)
    released = []
    obs = {"signalled": False, "partial_ids": []}
    wi = 0
    deadline = time.time() + 20
    while True:
        stable = time.time()
        last = None
        while proc.poll() is None:
            st = self.started_files()
            pending = [i for i in released if not os.path.exists(os.path.join(self.ctl, "done." + i))]
            cur = (tuple(st), tuple(pending))
            if cur != last or pending:
                last, stable = cur, time.time()
            elif time.time() - stable > 0.04:
                break
            if time.time() > deadline:
                proc.kill()
                break
            time.sleep(0.002)
        if proc.poll() is not None:
            break
        running = [i for i in self.started_files() if i not in released]
        if not running:
            proc.kill()
            break
        if wi == wait_index:
            if partial:
                ident = running[0]
                with open(os.path.join(self.ctl, "go." + ident), "w") as g:
                    g.write("partial")
                t0 = time.time()
                while not os.path.exists(os.path.join(self.ctl, "partial." + ident)) and time.time() - t0 < 5:
                    time.sleep(0.001)
                obs["partial_ids"].append(self.unsanitize(ident))
                self.fence()
            if delivery == "group":
                os.killpg(proc.pid, sig)      # start_new_session: ninja leads its own group
            else:
                os.kill(proc.pid, sig)
            obs["signalled"] = True
            try:
                proc.wait(timeout=2 if delivery == "process" else 5)
            except subprocess.TimeoutExpired:
                console = {sanitize_id(st["outs"][0]) for st in self.sc["variants"][self.variant]["stmts"]
                           if st.get("pool") == "console"}
                alive = [i for i in self.started_files() if i not in released and i in console]
                if delivery == "process" and alive:
                    # ninja leaves console commands to the terminal; nobody signalled them here: let them end by themselves
                    obs["console_commands_not_stopped"] = [self.unsanitize(i) for i in alive]
                    for i in alive:
                        for gate in ("go.", "go2."):
                            with open(os.path.join(self.ctl, gate + i), "w") as g:
                                g.write("ok")
                try:
                    proc.wait(timeout=5)
                except subprocess.TimeoutExpired:
                    obs["no_exit"] = True
                    proc.kill()
            break
        ident = running[0]
        self.fence()
        with open(os.path.join(self.ctl, "go." + ident), "w") as g:
            g.write("ok")
        released.append(ident)
        t0 = time.time()
        while not os.path.exists(os.path.join(self.ctl, "done." + ident)) and time.time() - t0 < 5:
            time.sleep(0.001)
        self.fence()
        wi += 1
    out = self.drain(proc, obs)
    obs["exit"] = proc.returncode if proc.returncode is None or proc.returncode >= 0 else 128 - proc.returncode
    obs["out"] = out
    return obs


sanitize_id = rb.sanitize
rb.Real.run_ninja_signal = _run_ninja_signal


def signals(tier="quick"):
    ninja, vcmd = rb.build_tools()
    nx = nxcheck.nx_exe()
    scs = [s for s in templates_c07.templates(tier) if "recompaction" not in s["tags"]]
    if tier == "quick":
        scs = [s for s in scs if s["name"].split("/")[1] in ("chain_plain", "deps_gcc", "parallel", "depfile")]
    work = []
    for sc in scs:
        for wi in range(0, 3):
            for signame in ("SIGINT", "SIGTERM", "SIGHUP", "SIGKILL"):
                for partial in (False, True):
                    if tier == "quick" and signame in ("SIGHUP",) and partial:
                        continue
                    if signame == "SIGKILL" and partial:
                        continue    # C07 assumes commands replace their outputs atomically when the whole tree is SIGKILLed
                    work.append((sc, wi, signame, partial, ninja, vcmd, nx, "process"))
                    if signame != "SIGKILL" and any(st.get("pool") == "console" for st in sc["variants"][0]["stmts"]):
                        work.append((sc, wi, signame, partial, ninja, vcmd, nx, "group"))
    with multiprocessing.Pool(16) as pool:
        res = pool.map(_signal_case, work, chunksize=1)
    reached = [r for r in res if r["reached"]]
    return {"cases": len(res), "reached": len(reached), "problems": [r for r in reached if r["problems"]],
            "sample": [{k: r[k] for k in ("scenario", "signal", "wait", "partial")} for r in reached[:3]]}


# ---------------------------------------------------------------------------------------------
# C06: the real FIFO jobserver
# ---------------------------------------------------------------------------------------------

def _jobserver_case(args):
    """One case; a run that hit the orchestrator's own time limit says nothing about ninja: it is repeated with a
    six times longer limit, and only a second time-out is reported (as what it is)."""
    out = _jobserver_case_once(args, 20.0)
    if out.get("timed_out"):
        out = _jobserver_case_once(args, 120.0)
        out["repeated_after_a_timeout"] = True
    return out


def _jobserver_case_once(args, limit):
    sc, tokens, opi, choices, sig_at, ninja, vcmd = args[:7]
    explicit_j = args[7] if len(args) > 7 else None   # -jN given together with the inherited jobserver: -j wins
    r = rb.Real(sc, ninja, vcmd)
    out = {"scenario": sc["name"], "scenario_json": sc, "opi": opi, "tokens": tokens, "op": sc["ops"][opi]["label"],
           "choices": choices, "signal_at": sig_at, "problems": []}
    fifo = os.path.join(r.root, "jobserver.fifo")
    try:
        os.mkfifo(fifo)
        fd = os.open(fifo, os.O_RDWR | os.O_NONBLOCK)
        os.write(fd, b"+" * tokens)
        r.setup()
        op = dict(sc["ops"][opi])
        op["flags"] = [f for f in op["flags"] if not f.startswith("-j")] + (["-j%d" % explicit_j] if explicit_j else [])
        out["explicit_j"] = explicit_j
        env = {"MAKEFLAGS": " --jobserver-auth=fifo:" + fifo}
        max_running = [0]
        orig = r.started_files

        o = r.run_ninja(op, choices, signal_at=sig_at, env_extra=env, timeout=limit)
        time.sleep(0.02)
        if o.get("timeout"):
            out["timed_out"] = True
        left = 0
        try:
            while True:
                b = os.read(fd, 64)
                if not b:
                    break
                left += len(b)
        except OSError as e:
            if e.errno not in (errno.EAGAIN, errno.EWOULDBLOCK):
                raise
        os.close(fd)
        out["exit"] = o["exit"]
        if o.get("no_exit_after_signal"):
            # it had to be SIGKILLed by the orchestrator: what it held is lost by our doing, not counted
            out["problems"].append("ninja did not exit within 5 s of the signal although every command had ended")
        elif o.get("timeout"):
            out["problems"].append("ninja had not finished after %d s and was killed by the orchestrator" % int(limit))
        elif left != tokens and not o.get("hang"):
            out["problems"].append("%d jobserver token(s) in the FIFO after ninja exited (exit %s), %d before" % (left, o["exit"], tokens))
        if o.get("hang"):
            out["problems"].append("ninja waits forever although tokens are available")
        out["max_running"] = o.get("max_running", 0)
        # C05 under a jobserver: with an unlimited failure budget every statement that does not depend on a failed one is
        # still started (a failed command's slot goes back to the pool like any other)
        # (a child that dies of the interrupt signal is an interruption of the build by ninja's convention: exit 130, nothing more starts)
        if op.get("faults") and op.get("k") == 0 and sig_at is None and not o.get("hang") and not o.get("timeout") \
                and not any(f.get("signal") for f in op["faults"].values()) and o.get("exit") != 130:
            v0 = sc["variants"][0]
            failing = set(op["faults"])
            producer = {}
            for st in v0["stmts"]:
                for oo in st["outs"]:
                    producer[oo] = st
            def tainted(st, seen=()):
                if st["outs"][0] in failing:
                    return True
                for i in st["ex"] + st["im"] + st["oo"]:
                    p = producer.get(i)
                    if p is not None and p["outs"][0] not in seen and tainted(p, seen + (st["outs"][0],)):
                        return True
                return False
            for st in v0["stmts"]:
                if st.get("phony") or tainted(st):
                    continue
                if st["outs"][0] not in o.get("started", []):
                    out["problems"].append("independent: '%s' does not depend on a failed command and the failure budget is unlimited "
                                           "(-k0), but under the jobserver (%d tokens) it was never started" % (st["outs"][0], tokens))
                    break
        if explicit_j:
            if o.get("max_running", 0) > explicit_j:
                out["problems"].append("%d commands running with an explicit -j%d (jobserver with %d tokens inherited)" % (
                    o["max_running"], explicit_j, tokens))
        elif o.get("max_running", 0) > tokens + 1:
            out["problems"].append("%d commands running with %d tokens (+1 implicit)" % (o["max_running"], tokens))
    except Exception as e:  # noqa
        out["problems"].append("exception: %r" % (e,))
    finally:
        r.kill_strays()
        r.close()
    return out


# ---- jobserver x (manifest regeneration, a command whose completion cannot be processed) -------------------
# Plain shell commands with generous sleeps: every command appends "S <name>" / "E <name>" with a timestamp to a log,
# the orchestrator samples the FIFO (read everything, write it back) every 50 ms.  Three clauses:
#   running commands <= tokens ninja holds (+1 implicit) at every sample and over the whole log,
#   all tokens back after exit, on every path.
JS_EXTRA = {
    # the commands that bring the manifest up to date obey the jobserver like any others
    "jobserver/manifest_regen": ("""rule slow
  command = echo S $out $$(date +%s.%N) >> log; sleep 0.4; echo E $out $$(date +%s.%N) >> log; touch $out
rule regen
  command = touch build.ninja
  generator = 1
build g1: slow
build g2: slow
build g3: slow
build build.ninja: regen g1 g2 g3
build x: slow
default x
""", 0, []),
    # a restat command succeeds but its output cannot be stat'ed afterwards (symlink loop): FinishCommand fails
    "jobserver/finish_fails_token": ("""rule slow
  command = echo S $out $$(date +%s.%N) >> log; sleep 0.8; echo E $out $$(date +%s.%N) >> log; touch $out
rule loop
  command = sleep 0.2; ln -sf $out $out
  restat = 1
build a: slow
build b: loop
build all: phony a b
default all
""", 1, []),
    # a rule with an unknown `deps` type is only noticed when its first command completes, while others still run
    "jobserver/unknown_deps_type": ("""rule slow
  command = echo S $out $$(date +%s.%N) >> log; sleep 0.8; echo E $out $$(date +%s.%N) >> log; touch $out
rule odd
  command = sleep 0.2; touch $out
  deps = bogus
build b: odd
build a1: slow
build a2: slow
build all: phony a1 a2 b
default all
""", 2, []),
    # ... and with the failing command on the implicit slot: the other command keeps its token while it still runs
    "jobserver/finish_fails_running": ("""rule slow
  command = echo S $out $$(date +%s.%N) >> log; sleep 0.8; echo E $out $$(date +%s.%N) >> log; touch $out
rule loop
  command = sleep 0.2; ln -sf $out $out
  restat = 1
build b: loop
build a1: slow
build a2: slow
build all: phony a1 a2 b
default all
""", 2, []),
    # a command that cannot be spawned (its command line is longer than the kernel's limit for one argument: E2BIG) while
    # others run: the build must fail like any start failure -- tokens back, the running commands waited for (w5_C06_1)
    "jobserver/spawn_fails": ("""big = %s
rule slow
  command = echo S $out $$(date +%%s.%%N) >> log; sleep 0.8; echo E $out $$(date +%%s.%%N) >> log; touch $out
rule huge
  command = true $big; touch $out
build a1: slow
build a2: slow
build zz: huge
build all: phony a1 a2 zz
default all
""" % ("x" * 200000), 2, []),
    # a reference cycle among a rule's variables is noticed when the command line is first needed -- while others run
    "jobserver/rule_variable_cycle": ("""rule slow
  command = echo S $out $$(date +%s.%N) >> log; sleep 0.8; echo E $out $$(date +%s.%N) >> log; touch $out
rule odd
  command = touch $out $description
  description = making $out with $command
build a1: slow
build a2: slow
build zz: odd a1
build all: phony a1 a2 zz
default all
""", 2, []),
    # ... or for which no pipe can be made: ninja is out of file descriptors (a low `ulimit -n`, many job slots)
    "jobserver/pipe_fails": ("""rule slow
  command = echo S $out $$(date +%s.%N) >> log; sleep 0.8; echo E $out $$(date +%s.%N) >> log; touch $out
""" + "".join("build s%d: slow\n" % i for i in range(12)) + "build all: phony " + " ".join("s%d" % i for i in range(12)) + "\ndefault all\n",
                             11, [], 16),
}


def _js_extra_case(args):
    name, ninja = args
    manifest, tokens, nargs = JS_EXTRA[name][:3]
    nofile = JS_EXTRA[name][3] if len(JS_EXTRA[name]) > 3 else None   # RLIMIT_NOFILE of the ninja process
    root = tempfile.mkdtemp(prefix="rbjs.", dir=rb.SHM)
    out = {"scenario": name, "scenario_json": {"name": name, "js_extra": True}, "opi": 0, "tokens": tokens, "op": "ninja " + " ".join(nargs),
           "choices": [], "signal_at": None, "problems": []}
    try:
        wd = os.path.join(root, "w")
        os.mkdir(wd)
        with open(os.path.join(wd, "build.ninja"), "w") as f:
            f.write(manifest)
        past = time.time() - 100
        os.utime(os.path.join(wd, "build.ninja"), (past, past))
        fifo = os.path.join(root, "js.fifo")
        os.mkfifo(fifo)
        fd = os.open(fifo, os.O_RDWR | os.O_NONBLOCK)
        os.write(fd, b"+" * tokens)
        env = dict(os.environ, MAKEFLAGS=" -j%d --jobserver-auth=fifo:%s" % (tokens + 1, fifo))
        # (to a file: nobody reads a pipe while ninja runs, and one error message here is 200 kB long)
        def limit():
            if nofile:
                import resource
                resource.setrlimit(resource.RLIMIT_NOFILE, (nofile, nofile))
        p = subprocess.Popen([ninja] + nargs, cwd=wd, env=env, stdout=open(os.path.join(root, "ninja.out"), "wb"),
                             stderr=subprocess.STDOUT, preexec_fn=limit)

        def count():
            try:
                b = os.read(fd, 4096)
            except BlockingIOError:
                b = b""
            if b:
                os.write(fd, b)
            return len(b)

        def running_now():
            try:
                lines = open(os.path.join(wd, "log")).read().split("\n")
            except OSError:
                return 0
            run = set()
            for l in lines:
                w = l.split()
                if len(w) >= 2:
                    (run.add if w[0] == "S" else run.discard)(w[1])
            return len(run)
        t_end = time.time() + 30
        worst = None
        while p.poll() is None and time.time() < t_end:
            time.sleep(0.05)
            r1 = running_now()
            free = count()
            r2 = running_now()
            held = tokens - free
            # a command seen running both before and after the sample was running during it
            if min(r1, r2) > held + 1 and worst is None:
                worst = "%d commands running while ninja held %d of %d tokens (+1 implicit)" % (min(r1, r2), held, tokens)
        if p.poll() is None:
            p.kill()
            out["problems"].append("ninja did not finish within 30 s")
        p.wait()
        out["exit"] = p.returncode
        still = running_now()
        if still and p.returncode >= 0:
            out["problems"].append("ninja exited (status %d) while %d command(s) it had started were still running" % (p.returncode, still))
            time.sleep(1.2)   # let them end before the tokens are counted and the directory goes away
        if worst:
            out["problems"].append(worst)
        # over the whole log: maximal overlap
        ev = []
        try:
            for l in open(os.path.join(wd, "log")).read().split("\n"):
                w = l.split()
                if len(w) >= 3:
                    ev.append((float(w[2]), 1 if w[0] == "S" else -1))
        except OSError:
            pass
        ev.sort()
        cur = mx = 0
        for _, dlt in ev:
            cur += dlt
            mx = max(mx, cur)
        out["max_running"] = mx
        if mx > tokens + 1:
            out["problems"].append("%d logged commands ran at the same time with %d tokens (+1 implicit)" % (mx, tokens))
        left = count()
        if left != tokens:
            out["problems"].append("%d jobserver token(s) in the FIFO after ninja exited (exit %s), %d before" % (left, p.returncode, tokens))
        os.close(fd)
    except Exception as e:  # noqa
        out["problems"].append("exception: %r" % (e,))
    finally:
        shutil.rmtree(root, ignore_errors=True)
    return out


def jobserver(tier="quick"):
    ninja, vcmd = rb.build_tools()
    v = Variant("v0", [Stmt("i1", ex=["s"]), Stmt("i2", ex=["s"]), Stmt("i3", ex=["t"]), Stmt("i4", ex=["t"]),
                       Stmt("link", ex=["i1", "i2", "i3", "i4"])])
    ops = [ninja_op(j=9, k=1), ninja_op(j=9, k=0)]
    for fl in ({"i1": {"code": 1}}, {"i2": {"code": 2, "touch": True}}, {"i1": {"code": 1}, "i3": {"code": 3}}, {"link": {"code": 1}},
               {"i1": {"signal": True, "touch": True}}):
        ops.append(ninja_op(j=9, k=1, faults=fl))
        ops.append(ninja_op(j=9, k=0, faults=fl))
    sc = scenario("jobserver/indep4", "rb", [v], ops=ops, init=[], depth=1)
    pv = Variant("v0", [Stmt("p1", ex=["s"], pool="one"), Stmt("p2", ex=["s"], pool="one"), Stmt("q", ex=["p1", "p2"]),
                        Stmt("r", ex=["t"])], pools={"one": 1})
    sc2 = scenario("jobserver/pool", "rb", [pv], ops=[ninja_op(j=9), ninja_op(j=9, faults={"p1": {"code": 1}}, k=0)], init=[], depth=1)
    # a command that cannot even be started: its response file lives in a directory that does not exist
    rv = Variant("v0", [Stmt("a", ex=["s"]), Stmt("lib", ex=["s"], rsp=("nodir/lib.rsp", "x")), Stmt("b", ex=["t"])])
    sc3 = scenario("jobserver/start_fails", "rb", [rv], ops=[ninja_op(j=9), ninja_op(j=9, k=0)], init=[], depth=1)
    work = []
    for s in (sc, sc2, sc3):
        for tokens in (1, 2, 3):
            for opi in range(len(s["ops"])):
                for choices in ([], [-2] * 8):
                    work.append((s, tokens, opi, choices, None, ninja, vcmd))
                for sig_at in (0, 1, 2):
                    work.append((s, tokens, opi, [], sig_at, ninja, vcmd))
    if tier == "quick":
        work = work[::2] + [w for w in work[1::2] if w[0]["name"] == "jobserver/start_fails"]
    # an explicit -j on the command line overrides the inherited jobserver
    for tokens in (2, 3):
        for j in (1, 2):
            for choices in ([], [-2] * 8):
                work.append((sc, tokens, 0, choices, None, ninja, vcmd, j))
    with multiprocessing.Pool(16) as pool:
        res = pool.map(_jobserver_case, work, chunksize=1)
        res += pool.map(_js_extra_case, [(n, ninja) for n in sorted(JS_EXTRA)], chunksize=1)
    return {"cases": len(res), "problems": [r for r in res if r["problems"]],
            "max_running_seen": max([r.get("max_running", 0) for r in res] + [0]),
            "sample": [{k: r[k] for k in ("scenario", "tokens", "op", "choices", "signal_at")} for r in res[:3]]}


# ---------------------------------------------------------------------------------------------
# C05: how a command ends, through the real fork/exec/waitpid path (subprocess-posix.cc)
# ---------------------------------------------------------------------------------------------

FATAL_SIGNALS = {"SIGKILL": 9, "SIGSEGV": 11, "SIGABRT": 6, "SIGBUS": 7, "SIGFPE": 8, "SIGPIPE": 13, "SIGQUIT": 3,
                 "SIGUSR1": 10, "SIGALRM": 14, "SIGILL": 4}


def _ending_case(args):
    sc, opi, compound, ninja, vcmd = args
    ops = sc["ops"]
    op = ops[opi]
    plain = next(i for i, o in enumerate(ops) if o["op"] == "ninja" and not o.get("faults"))
    out = {"scenario": sc["name"], "scenario_json": sc, "opi": opi, "op": op["label"], "compound": compound, "problems": []}
    r = rb.Real(sc, ninja, vcmd, compound=compound)
    try:
        r.setup()
        failing = sorted(op["faults"])
        o1 = r.run_ninja(op, [-2] * 8)
        by_out = {st["outs"][0]: st for st in sc["variants"][0]["stmts"]}
        down = set()
        changed = True
        while changed:
            changed = False
            for st in sc["variants"][0]["stmts"]:
                ins = st.get("ex", []) + st.get("im", []) + st.get("oo", [])
                if st["outs"][0] not in down and any(i in failing or i in down for i in ins):
                    down.add(st["outs"][0]); changed = True
        if o1.get("timeout") or o1.get("hang"):
            out["problems"].append("ninja did not finish (timeout/hang)")
        if o1["exit"] == 0:
            out["problems"].append("ninja exited 0 although %s was terminated abnormally" % ",".join(failing))
        for f in failing:
            if f in o1["started"] and ("FAILED: " not in o1["out"]):
                out["problems"].append("the failure of %s is not reported (no FAILED: line)" % f)
        # "a non-zero status taken from a failed command", shown with the FAILED line: what the command ended with -- its
        # exit code, or 128 + the number of the signal that terminated it (what a shell reports, and what ninja makes of a
        # child that died itself).  Death by the interrupt signals is an interruption (exit 130 / no FAILED block).
        if len(failing) == 1 and failing[0] in o1["started"] and not o1.get("timeout") and not o1.get("hang"):
            fl = op["faults"][failing[0]]
            want = 128 + fl["dies"] if fl.get("dies") else fl.get("code", 1)
            if not (fl.get("dies") in (2, 15, 1)) and want != 130:
                if o1["exit"] != want:
                    out["problems"].append("%s ended with status %d and ninja exited %s" % (failing[0], want, o1["exit"]))
                if "FAILED: [code=%d]" % want not in o1["out"]:
                    import re as _re
                    shown = _re.findall(r"FAILED: \[code=(\d+)\]", o1["out"])
                    out["problems"].append("%s ended with status %d and the FAILED line says %s" % (failing[0], want, shown or "nothing"))
        for d in sorted(down):
            if d in o1["started"]:
                out["problems"].append("%s started although its input's producer had failed" % d)
        if op["k"] == 0:
            for st in sc["variants"][0]["stmts"]:
                n = st["outs"][0]
                if n not in down and n not in failing and n not in o1["started"]:
                    out["problems"].append("-k0: independent statement %s was not started" % n)
        o2 = r.run_ninja(ops[plain], [-2] * 8)
        for f in failing:
            if f in o1["started"] and f not in o2["started"]:
                out["problems"].append("the next build did not retry %s (recorded as success?)" % f)
        if o2["exit"] != 0:
            out["problems"].append("the fault-free build that follows exits %s" % o2["exit"])
        o3 = r.run_ninja(ops[plain], [])
        if not o3["no_work"]:
            out["problems"].append("the build after the repair is not a no-op: started %s" % o3["started"])
        out["exit"] = o1["exit"]
        out["obs"] = {"exit": o1["exit"], "started": o1["started"], "out": o1["out"][-400:], "retry_started": o2["started"]}
    except Exception as e:  # noqa
        out["problems"].append("exception: %r" % (e,))
    finally:
        r.kill_strays()
        r.close()
    return out


def endings(tier="quick"):
    ninja, vcmd = rb.build_tools()
    v = Variant("v0", [Stmt("a", ex=["s"]), Stmt("b", ex=["a"]), Stmt("c", ex=["t"]), Stmt("top", ex=["b", "c"])])
    ops = [ninja_op(j=2)]
    sigs = FATAL_SIGNALS if tier != "quick" else {k: FATAL_SIGNALS[k] for k in ("SIGKILL", "SIGSEGV", "SIGABRT", "SIGPIPE")}
    for name, num in sorted(sigs.items()):
        for touch in (False, True):
            for k in (1, 0):
                ops.append(ninja_op(j=2, k=k, faults={"a": {"dies": num, "touch": touch}},
                                    label="ninja -j2 -k%d, a dies of %s%s" % (k, name, " after overwriting its output" if touch else "")))
    # a tool that crashes where core dumps are enabled (the wait status carries the "core dumped" bit next to the signal)
    for name in ("SIGSEGV", "SIGABRT"):
        ops.append(ninja_op(j=2, k=1, faults={"a": {"dies": FATAL_SIGNALS[name], "core": True}},
                            label="ninja -j2 -k1, a dies of %s and dumps core" % name))
    for code in ((1, 2, 127, 128, 255) if tier == "quick" else (1, 2, 3, 126, 127, 128, 129, 137, 139, 143, 254, 255)):
        for k in (1, 0):
            ops.append(ninja_op(j=2, k=k, faults={"a": {"code": code, "touch": True}}))
    sc = scenario("endings/chain+indep", "rb", [v], ops=ops, init=[], depth=1)
    work = [(sc, i, compound, ninja, vcmd) for i in range(1, len(ops)) for compound in ("exec", False, True)]
    with multiprocessing.Pool(16) as pool:
        res = pool.map(_ending_case, work, chunksize=1)
    return {"cases": len(res), "problems": [r for r in res if r["problems"]],
            "exit_statuses_seen": sorted(set(r.get("exit", -1) for r in res)),
            "sample": [{k: r[k] for k in ("scenario", "op", "compound", "obs") if k in r} for r in res[:3]]}


def c05_process_level(c):
    r = endings(c.tier)
    seen = set()
    for p in r["problems"]:
        key = (p["op"].split(",")[-1][:30], tuple(sorted(x[:30] for x in p["problems"])))
        if key in seen:
            continue
        seen.add(key)
        if len(seen) > 6:
            break
        c.violation("C05/process-level '%s' (%s): %s" % (p["op"], {"exec": "sh -c 'exec cmd'", True: "sh -c 'cmd && true'", False: "sh -c cmd"}[p["compound"]],
                                                        "; ".join(p["problems"])),
                    {"engine": "rb", "kind": "ending", "scenario": p["scenario_json"], "opi": p["opi"], "compound": p["compound"],
                     "problems": p["problems"], "obs": p.get("obs")})
    # the failure budget under a real FIFO jobserver (the cases of C06, judged by the clause of C05)
    js = jobserver(c.tier)
    nj = 0
    for p in js["problems"]:
        ind = [x for x in p["problems"] if x.startswith("independent:")]
        if not ind:
            continue
        nj += 1
        if nj > 3:
            break
        c.violation("C05/jobserver %s, %d token(s), '%s' choices=%s: %s" % (p["scenario"], p["tokens"], p["op"], p["choices"], "; ".join(ind)),
                    {"engine": "rb", "kind": "jobserver", "scenario": p["scenario_json"], "tokens": p["tokens"], "opi": p["opi"],
                     "choices": p["choices"], "signal_at": p["signal_at"], "explicit_j": p.get("explicit_j"), "problems": ind})
    return {"real_command_ending_cases": r["cases"], "real_exit_statuses_seen": r["exit_statuses_seen"],
            "real_command_ending_samples": r["sample"], "real_jobserver_cases_with_faults": js["cases"]}


def replay(rj):
    """Re-runs one recorded engine-B case twice; returns 1 when a problem shows up both times."""
    ninja, vcmd = rb.build_tools()
    nx = nxcheck.nx_exe()
    seen = 0
    for _ in range(2):
        if rj["kind"] == "ending":
            o = _ending_case((rj["scenario"], rj["opi"], rj["compound"], ninja, vcmd))
            o.pop("scenario_json", None)
        elif rj["kind"] == "early-close":
            o = early_close_case(ninja)
        elif rj["kind"] == "late-output":
            o = late_output_case(ninja)
        elif rj["kind"] == "burst-output":
            o = burst_output_case((ninja, rj["bytes"]))
        elif rj["kind"] == "slow-to-die":
            o = _slow_to_die_case((rj["signal"], ninja, {3: True, 4: "mixed"}.get(rj.get("variant"), False)))
        elif rj["kind"] == "console-trap":
            o = _console_trap_case((rj["signal"], ninja))
        elif rj["kind"] == "signal-outside-wait":
            o = _signal_outside_wait_case((rj["signal"], ninja, rj.get("variant", 0)))
        elif rj["kind"] == "signal":
            o = _signal_case((rj["scenario"], rj["wait"], rj["signal"], rj["partial"], ninja, vcmd, nx, rj.get("delivery", "process")))
        else:
            o = _jobserver_case((rj["scenario"], rj["tokens"], rj["opi"], rj["choices"], rj["signal_at"], ninja, vcmd,
                                 rj.get("explicit_j")))
        print(json.dumps({k: v for k, v in o.items() if k != "scenario"})[:1500])
        if o["problems"]:
            seen += 1
    return 1 if seen == 2 else 0


# ---- a signal that arrives while ninja is NOT waiting in ppoll() -------------------------------------------------
# A command that closes its stdout/stderr and keeps running makes ninja see EOF on the pipe and sit in waitpid() for it:
# a signal sent then is pending (blocked outside ppoll) and must still stop the build once the command is gone.
OUTSIDE_WAIT_MANIFEST = """rule detach
  command = exec >/dev/null 2>&1; sleep 1.2; touch $out
rule quick
  command = touch $out
build a: detach
build b: quick a
default b
"""


# Outside ppoll() for another reason (blocked writing a command's output into a full pipe), with a second command whose
# pipe is at EOF by the time ninja polls again: ppoll() then reports the descriptor
# and does not deliver the signal; ninja finds it with sigpending() -- and must not leave it pending (it would be
# delivered, with the default action, when the signal mask is restored on the way out).
OUTSIDE_WAIT_MANIFEST_2 = """rule big
  command = head -c 300000 /dev/zero | tr '\\0' x; touch $out
rule slow
  command = sleep 1.2; touch $out
rule quick
  command = touch $out
build a: big
build c: slow
build b: quick a c
default b
"""


def _signal_outside_wait_case(args):
    signame, ninja = args[:2]
    manifest = OUTSIDE_WAIT_MANIFEST_2 if len(args) > 2 and args[2] else OUTSIDE_WAIT_MANIFEST
    root = tempfile.mkdtemp(prefix="rbsig.", dir=rb.SHM)
    out = {"signal": signame, "scenario": "signal_outside_wait" + ("_descriptor_ready" if manifest is OUTSIDE_WAIT_MANIFEST_2 else ""),
           "wait": -1, "partial": False, "problems": [], "variant": 1 if manifest is OUTSIDE_WAIT_MANIFEST_2 else 0}
    try:
        with open(os.path.join(root, "build.ninja"), "w") as f:
            f.write(manifest)
        p = subprocess.Popen([ninja, "-j2"], cwd=root, stdout=subprocess.PIPE, stderr=subprocess.STDOUT, start_new_session=True)
        time.sleep(0.5)
        os.kill(p.pid, getattr(signal, signame))
        if manifest is OUTSIDE_WAIT_MANIFEST_2:
            # ninja is blocked writing a's 300 kB of output into the pipe nobody reads (outside ppoll, signals blocked);
            # leave it there until c's pipe is at EOF, then start reading
            time.sleep(1.5)
        try:
            o = p.communicate(timeout=15)[0].decode("latin-1")
        except subprocess.TimeoutExpired:
            p.kill()
            o = p.communicate()[0].decode("latin-1")
            out["problems"].append("ninja did not exit within 15 s of the signal")
        out["exit"] = p.returncode
        if p.returncode != 130 and not out["problems"]:
            out["problems"].append("%s arrived while ninja was waiting for a command outside ppoll(): exit status %s instead of 130; output: %s"
                                   % (signame, p.returncode, o[-200:]))
        if os.path.exists(os.path.join(root, "b")):
            out["problems"].append("%s arrived while ninja was waiting for a command outside ppoll(): the build went on and started the next command (b exists)" % signame)
        if os.path.exists(os.path.join(root, ".ninja_lock")):
            out["problems"].append("lock file left behind")
    except Exception as e:  # noqa
        out["problems"].append("exception: %r" % (e,))
    finally:
        shutil.rmtree(root, ignore_errors=True)
    return out


def signal_outside_wait():
    ninja, _ = rb.build_tools()
    with multiprocessing.Pool(6) as pool:
        return pool.map(_signal_outside_wait_case, [(s, ninja, v) for s in ("SIGINT", "SIGTERM", "SIGHUP") for v in (0, 1)])


# A command that does not die on the spot: it catches the signal, writes to its output once more while it winds down and
# only then exits (a tool that flushes what it has on termination, a wrapper with a trap).  "ninja stops the running
# commands [and] removes the outputs they had already modified": ninja has to wait until the command is gone before it
# removes the output and exits, or the dying command's last write survives.
SLOW_TO_DIE_MANIFEST = """rule slowdeath
  command = trap 'sleep 0.6; echo written-while-dying > $out; exit 1' INT TERM HUP; echo partial > $out; sleep 30 & wait
rule r
  command = cat $in > $out
build a: slowdeath
build b: r a
default b
"""


def _slow_to_die_case(args):
    signame, ninja = args[:2]
    twice = len(args) > 2 and args[2]     # an impatient second signal while ninja waits for the command to be gone
    root = tempfile.mkdtemp(prefix="rbdie.", dir=rb.SHM)
    out = {"signal": signame, "scenario": "command_slow_to_die" + ("_signalled_twice" if twice else ""), "wait": 0, "partial": True, "problems": [],
           "variant": (4 if twice == "mixed" else 3) if twice else 2}
    try:
        with open(os.path.join(root, "build.ninja"), "w") as f:
            f.write(SLOW_TO_DIE_MANIFEST)
        p = subprocess.Popen([ninja, "-j2"], cwd=root, stdout=open(os.path.join(root, "ninja.out"), "wb"), stderr=subprocess.STDOUT,
                             start_new_session=True)
        t0 = time.time()
        while not os.path.exists(os.path.join(root, "a")) and time.time() - t0 < 20:
            time.sleep(0.01)
        time.sleep(0.1)
        os.kill(p.pid, getattr(signal, signame))
        if twice:
            time.sleep(0.25)
            if p.poll() is None:
                os.kill(p.pid, getattr(signal, signame))
            if twice == "mixed" and p.poll() is None:
                # ... and another of the three on top (kill after an unanswered Ctrl-C, the terminal going away)
                os.kill(p.pid, {"SIGINT": signal.SIGTERM, "SIGTERM": signal.SIGHUP, "SIGHUP": signal.SIGINT}[signame])
        try:
            p.wait(timeout=20)
        except subprocess.TimeoutExpired:
            p.kill()
            p.wait()
            out["problems"].append("ninja did not exit within 20 s of the signal")
        t_exit = time.time()
        out["exit"] = p.returncode
        if p.returncode != 130 and not out["problems"]:
            out["problems"].append("exit status %s instead of 130%s" % (p.returncode, " (the signal was sent a second time while ninja was winding down)" if twice else ""))
        time.sleep(1.5)   # whatever the dying command still had to write has been written by now
        if os.path.exists(os.path.join(root, "a")):
            out["problems"].append("the output of the interrupted command exists %.1f s after ninja exited (%r): ninja did not wait for the "
                                   "command to be gone before it removed the output" % (time.time() - t_exit, open(os.path.join(root, "a")).read()[:40]))
        if os.path.exists(os.path.join(root, ".ninja_lock")):
            out["problems"].append("lock file left behind")
    except Exception as e:  # noqa
        out["problems"].append("exception: %r" % (e,))
    finally:
        shutil.rmtree(root, ignore_errors=True)
    return out


CONSOLE_TRAP_MANIFEST = """rule con
  command = echo $$$$ > pid; echo half > out; trap 'exit 0' INT TERM HUP; touch started; while :; do sleep 0.05; done
  pool = console
build out: con
"""


def _console_trap_case(args):
    """A console command that catches the signal and exits 0, its SIGCHLD and ninja's own signal both pending when ninja next
    runs (ninja is stopped while the two are sent: a deterministic order over real signals): the build was interrupted -- exit
    130, nothing recorded, the next build runs the command again."""
    signame, ninja = args[:2]
    root = tempfile.mkdtemp(prefix="rbtrap.", dir=rb.SHM)
    out = {"signal": signame, "scenario": "console_command_traps_the_signal_and_exits_0", "wait": 0, "partial": True, "problems": [], "variant": 5}
    try:
        with open(os.path.join(root, "build.ninja"), "w") as f:
            f.write(CONSOLE_TRAP_MANIFEST)
        p = subprocess.Popen([ninja, "-j2"], cwd=root, stdin=subprocess.DEVNULL, stdout=open(os.path.join(root, "ninja.out"), "wb"),
                             stderr=subprocess.STDOUT, start_new_session=True)
        t0 = time.time()
        while not os.path.exists(os.path.join(root, "started")) and time.time() - t0 < 20:
            time.sleep(0.01)
        time.sleep(0.1)
        cpid = int(open(os.path.join(root, "pid")).read())
        os.kill(p.pid, signal.SIGSTOP)
        time.sleep(0.05)
        os.kill(cpid, getattr(signal, signame))
        t1 = time.time()
        while time.time() - t1 < 5:       # until the command is gone (a zombie that ninja has yet to reap)
            try:
                st = open("/proc/%d/stat" % cpid).read().rsplit(")", 1)[1].split()[0]
            except OSError:
                break
            if st == "Z":
                break
            time.sleep(0.01)
        os.kill(p.pid, getattr(signal, signame))
        os.kill(p.pid, signal.SIGCONT)
        try:
            p.wait(timeout=20)
        except subprocess.TimeoutExpired:
            p.kill()
            p.wait()
            out["problems"].append("ninja did not exit within 20 s of the signal")
        out["exit"] = p.returncode
        if p.returncode != 130 and not out["problems"]:
            out["problems"].append("exit status %s instead of 130: the signal sent to ninja was lost behind the completion of the console command" % p.returncode)
        if os.path.exists(os.path.join(root, ".ninja_lock")):
            out["problems"].append("lock file left behind")
        # the next build: the command's completion was not durably recorded as a success of an uninterrupted build
        for fn in ("started", "pid"):
            try:
                os.unlink(os.path.join(root, fn))
            except OSError:
                pass
        q = subprocess.Popen([ninja, "-j2"], cwd=root, stdin=subprocess.DEVNULL, stdout=subprocess.PIPE, stderr=subprocess.STDOUT, start_new_session=True)
        t0 = time.time()
        while not os.path.exists(os.path.join(root, "started")) and q.poll() is None and time.time() - t0 < 10:
            time.sleep(0.01)
        if not os.path.exists(os.path.join(root, "started")):
            o2 = q.communicate(timeout=10)[0].decode("latin-1")
            out["problems"].append("the next build does not run the interrupted command again: %r" % o2[-120:])
        else:
            try:
                os.kill(int(open(os.path.join(root, "pid")).read()), signal.SIGINT)
            except (OSError, ValueError):
                pass
            try:
                q.wait(timeout=10)
            except subprocess.TimeoutExpired:
                q.kill()
                q.wait()
    except Exception as e:  # noqa
        out["problems"].append("exception: %r" % (e,))
    finally:
        shutil.rmtree(root, ignore_errors=True)
    return out


def console_trap():
    ninja, _ = rb.build_tools()
    with multiprocessing.Pool(3) as pool:
        return pool.map(_console_trap_case, [(s, ninja) for s in ("SIGINT", "SIGTERM", "SIGHUP")])


def slow_to_die():
    ninja, _ = rb.build_tools()
    with multiprocessing.Pool(3) as pool:
        return pool.map(_slow_to_die_case, [(s, ninja, tw) for s in ("SIGINT", "SIGTERM", "SIGHUP") for tw in (False, True, "mixed")])


def c07_process_level(c):
    for p in slow_to_die():
        if p["problems"]:
            c.violation("C07/process-level %s, a command that is slow to die: %s" % (p["signal"], "; ".join(p["problems"])),
                        {"engine": "rb", "kind": "slow-to-die", "signal": p["signal"], "variant": p["variant"], "problems": p["problems"]})
    for p in console_trap():
        if p["problems"]:
            c.violation("C07/process-level %s, a console command that catches the signal and exits 0 in the same moment: %s" % (p["signal"], "; ".join(p["problems"])),
                        {"engine": "rb", "kind": "console-trap", "signal": p["signal"], "variant": p["variant"], "problems": p["problems"]})
    for p in signal_outside_wait():
        if p["problems"]:
            c.violation("C07/process-level %s: %s" % (p["signal"], "; ".join(p["problems"])),
                        {"engine": "rb", "kind": "signal-outside-wait", "signal": p["signal"], "variant": p.get("variant", 0), "problems": p["problems"]})
    r = signals(c.tier)
    scs = {s["name"]: s for s in templates_c07.templates(c.tier)}
    seen = set()
    for p in r["problems"]:
        if p["facts"]:
            v = {"clause": "process-level-signal", "facts": p["facts"]}
            for f in c.findings:
                if f.get("property") == "C07" and nxcheck.matches(v, f):
                    c.known(f["id"], "%s [%s] e.g. %s at wait %d of %s" % (f["what"], f["id"], p["signal"], p["wait"], p["scenario"]))
                    p["problems"] = [x for x in p["problems"] if not x.startswith("console-pool command(s)")]
                    break
        if not p["problems"]:
            continue
        key = (p["signal"], tuple(sorted(x.split("'")[0][:40] for x in p["problems"])))
        if key in seen:
            continue
        seen.add(key)
        if len(seen) > 6:
            break
        c.violation("C07/process-level %s at wait %d of %s (partial=%s): %s" % (p["signal"], p["wait"], p["scenario"], p["partial"],
                                                                              "; ".join(p["problems"])),
                    {"engine": "rb", "kind": "signal", "scenario": scs[p["scenario"]], "wait": p["wait"], "signal": p["signal"],
                     "partial": p["partial"], "delivery": p.get("delivery", "process"), "clause": "process-level-signal",
                     "facts": p["facts"], "problems": p["problems"]})
    return {"real_signal_cases": r["cases"], "real_signal_cases_reaching_their_gate": r["reached"],
            "real_signal_samples": r["sample"]}


# A tool that closes (or redirects) its output and keeps working -- `tool >log 2>&1` run by a shell that execs it, a tool
# that detaches its output -- next to ordinary commands: with a free slot the ordinary ones must go on being reaped and
# started while it runs (the real poll loop and the real waitpid(); engine A's runner does not model a blocking wait).
EARLY_CLOSE_MANIFEST = """rule quiet
  command = exec >/dev/null 2>&1; sleep 2.6; date +%s.%N > $out
rule r
  command = sleep 0.15; date +%s.%N > $out
build a: quiet
build b: r
build c: r
build d: r
build all: phony a b c d
default all
"""


def early_close_case(ninja):
    root = tempfile.mkdtemp(prefix="rbec.", dir=rb.SHM)
    out = {"scenario": "output_closed_early", "problems": [], "facts": {}}
    try:
        with open(os.path.join(root, "build.ninja"), "w") as f:
            f.write(EARLY_CLOSE_MANIFEST)
        p = subprocess.run([ninja, "-j2"], cwd=root, stdout=subprocess.PIPE, stderr=subprocess.STDOUT, timeout=60)
        if p.returncode != 0:
            out["problems"].append("exit %s: %s" % (p.returncode, p.stdout.decode("latin-1")[-300:]))
            return out
        t = {n: float(open(os.path.join(root, n)).read()) for n in "abcd"}
        out["times"] = {n: round(t[n] - min(t.values()), 2) for n in t}
        late = [n for n in "bcd" if t[n] > t["a"] - 1.0]
        if late:
            out["facts"]["commands_waited_for_one_that_had_closed_its_output_early"] = True
            out["problems"].append("-j2, 'a' (2.6 s, closed its output at once) next to three 0.15 s commands: %s finished only after / "
                                   "when 'a' ended (%s): ninja sat in a blocking wait for 'a' with a free slot and startable commands"
                                   % (late, out["times"]))
    except Exception as e:  # noqa
        out["problems"].append("exception: %r" % (e,))
    finally:
        shutil.rmtree(root, ignore_errors=True)
    return out


def c06_process_level(c):
    ninja0, _ = rb.build_tools()
    ec = early_close_case(ninja0)
    if ec["problems"]:
        known = None
        for f in c.findings:
            if f.get("property") == "C06" and nxcheck.matches({"clause": "process-level-idle-slot", "facts": ec["facts"]}, f):
                known = f
        if known and len(ec["problems"]) == 1:
            c.known(known["id"], "%s [%s] %s" % (known["what"], known["id"], ec.get("times")))
        else:
            c.violation("C06/process-level %s: %s" % (ec["scenario"], "; ".join(ec["problems"])),
                        {"engine": "rb", "kind": "early-close", "clause": "process-level-idle-slot", "facts": ec["facts"],
                         "problems": ec["problems"]})
    r = jobserver(c.tier)
    seen = set()
    for p in r["problems"]:
        key = (p["scenario"], p["op"])
        if key in seen:
            continue
        known = None
        for f in c.findings:
            if f.get("property") == "C06" and nxcheck.matches({"clause": "process-level-jobserver", "facts": {"scenario": p["scenario"]}}, f):
                known = f
        if known:
            c.known(known["id"], "%s [%s] %s" % (known["what"], known["id"], "; ".join(p["problems"])))
            continue
        seen.add(key)
        if len(seen) > 6:
            break
        c.violation("C06/jobserver %s, %d token(s), '%s' choices=%s signal_at=%s: %s" % (
            p["scenario"], p["tokens"], p["op"], p["choices"], p["signal_at"], "; ".join(p["problems"])),
            {"engine": "rb", "kind": "jobserver", "scenario": p["scenario_json"], "tokens": p["tokens"], "opi": p["opi"],
             "choices": p["choices"], "signal_at": p["signal_at"], "explicit_j": p.get("explicit_j"), "problems": p["problems"]})
    return {"real_jobserver_cases": r["cases"], "real_jobserver_max_running_seen": r["max_running_seen"],
            "real_jobserver_samples": r["sample"]}


# ---- C20 through real pipes: output that arrives late, from a process the command left behind ------------------------
# `(sleep 0.4; echo late) & echo early`: the shell exits at once, its background child still holds the pipe and writes
# after that.  What the command wrote -- all of it, by whichever process -- is shown once, in one block under its
# status line; ninja reads a command's pipe until every writer has closed it.
LATE_OUTPUT_MANIFEST = """rule bg
  command = (sleep 0.4; echo late-from-$out) & echo early-from-$out
rule plain
  command = echo plain-$out
build a: bg
build b: bg
build c: plain
build all: phony a b c
default all
"""


def late_output_case(ninja):
    root = tempfile.mkdtemp(prefix="rblate.", dir=rb.SHM)
    out = {"scenario": "late_output", "problems": []}
    try:
        with open(os.path.join(root, "build.ninja"), "w") as f:
            f.write(LATE_OUTPUT_MANIFEST)
        p = subprocess.run([ninja, "-j3"], cwd=root, stdout=subprocess.PIPE, stderr=subprocess.STDOUT, timeout=120)
        t = p.stdout.decode("latin-1")
        out["exit"] = p.returncode
        out["transcript"] = t[-600:]
        if p.returncode != 0:
            out["problems"].append("exit status %d" % p.returncode)
        lines = t.split("\n")    # (whole lines: the status lines quote the command text, which contains the same words)
        for name in ("a", "b"):
            early, late = "early-from-" + name, "late-from-" + name
            together = sum(1 for i in range(len(lines) - 1) if lines[i] == early and lines[i + 1] == late)
            if together != 1 or lines.count(early) != 1 or lines.count(late) != 1:
                out["problems"].append("what the command of '%s' wrote (two lines, the second one by a process it left behind) is not shown "
                                       "once as one block: early %d time(s), late %d time(s), together %d time(s)" % (
                                           name, lines.count(early), lines.count(late), together))
        if lines.count("plain-c") != 1:
            out["problems"].append("the output of 'c' is shown %d times" % lines.count("plain-c"))
    except Exception as e:  # noqa
        out["problems"].append("exception: %r" % (e,))
    finally:
        shutil.rmtree(root, ignore_errors=True)
    return out


BURST_MANIFEST = """rule r
  command = $cmd
build a: r
  cmd = echo $$$$ > pid.a; touch started.a; while [ ! -e go ]; do sleep 0.02; done; head -c %d /dev/zero | tr '\\0' x; echo; touch a
build b: r
  cmd = echo plain-b; touch b
build all: phony a b
default all
"""


def burst_output_case(args):
    """A command writes N bytes in one go and exits while ninja is not looking (ninja is stopped meanwhile: a deterministic form
    of "busy finishing another command" / a loaded machine): when ninja polls again the pipe holds everything and has been
    hung up -- all of it must still be shown, once, as one block."""
    ninja, nbytes = args
    root = tempfile.mkdtemp(prefix="rbburst.", dir=rb.SHM)
    out = {"scenario": "burst_output_%d" % nbytes, "problems": [], "bytes": nbytes}
    try:
        with open(os.path.join(root, "build.ninja"), "w") as f:
            f.write(BURST_MANIFEST % nbytes)
        p = subprocess.Popen([ninja, "-j3"], cwd=root, stdin=subprocess.DEVNULL, stdout=open(os.path.join(root, "ninja.out"), "wb"),
                             stderr=subprocess.STDOUT, start_new_session=True)
        t0 = time.time()
        while not os.path.exists(os.path.join(root, "started.a")) and time.time() - t0 < 20:
            time.sleep(0.01)
        time.sleep(0.2)
        cpid = int(open(os.path.join(root, "pid.a")).read())
        os.kill(p.pid, signal.SIGSTOP)
        time.sleep(0.05)
        open(os.path.join(root, "go"), "w").close()
        t1 = time.time()
        while time.time() - t1 < 10:      # until the command is gone (a zombie: everything is in the pipe, the pipe hung up)
            try:
                st = open("/proc/%d/stat" % cpid).read().rsplit(")", 1)[1].split()[0]
            except OSError:
                break
            if st == "Z":
                break
            time.sleep(0.01)
        os.kill(p.pid, signal.SIGCONT)
        try:
            p.wait(timeout=30)
        except subprocess.TimeoutExpired:
            p.kill()
            p.wait()
            out["problems"].append("ninja did not exit within 30 s")
        t = open(os.path.join(root, "ninja.out"), "rb").read().decode("latin-1")
        out["exit"] = p.returncode
        if p.returncode != 0:
            out["problems"].append("exit status %s" % p.returncode)
        runs = [len(x) for x in t.replace("\n", " ").split() if x and set(x) == {"x"}]
        if runs != [nbytes]:
            out["problems"].append("the command wrote %d bytes in one go; shown: runs of %s" % (nbytes, runs))
        if t.split("\n").count("plain-b") != 1:
            out["problems"].append("the output of 'b' is shown %d times" % t.split("\n").count("plain-b"))
    except Exception as e:  # noqa
        out["problems"].append("exception: %r" % (e,))
    finally:
        shutil.rmtree(root, ignore_errors=True)
    return out


BURST_SIZES = (1, 4095, 4096, 4097, 8193, 10000, 60000)


def c20_process_level(c):
    ninja, _ = rb.build_tools()
    o = late_output_case(ninja)
    if o["problems"]:
        c.violation("C20/process-level late output: %s" % "; ".join(o["problems"]),
                    {"engine": "rb", "kind": "late-output", "problems": o["problems"], "transcript": o.get("transcript")})
    with multiprocessing.Pool(3) as pool:
        for o in pool.map(burst_output_case, [(ninja, n) for n in BURST_SIZES]):
            if o["problems"]:
                c.violation("C20/process-level output written in one go while ninja was not polling (%d bytes): %s" % (o["bytes"], "; ".join(o["problems"])),
                            {"engine": "rb", "kind": "burst-output", "bytes": o["bytes"], "problems": o["problems"]})
    return {"real_pipe_cases": 1 + len(BURST_SIZES)}
