"""Manifest families for C12 (DESIGN.md 5/C12): scoping, statement forms, lexical, single-token mutations."""
import itertools


def scoping():
    vals = {"-": None, "lit": "lit%d", "self": "${v}x%d", "other": "$w"}
    keys = list(vals)
    n = 0
    for kind in ("include", "subninja"):
        for name in ("v", "description"):
            for combo in itertools.product(keys, repeat=5):
                for rule_desc in ("-", "lit", "usev"):
                    if name == "description" and (combo.count("-") < 2 or rule_desc == "usev"):
                        continue   # smaller slice for the reserved-name variant
                    for subrule in (False, True):
                        if subrule and (combo[2] != "-" or combo[3] != "-" or rule_desc != "-"):
                            continue
                        def b(pos):
                            k = combo[pos]
                            if vals[k] is None:
                                return ""
                            v = vals[k]
                            return "%s = %s\n" % (name, (v % pos) if "%d" in v else v)
                        ref = "$" + name if name == "v" else "${description}"
                        top = "w = W\n" + b(0) + "rule r\n  command = cmd %s $flags $in > $out\n" % ref
                        if rule_desc == "lit":
                            top += "  description = RD\n"
                        elif rule_desc == "usev":
                            top += "  description = RD$v\n"
                        top += "build out_%s: r in\n" % ref
                        k = combo[1]
                        if vals[k] is not None:
                            v = vals[k]
                            top += "  %s = %s\n" % (name, (v % 1) if "%d" in v else v)
                        top += "  flags = F%s\n" % ref
                        top += "%s sub.ninja\n" % kind
                        top += b(4)
                        top += "build after_%s: r in\n" % ref
                        sub = b(2)
                        if subrule:
                            sub += "rule q\n  command = q %s\n" % ref
                            top += "build q_out: q in\n"
                        sub += "build sub_%s: r in\n  flags = S%s\n" % (ref, ref)
                        sub += b(3) + "build sub2_%s: r in\n" % ref
                        n += 1
                        yield ("scope#%d %s %s %s rd=%s q=%d" % (n, kind, name, "".join(c[0] for c in combo), rule_desc, subrule),
                               {"build.ninja": top, "sub.ninja": sub})



def scoping2():
    """One parent that uses both subninja and include, in both orders, each file binding the variable
    and declaring a rule; uses after each."""
    n = 0
    vals = ["", "v = P\n"]
    for order in (("subninja", "include"), ("include", "subninja"), ("subninja", "subninja"), ("include", "include")):
        for pv, av, bv in itertools.product(vals, ["", "v = A\n"], ["", "v = B\n"]):
            for arule, brule in itertools.product((False, True), repeat=2):
                top = pv + "rule r\n  command = r $v $in $out\n"
                top += "%s a.ninja\nbuild after_a_$v: r in\n" % order[0]
                if arule:
                    top += "build qa: qa in\n"
                top += "%s b.ninja\nbuild after_b_$v: r in\n" % order[1]
                if brule:
                    top += "build qb: qb in\n"
                a = av + ("rule qa\n  command = qa $v\n" if arule else "") + "build a_$v: r in\n"
                b = bv + ("rule qb\n  command = qb $v\n" if brule else "") + "build b_$v: r in\n"
                n += 1
                yield ("scope2#%d %s-%s" % (n, order[0], order[1]), {"build.ninja": top, "a.ninja": a, "b.ninja": b})


def rule_shadowing():
    """A rule name declared again in the scope of a subninja file (allowed: the nearest declaration counts, there and in
    files nested below; the including file keeps its own) or of an include file (the same scope: a duplicate). Also
    validations among the default targets of a manifest without a `default` statement (every output nobody consumes)."""
    n = 0
    for k1, k2 in itertools.product(("subninja", "include"), repeat=2):
        for d1, d2, d0 in itertools.product((False, True), repeat=3):
            top = ("rule r\n  command = top $in $out\n" if d0 else "rule r\n  command = top0 $in $out\nrule other\n  command = o\n")
            top += "build before: r in\n%s a.ninja\nbuild after: r in\n" % k1
            a = ("rule r\n  command = A $in $out\n" if d1 else "") + "build a_out: r in\n%s b.ninja\nbuild a_after: r in\n" % k2
            b = ("rule r\n  command = B $in $out\n" if d2 else "") + "build b_out: r in\n"
            n += 1
            yield ("shadow#%d %s-%s %d%d%d" % (n, k1, k2, d0, d1, d2), {"build.ninja": top, "a.ninja": a, "b.ninja": b})
    for vmask in range(8):
        t = "rule r\n  command = c $in $out\n"
        t += "build out: r in" + (" |@ out.ok" if vmask & 1 else "") + "\n"
        t += "build out.ok: r out" + (" |@ deep.ok" if vmask & 2 else "") + "\n"
        t += "build deep.ok: r out.ok\n"
        t += ("build unrelated: r in2\n" if vmask & 4 else "")
        n += 1
        yield ("shadow#%d roots-with-validations %d" % (n, vmask), {"build.ninja": t})


def version_scope():
    """`$^` needs `ninja_required_version >= 1.14` "in the build file": a parent and two files it includes / subninjas,
    each declaring 1.14, 1.13 or nothing and each using `$^` or not, in every order of the two kinds."""
    n = 0
    decls = ["", "ninja_required_version = 1.14\n", "ninja_required_version = 1.13\n"]
    for k1, k2 in itertools.product(("include", "subninja"), repeat=2):
        for dt, da, db in itertools.product(decls, repeat=3):
            for ut, ua, ub in itertools.product((False, True), repeat=3):
                if not (ut or ua or ub):
                    continue
                def body(tag, use):
                    return "rule r%s\n  command = c%s%s\nbuild o%s: r%s i\n" % (tag, tag, "$^second line" if use else "", tag, tag)
                top = dt + "%s a.ninja\n%s b.ninja\n" % (k1, k2) + body("t", ut)
                n += 1
                yield ("version#%d %s-%s" % (n, k1, k2), {"build.ninja": top, "a.ninja": da + body("a", ua), "b.ninja": db + body("b", ub)})


def path_scope():
    """Variables inside the paths of a build statement, bound at file level, in the build block, or both: every
    path position (output, implicit output, input, implicit, order-only, validation) sees the build block."""
    n = 0
    positions = ["out", "iout", "in", "imp", "oo", "val"]
    for filev, buildv in itertools.product(("", "d = F\n"), ("", "  d = B\n")):
        for mask in range(1, 1 << len(positions)):
            use = {p: bool(mask >> i & 1) for i, p in enumerate(positions)}
            if bin(mask).count("1") > 2 and mask != (1 << len(positions)) - 1:
                continue   # singles, pairs and all six
            def nm(p, base):
                return ("$d/" if use[p] else "") + base
            top = filev + "rule r\n  command = c $in $out\n"
            top += "build %s | %s: r %s | %s || %s |@ %s\n%s" % (nm("out", "o"), nm("iout", "io"), nm("in", "i"), nm("imp", "im"),
                                                                nm("oo", "oo"), nm("val", "v"), buildv)
            top += "build after_$d: r x\n"
            n += 1
            yield ("pathscope#%d file=%d build=%d mask=%d" % (n, bool(filev), bool(buildv), mask), {"build.ninja": top})


def forms():
    n = 0
    rule = "rule r\n  command = c $in $out\npool p\n  depth = 2\n"
    for nout, niout, nin, nimp, noo, nval in itertools.product((1, 2), (0, 1), (0, 1, 2), (0, 1), (0, 1), (0, 1)):
        for binding in ("", "  pool = p\n", "  pool = console\n", "  pool = nosuch\n", "  dyndep = i0\n", "  dyndep = zz\n",
                        "  deps = gcc\n", "  restat = 1\n  generator = 1\n", "  depfile = $out.d\n  rspfile = $out.rsp\n  rspfile_content = $in_newline\n"):
            outs = " ".join("o%d" % i for i in range(nout))
            l = "build " + outs
            if niout:
                l += " | io"
            l += ": r" + "".join(" i%d" % i for i in range(nin))
            if nimp:
                l += " | m0"
            if noo:
                l += " || oo0"
            if nval:
                l += " |@ v0"
            n += 1
            yield ("form#%d" % n, {"build.ninja": rule + l + "\n" + binding})
    # duplicate outputs, paths needing canonicalisation, defaults
    extra = [
        "build a: r x\nbuild a: r y\n", "build a b: r x\nbuild c | b: r y\n", "build ./a/../b: r x/./y//z\ndefault b\n",
        "build a: r x\ndefault a nosuch\n", "build a: r x\ndefault ./a\n", "build a: r x\nbuild b: r a\ndefault b a\n",
        "build a: nosuchrule x\n", "build a: r x\n  foo = $out\n", "build a$ b: r x$:y\n", "build a: r $\n   x $\n y\n",
        "rule r\n  command = again\n", "rule s\n  depfile = x\n", "rule s\n  command = c\n  foo = bar\n",
        "rule s\n  command = c\n  rspfile = x\n", "pool p\n  depth = 1\n", "pool q\n", "pool q\n  depth = -1\n", "pool q\n  deep = 1\n",
        "build a: r x\n\tfoo = 1\n", "\tbuild a: r x\n", "build a: r x |@\n", "build: r x\n", "build a r x\n", "build a:\n",
        "x = 1\ny = $x$x\nbuild $y: r ${y}z\n",
        # reserved rule variables bound only at file level: the documented lookup order (build block, rule, file) finds them
        "rspfile = top.rsp\nrspfile_content = $in_newline\ndepfile = top.d\ndescription = topdesc\nbuild a: r x\n",
        "rspfile = top.rsp\nrspfile_content = c\nrule s\n  command = s $rspfile $depfile\nbuild a: s x\n",
        "rspfile_content = c\nrule s\n  command = s\n  rspfile = own.rsp\nbuild a: s x\n",
        "command = filecmd\nrule s\n  description = d\nbuild a: s x\n",
        # a rule-level binding with an EMPTY value is a binding: it shadows the file-level variable of that name
        "description = FILE-DESC\ndepfile = file.d\nrule s\n  command = c [$description] [$depfile]\n  description =\n  depfile =\nbuild a: s x\n",
        "pool = p\nrestat = 1\ngenerator = 1\ndeps = gcc\nrule s\n  command = c\n  pool =\n  restat =\n  generator =\n  deps =\nbuild a: s x\n",
        "rspfile = f.rsp\nrspfile_content = fc\nrule s\n  command = c $rspfile\n  rspfile =\n  rspfile_content =\nbuild a: s x\n",
        "v = file\nrule s\n  command = c $v\nbuild a: s x\n  v =\n",
        # a rule-level pool / dyndep binding that uses $out / $in is expanded in the build's scope like any rule variable
        "pool p_a\n  depth = 1\nrule s\n  command = c $pool\n  pool = p_$out\nbuild a: s x\n",
        "pool p_x\n  depth = 1\npool p_\n  depth = 3\nrule s\n  command = c $pool\n  pool = p_$in\nbuild a: s x\n",
        "rule s\n  command = c\n  dyndep = $in\nbuild a: s x\n",
        # ... and unlike $in / $out in a command they are file names there, not shell words: no quoting
        "rule s\n  command = c\n  dyndep = $in\nbuild a: s x$ y\n",
        "rule s\n  command = c\n  dyndep = $out.dd\nbuild a@b: s x || a@b.dd\n",
        "rule s\n  command = c\n  dyndep = $out.dd\nbuild a$ b: s x | a$ b.dd\n",
        "rule s\n  command = c $out $in\n  depfile = $out.d\n  rspfile = $out.rsp\n  rspfile_content = $in\nbuild a$ b: s x$ y z=1\n",
        "pool p_a$ b\n  depth = 1\nrule s\n  command = c\n  pool = p_$out\nbuild a$ b: s x\n",
        # $in and $in_newline (and $out) side by side in one binding, in either order, with two and three inputs
        "rule s\n  command = c $in | $in_newline | $out\n  description = $in_newline + $in\nbuild a b: s x y z\n",
        "rule s\n  command = c $in_newline ; $in ; $in_newline\n  rspfile = a.rsp\n  rspfile_content = $in $in_newline $out\nbuild a: s x$ y z\n",
        "deps = gcc\nrestat = 1\ngenerator = 1\npool = p\ndyndep = x\nbuild a: r x\n", "build a: r x\r\n  pool = p\r\n", "# c\n  # indented comment\nbuild a: r x\n  # c\n  pool = p\n",
    ]
    for i, t in enumerate(extra):
        yield ("formx#%d" % i, {"build.ninja": rule + t})
    # legacy self-referencing phony in every position and kind
    names = ["a", "b", "c"]
    for k in range(0, 4):
        for combo in itertools.product(names, repeat=k):
            for kinds in itertools.product(("ex", "im", "oo"), repeat=k):
                if list(kinds) != sorted(kinds, key=("ex", "im", "oo").index):
                    continue
                ex = [n for n, q in zip(combo, kinds) if q == "ex"]
                im = [n for n, q in zip(combo, kinds) if q == "im"]
                oo = [n for n, q in zip(combo, kinds) if q == "oo"]
                l = "build a: phony" + "".join(" " + x for x in ex)
                if im:
                    l += " |" + "".join(" " + x for x in im)
                if oo:
                    l += " ||" + "".join(" " + x for x in oo)
                n += 1
                yield ("phonyself#%d" % n, {"build.ninja": l + "\nbuild user: phony a\n"})
                # ... and with nothing else naming it: once the self reference is dropped it is a root (built by default)
                n += 1
                yield ("phonyself#%d" % n, {"build.ninja": l + "\nbuild other: phony b\n"})


LEX_TOKENS = ["a", "$$", "$ ", "$:", "$\n", "${x}", "$x", "$^", ".", "/", "..", ":", "|", " ", "\r\n", "\t", "#", "$", "${", "}", "=", "$\r\n  "]


def lexical(maxlen):
    n = 0
    for k in range(1, maxlen + 1):
        for combo in itertools.product(LEX_TOKENS, repeat=k):
            s = "".join(combo)
            n += 1
            base = "x = X\nrule r\n  command = c $y $in $out\n"
            yield ("lex-out#%d" % n, {"build.ninja": base + "build " + s + ": r in\n"})
            yield ("lex-in#%d" % n, {"build.ninja": base + "build out: r " + s + "\n"})
            yield ("lex-val#%d" % n, {"build.ninja": base + "y = " + s + "\nbuild out: r in\n  z = " + s + "\n"})


def tokenize(text):
    toks = []
    i = 0
    import re
    for m in re.finditer(r"\n|[ ]+|[A-Za-z0-9_.$\{\}/-]+|.", text):
        toks.append(m.group(0))
    return toks


MUT_TOKENS = ["build", "rule", "pool", "default", "include", "subninja", "phony", "r", "x", "=", ":", "|", "||", "|@", "\n", "  ", " ",
              "$x", "${x}", "$$", "$", "$ ", "$:", "\t", "#", "command", "depth", "1", "sub.ninja", "$\n"]


def mutations(bases):
    n = 0
    for bi, files in enumerate(bases):
        main = files["build.ninja"]
        toks = tokenize(main)
        for i in range(len(toks)):
            variants = [toks[:i] + toks[i + 1:], toks[:i] + [toks[i], toks[i]] + toks[i + 1:]]
            for r in MUT_TOKENS:
                if r != toks[i]:
                    variants.append(toks[:i] + [r] + toks[i + 1:])
            for v in variants:
                f = dict(files)
                f["build.ninja"] = "".join(v)
                n += 1
                yield ("mut#%d b%d t%d" % (n, bi, i), f)


def mutation_bases():
    b = []
    sc = list(scoping())
    for idx in (0, 77, 500, 901, 1500, 2300, 3100, 4000):
        if idx < len(sc):
            b.append(sc[idx][1])
    fm = list(forms())
    for idx in (5, 40, 111, 300, 431, 600, 800):
        if idx < len(fm):
            b.append(fm[idx][1])
    return b


def phonycycle_err():
    """-w phonycycle=err: the legacy self-referencing phony is not tolerated -- the self reference stays in the graph (and the
    build is refused as cyclic) wherever the statement is written: top-level file, included file, subninja'd file, nested."""
    opt = {"phonycycle_err": True}
    stmts = ["build a: phony a\n", "build a: phony a b\n", "build a: phony b a\n", "build a: phony b || a\n", "build a: phony || a\n",
             "build a: phony b | a\n", "build a b: phony a\n", "build a: phony b\n"]
    n = 0
    for st in stmts:
        for how in ("top", "include", "subninja", "include-include", "subninja-include"):
            if how == "top":
                files = {"build.ninja": "rule r\n  command = c\n" + st + "build z: r a\n"}
            elif how in ("include", "subninja"):
                files = {"build.ninja": "rule r\n  command = c\n%s sub.ninja\nbuild z: r a\n" % how, "sub.ninja": st}
            else:
                outer = how.split("-")[0]
                files = {"build.ninja": "rule r\n  command = c\n%s mid.ninja\nbuild z: r a\n" % outer, "mid.ninja": "include sub.ninja\n",
                         "sub.ninja": st}
            yield ("forms#pce%d" % n, files, opt)
            # the same files with the default option: the self reference is dropped
            yield ("forms#pcw%d" % n, files, {})
            n += 1
