"""Scenario construction for engine A: statements with their declared and *true* behaviour,
manifest text, operation alphabets.  Emits JSON lines read by build/nx (src/nx/scenario.cc)."""
import itertools
import json


class Stmt:
    def __init__(self, outs, ex=(), im=(), oo=(), val=(), hidden=(), iouts=(), phony=False, restat=False,
                 generator=False, deps="", depfile=False, pool="", dyndep="", rsp=None, ver=0, copy=False,
                 extra_reads=(), extra_outs=(), prints=None, depall=False, desc=None):
        self.outs = list(outs) if not isinstance(outs, str) else [outs]
        self.iouts = list(iouts)
        self.ex, self.im, self.oo, self.val = list(ex), list(im), list(oo), list(val)
        self.hidden = list(hidden)
        self.phony = phony
        self.restat, self.generator = restat, generator
        self.deps = deps            # "", "gcc", "msvc"
        self.depfile = depfile or deps == "gcc"
        self.pool = pool
        self.dyndep = dyndep
        self.rsp = rsp              # (path, content) or None
        self.ver = ver
        self.copy = copy
        self.extra_reads = list(extra_reads)   # true reads supplied through dyndep information
        self.extra_outs = list(extra_outs)     # true outputs supplied through dyndep information
        self.prints = prints
        self.depall = depall
        self.desc = desc

    @property
    def id(self):
        return self.outs[0]

    def all_outs(self):
        return self.outs + self.iouts


def expand_reads(names, stmts_by_out):
    """Commands read real files: a phony alias stands for its inputs."""
    out = []
    seen = set()

    def go(n):
        if n in seen:
            return
        seen.add(n)
        p = stmts_by_out.get(n)
        if p is not None and p.phony:
            for x in p.ex + p.im:
                go(x)
        else:
            out.append(n)
    for n in names:
        go(n)
    return out


def enc(p):
    # (also what the manifest ($) and the shell (quotes, $, &, ...) would take for their own)
    out = p.replace("%", "%25")
    for ch in " \t'\"$&;()<>|*?`\\!#~":
        out = out.replace(ch, "%%%02X" % ord(ch))
    return out


def depfile_of(s):
    if not s.depfile:
        return ""
    d = getattr(s, "depfile_dir", None)
    return (d + "/" if d else "") + s.id + ".d"


def command_of(s, by_out):
    if s.phony:
        return ""
    # cmd_prefix: extra words right after "sim" (words without '=' mean nothing to the tool): places text at chosen offsets
    parts = ["sim"] + list(getattr(s, "cmd_prefix", [])) + ["o=" + ",".join(enc(x) for x in s.all_outs() + s.extra_outs)]
    reads = expand_reads(s.ex + s.im, by_out) + s.extra_reads
    if reads:
        parts.append("r=" + ",".join(enc(x) for x in reads))
    if s.hidden:
        parts.append("h=" + ",".join(enc(x) for x in s.hidden))
    if s.depfile:
        parts.append("d=" + enc(depfile_of(s)))
    if s.deps == "msvc":
        parts.append("msvc=1")
        if getattr(s, "notes_last", False):
            parts.append("nl=1")
        if getattr(s, "msvc_prefix", None):
            parts.append("mp=" + s.msvc_prefix.encode("latin-1").hex())   # a localized compiler; the manifest binds msvc_deps_prefix
    if s.restat or getattr(s, "dyn_restat", False) or getattr(s, "tool_restat", False):
        parts.append("restat=1")   # the tool writes only on change, whoever declares restat (tool_restat: nobody does)
    if s.generator:
        parts.append("gen=1")
    if s.copy:
        parts.append("copy=1")
    if getattr(s, "detach", False):
        parts.append("dt=1")
    if s.depall:
        parts.append("depall=1")
    if getattr(s, "per_out_reads", None):
        parts.append("po=" + ";".join("%s:%s" % (o, ",".join(rs)) for o, rs in sorted(s.per_out_reads.items())).encode("latin-1").hex())
    if getattr(s, "dep_all_outs", False):
        parts.append("dall=1")
    if getattr(s, "dep_mp", False):
        parts.append("dmp=1")
    if getattr(s, "dep_spell", None):
        parts.append("dsp=" + ";".join("%s=%s" % kv for kv in sorted(s.dep_spell.items())).encode("latin-1").hex())
    if s.rsp:
        parts.append("rsp=" + s.rsp[0])
    if s.prints is not None:
        parts.append("p=" + s.prints.encode("latin-1").hex())
    if s.ver:
        parts.append("v=%d" % s.ver)
    return " ".join(parts)


def esc_path(p):
    return p.replace("$", "$$").replace(" ", "$ ").replace(":", "$:")


class Variant:
    def __init__(self, name, stmts, pools=None, defaults=(), extra_files=None, header="", spell=None):
        self.spell = dict(spell or {})   # canonical name -> how the manifest spells it (C14)
        self.name = name
        self.stmts = stmts
        self.pools = dict(pools or {})
        self.defaults = list(defaults)
        self.extra_files = dict(extra_files or {})
        self.header = header

    def by_out(self):
        m = {}
        for s in self.stmts:
            for o in s.all_outs() + s.extra_outs:
                m[o] = s
        return m

    def rule_name(self, i):
        return getattr(self.stmts[i], "rule_name", None) or "r%d" % i

    def _rule_lines(self, i, s, by_out):
        lines = ["rule " + self.rule_name(i), "  command = " + command_of(s, by_out)]
        if s.desc:
            lines.append("  description = " + s.desc)
        if s.depfile and getattr(s, "depfile_decoy", None):
            lines.append("  depfile = " + s.depfile_decoy)   # overridden in the build statement's block
        elif s.depfile:
            d = getattr(s, "depfile_dir", None)
            # written with $out, as build generators do: the path is evaluated by ninja
            lines.append("  depfile = %s$out.d" % (d + "/" if d else "") if len(s.outs) == 1 and d else
                         "  depfile = %s.d" % esc_path(s.id))
        if s.deps:
            lines.append("  deps = " + s.deps)
        if s.restat and not getattr(s, "restat_at_file_level", False):
            lines.append("  restat = 1")
        if s.generator and not getattr(s, "generator_at_build", False):
            lines.append("  generator = 1")
        if s.dyndep and getattr(s, "dyndep_at_rule", False):
            lines.append("  dyndep = " + s.dyndep)     # bound in the rule block: the build statement has no block of its own
        if s.rsp:
            # rsp_decoy: the rule names another file; the build statement's own binding (below) is the one that counts
            lines.append("  rspfile = " + (getattr(s, "rsp_decoy", None) or s.rsp[0]))
            # a literally empty value is rejected by the parser; an empty *evaluated* content is legal
            # rsp_manifest: how the manifest writes the content ($in, $in_newline) when s.rsp[1] is its evaluated value
            lines.append("  rspfile_content = " + (getattr(s, "rsp_manifest", None) or (s.rsp[1] if s.rsp[1] else "$rsp_nothing")))
        return lines

    def _build_lines(self, i, s):
        sp = self.spell

        def spath(x):
            return esc_path(sp.get(x, x))
        if getattr(s, "outs_all_implicit", False):
            # `build | a b: rule ...`: a statement all of whose outputs are implicit ($out is empty)
            l = "build | " + " ".join(spath(o) for o in s.outs + s.iouts)
        else:
            l = "build " + " ".join(spath(o) for o in s.outs)
            if s.iouts:
                l += " | " + " ".join(spath(o) for o in s.iouts)
        l += ": " + ("phony" if s.phony else self.rule_name(i))
        if s.ex:
            l += " " + " ".join(spath(x) for x in s.ex)
        if s.im:
            l += " | " + " ".join(spath(x) for x in s.im)
        if s.oo:
            l += " || " + " ".join(spath(x) for x in s.oo)
        if s.val:
            l += " |@ " + " ".join(spath(x) for x in s.val)
        lines = [l]
        if s.pool:
            lines.append("  pool = " + s.pool)
        if s.dyndep and not getattr(s, "dyndep_at_rule", False):
            lines.append("  dyndep = " + getattr(s, "dyndep_spelled", s.dyndep))   # (the binding's value is a path like any other)
        if s.generator and getattr(s, "generator_at_build", False):
            lines.append("  generator = 1")     # bound in the build block: the rule itself says nothing
        if s.rsp and getattr(s, "rsp_decoy", None):
            lines.append("  rspfile = " + s.rsp[0])
        if s.depfile and getattr(s, "depfile_decoy", None):
            lines.append("  depfile = " + depfile_of(s))
        return lines

    def scoped_files(self):
        """Statements with a `scope` attribute (a file name) live, with their rules, in that subninja file: a scope of
        its own, in which a rule may carry the name of a rule of the including file."""
        by_out = self.by_out()
        out = {}
        for i, s in enumerate(self.stmts):
            f = getattr(s, "scope", None)
            if not f:
                continue
            lines = out.setdefault(f, ["# scope %s of variant %s" % (f, self.name)])
            if not s.phony:
                lines += self._rule_lines(i, s, by_out)
            lines += self._build_lines(i, s)
        return dict((f, "\n".join(l) + "\n") for f, l in out.items())

    def manifest(self):
        by_out = self.by_out()
        lines = ["# variant %s" % getattr(self, "title", self.name)]
        if self.header:
            lines.append(self.header)
        for name, depth in sorted(self.pools.items()):
            lines += ["pool %s" % name, "  depth = %d" % depth]
        for i, s in enumerate(self.stmts):
            if s.phony or getattr(s, "scope", None):
                continue
            lines += self._rule_lines(i, s, by_out)
        sp = self.spell

        def spath(x):
            return esc_path(sp.get(x, x))
        for i, s in enumerate(self.stmts):
            if getattr(s, "scope", None):
                continue
            lines += self._build_lines(i, s)
        for f in sorted(self.scoped_files()):
            lines.append("subninja " + f)
        if self.defaults:
            dsp = getattr(self, "defaults_spell", None) or {}    # how the `default` line alone spells a target
            lines.append("default " + " ".join(esc_path(dsp[x]) if x in dsp else spath(x) for x in self.defaults))
        return "\n".join(lines) + "\n"

    def to_json(self):
        by_out = self.by_out()
        files = {"build.ninja": self.manifest()}
        files.update(self.scoped_files())
        files.update(self.extra_files)
        return {
            "name": self.name,
            "files": files,
            "defaults": self.defaults,
            "pools": self.pools,
            "stmts": [{
                "outs": s.all_outs(), "phony": s.phony, "rule": "phony" if s.phony else self.rule_name(i), "ex": s.ex, "im": s.im, "oo": s.oo, "val": s.val,
                "cmd": command_of(s, by_out), "pool": s.pool, "restat": s.restat, "generator": s.generator,
                "deps": s.deps, "depfile": depfile_of(s), "dyndep": s.dyndep,
                "rspfile": s.rsp[0] if s.rsp else "", "rspfile_content": s.rsp[1] if s.rsp else "",
                "desc": s.desc or "",
            } for i, s in enumerate(self.stmts)],
        }


def sources_of(variants, extra=()):
    """Files that some statement reads (declared, hidden, order-only) and no statement produces."""
    src = []
    for v in variants:
        by_out = v.by_out()
        for s in v.stmts:
            for x in s.ex + s.im + s.oo + s.hidden + s.extra_reads + s.val:
                if x not in by_out and x not in src:
                    src.append(x)
    for x in extra:
        if x not in src:
            src.append(x)
    return src


def tool_op(kind, args=(), dry=False, verbose=False):
    """-t clean / cleandead / read-only tools."""
    fl = []
    if dry:
        fl.append("-n")
    if verbose:
        fl.append("-v")
    if kind == "clean-all":
        fl += ["-t", "clean"]
    elif kind == "clean-all-g":
        fl += ["-t", "clean", "-g"]
    elif kind == "clean-targets":
        fl += ["-t", "clean"] + list(args)
    elif kind == "clean-rules":
        fl += ["-t", "clean", "-r"] + list(args)
    elif kind == "cleandead":
        fl += ["-t", "cleandead"]
    else:
        fl += list(args)
    op = {"op": "ninja", "flags": fl, "targets": [], "j": 1, "k": 1, "faults": {}, "tool": True, "tool_kind": kind,
          "tool_args": list(args), "tool_dry": dry, "label": "ninja " + " ".join(fl), "subsets": False}
    return op


def ninja_op(targets=(), j=1, k=1, faults=None, label=None, interrupt=False, flags=(), env=None, edits_during=(),
             no_expand=False, subsets=True, tool=False, dry_run=False, jobserver=None, explicit_j=False):
    """jobserver: {"tokens": T, "ext_held": H, "ext_max": M, "moves": N} -- the invocation is a client of a jobserver pool
    (engine A seam S6a); no -j is passed then unless explicit_j (which makes ninja ignore the pool)."""
    fl = list(flags)
    if not tool:
        fl = (["-j%d" % j] if (jobserver is None or explicit_j) else []) + ["-k%d" % k] + fl
    op = {"op": "ninja", "flags": fl, "targets": list(targets), "j": j, "k": k,
          "faults": faults or {}, "interrupt": interrupt, "subsets": subsets, "tool": tool, "dry_run": dry_run,
          "no_expand": no_expand}
    if env:
        op["env"] = env
    if jobserver is not None:
        op["jobserver"] = dict(jobserver)
        if not explicit_j:
            op["j"] = 0
    if edits_during:
        op["edits_during"] = [{"when": w, "path": p, "content": c} for (w, p, c) in edits_during]
    if label is None:
        label = "ninja " + " ".join(fl + list(targets))
        if faults:
            label += " faults=" + ",".join("%s:%s%s" % (n, f.get("code", 1), "+touch" if f.get("touch") else "")
                                            for n, f in sorted(faults.items()))
        if interrupt:
            label += " +interrupts"
        if jobserver is not None:
            label += " jobserver[%d in pool, other client holds %d of at most %d, %d moves]" % (
                jobserver.get("tokens", 0), jobserver.get("ext_held", 0), jobserver.get("ext_max", 0), jobserver.get("moves", 0))
        if edits_during:
            label += " +edits"
    op["label"] = label
    return op


def scenario(name, family, variants, files=None, ops=None, init=(), depth=2, tags=(), dev_bound=-1, dirs=(),
             twin_variants=None, builddir=""):
    files = dict(files or {})
    for x in sources_of(variants):
        files.setdefault(x, "%s-v0\n" % x)
    d = {
        "name": name, "family": family, "variants": [v.to_json() for v in variants], "files": files,
        "ops": ops or [], "init": list(init), "depth": depth, "tags": list(tags), "dev_bound": dev_bound,
        "dirs": list(dirs), "builddir": builddir,
    }
    if twin_variants:
        d["twin_variants"] = [v.to_json() for v in twin_variants]
    return d


def descending_copies(scenarios, tags_any=("dyndep", "pool", "console", "validation")):
    """Seam S8: the same scenarios with ninja's Edge/Node objects at descending addresses (Plan::want_ and the dyndep
    walk sets are ordered by address).  Only scenarios carrying one of the tags -- the features whose code iterates
    those containers -- are copied."""
    import copy
    out = []
    for sc in scenarios:
        if tags_any and not (set(tags_any) & set(sc.get("tags", []))):
            continue
        c = copy.deepcopy(sc)
        c["name"] = sc["name"] + "@desc"
        c["alloc_order"] = "descending"
        c["tags"] = list(sc.get("tags", [])) + ["alloc-descending", "no-conformance"]
        out.append(c)
    return out


def declared_twin(v):
    """The same graph with discovered dependencies written as implicit inputs and dyndep information
    (extra inputs, implicit outputs, restat) written into the build statement."""
    import copy
    out = []
    for s in v.stmts:
        t = copy.copy(s)
        t.im = list(s.im) + [h for h in s.hidden if h not in s.im]
        t.hidden = []
        t.depfile = False
        t.deps = ""
        if s.dyndep:
            t.im = t.im + [x for x in s.extra_reads if x not in t.im]
            t.iouts = list(s.iouts) + [x for x in s.extra_outs if x not in s.iouts]
            t.extra_reads = []
            t.extra_outs = []
            t.dyndep = ""
            t.restat = s.restat or getattr(s, "dyn_restat", False)
        out.append(t)
    return Variant(v.name + "-declared", out, pools=v.pools, defaults=v.defaults, extra_files=v.extra_files,
                   header="# declared twin")


def unspelled_twin(v):
    """The same project with every name written canonically: in the manifest, in the depfiles / showIncludes
    output of its tools (C14: spellings that differ only lexically name the same file)."""
    import copy
    out = []
    for s in v.stmts:
        t = copy.copy(s)
        t.dep_spell = None
        out.append(t)
    return Variant(v.name + "-canonical", out, pools=v.pools, defaults=v.defaults, extra_files=v.extra_files,
                   header="# canonical twin")


def standard_ops(variants, files, js=(1, 3), with_faults=True, with_rm=True, targets_extra=(), touch=False,
                 fault_modes=(({"code": 1}), ({"code": 200, "touch": True})), ks=(1,), max_fault_stmts=None,
                 pair_faults=False, rm_depfiles=False, edits_during=True, touch_only=()):
    """A generic operation alphabet for a scenario (see DESIGN.md 5/C01)."""
    v0 = variants[0]
    ops = []
    srcs = sources_of(variants)
    for s in srcs:
        if s in touch_only:
            # sources whose content is structured (a dyndep file): only their timestamp changes
            ops.append({"op": "touch", "path": s, "label": "touch " + s})
            continue
        if s in files or True:
            ops.append({"op": "edit", "path": s, "label": "edit " + s})
            if touch:
                ops.append({"op": "touch", "path": s, "label": "touch " + s})
    cmd_stmts = [s for s in v0.stmts if not s.phony]
    if with_rm:
        for s in cmd_stmts:
            for o in s.all_outs():
                ops.append({"op": "rm", "path": o, "label": "rm " + o})
            if rm_depfiles and s.depfile and not s.deps:
                ops.append({"op": "rm", "path": s.id + ".d", "label": "rm " + s.id + ".d"})
    for i in range(1, len(variants)):
        ops.append({"op": "variant", "to": i, "label": "manifest:=" + variants[i].name})
    if len(variants) > 1:
        ops.append({"op": "variant", "to": 0, "label": "manifest:=" + variants[0].name})
    for j in js:
        ops.append(ninja_op(j=j))
    for t in targets_extra:
        ops.append(ninja_op(targets=[t], j=js[-1]))
    if edits_during:
        # a source is edited while the command that reads it runs (not for restat/generator statements,
        # whose log entry carries the output's own time: the documented exception)
        by_out = v0.by_out()
        done = 0
        for s in cmd_stmts:
            if s.restat or s.generator or getattr(s, "dyn_restat", False) or getattr(s, "tool_restat", False) or s.copy:
                continue
            reads = [x for x in expand_reads(s.ex + s.im, by_out) + s.hidden if x in srcs]
            if not reads or done >= 2:
                continue
            done += 1
            ops.append(ninja_op(j=js[-1], edits_during=[(s.id, reads[0], reads[0] + "-edited-while-" + s.id + "-ran\n")],
                                label="ninja -j%d, %s edited while %s runs" % (js[-1], reads[0], s.id)))
    if with_faults:
        fs = cmd_stmts if max_fault_stmts is None else cmd_stmts[:max_fault_stmts]
        for s in fs:
            for fm in fault_modes:
                for k in ks:
                    ops.append(ninja_op(j=js[-1], k=k, faults={s.id: fm}))
            if s.depfile:
                # a tool that dies half way: exit code 3, some output, and a depfile that does not parse
                ops.append(ninja_op(j=js[-1], k=ks[0], faults={s.id: {"code": 3, "baddep": True}},
                                    label="ninja -j%d -k%d faults=%s:3+unparsable depfile" % (js[-1], ks[0], s.id)))
                if s.deps == "gcc":
                    # ... or does all its work and exits 0, with a directory where the depfile should be: ninja cannot read the
                    # dependencies, so the step has failed (FAILED, no record, retried)
                    ops.append(ninja_op(j=js[-1], k=ks[0], faults={s.id: {"code": 0, "depdir": True}},
                                        label="ninja -j%d -k%d faults=%s:exit 0 + a directory where its depfile should be" % (js[-1], ks[0], s.id)))
                # ... or a depfile cut off right after the target: it parses, and names no dependency
                ops.append(ninja_op(j=js[-1], k=ks[0], faults={s.id: {"code": 1, "trimdep": True}},
                                    label="ninja -j%d -k%d faults=%s:1+truncated depfile" % (js[-1], ks[0], s.id)))
        if pair_faults:
            for a, b in itertools.combinations(fs, 2):
                for k in (1, 2, 0):
                    ops.append(ninja_op(j=js[-1], k=k, faults={a.id: {"code": 1}, b.id: {"code": 2}}))
    return ops


def dump(scenarios, path):
    with open(path, "w") as f:
        for s in scenarios:
            f.write(json.dumps(s, ensure_ascii=True))
            f.write("\n")
