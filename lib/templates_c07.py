"""Scenarios for C07: crash points and interrupts."""
from scen import Stmt, Variant, scenario, ninja_op, sources_of


def _ops(v, js=(1, 2), extra_targets=()):
    ops = []
    for s in sources_of([v]):
        if s == "dd.in":
            ops.append({"op": "touch", "path": s, "label": "touch " + s})
            continue
        ops.append({"op": "edit", "path": s, "label": "edit " + s})
    for st in v.stmts:
        if not st.phony:
            for o in st.all_outs():
                ops.append({"op": "rm", "path": o, "label": "rm " + o})
    plain = len(ops)
    for j in js:
        ops.append(ninja_op(j=j))
    crash = len(ops)
    ops.append(dict(ninja_op(j=js[-1], subsets=False, label="ninja -j%d [killed at every operation]" % js[-1]), crash=True))
    ops.append(ninja_op(j=js[-1], interrupt=True))
    for st in v.stmts:
        if not st.phony:
            ops.append(ninja_op(j=js[-1], faults={st.id: {"signal": True, "touch": True}},
                                label="ninja -j%d child %s dies of SIGINT after touching its output" % (js[-1], st.id)))
    return ops, plain, crash


def templates(tier="quick"):
    T = []
    d = 3 if tier == "quick" else 5
    shapes = []
    shapes.append(("chain_plain", Variant("v0", [Stmt("a", ex=["s"]), Stmt("b", ex=["a"])])))
    shapes.append(("deps_gcc", Variant("v0", [Stmt("obj", ex=["src"], hidden=["hdr"], deps="gcc"), Stmt("exe", ex=["obj"])])))
    shapes.append(("depfile", Variant("v0", [Stmt("obj", ex=["src"], hidden=["hdr"], depfile=True), Stmt("exe", ex=["obj"])])))
    shapes.append(("restat", Variant("v0", [Stmt("gen", ex=["tmpl"], restat=True), Stmt("use", ex=["gen"])])))
    shapes.append(("parallel", Variant("v0", [Stmt("a", ex=["s"]), Stmt("b", ex=["t"], hidden=["h"], deps="gcc"),
                                              Stmt("c", ex=["a", "b"])])))
    shapes.append(("rsp_subdir", Variant("v0", [Stmt("out/lib", ex=["x.o"], rsp=("out/lib.rsp", "x.o")),
                                               Stmt("out/exe", ex=["out/lib"])])))
    shapes.append(("generator", Variant("v0", [Stmt("cfg", ex=["cfg.in"], generator=True, restat=True), Stmt("use", ex=["cfg"])])))
    # several outputs: an explicit pair, and an implicit output next to the explicit one
    shapes.append(("two_outputs", Variant("v0", [Stmt(["o1", "o2"], ex=["s"]), Stmt("use", ex=["o1", "o2"])])))
    shapes.append(("implicit_output", Variant("v0", [Stmt("out", iouts=["out.idx"], ex=["s"]), Stmt("use", ex=["out"], im=["out.idx"])])))
    # dyndep information produced in the build, a depth-1 pool, the console pool, a validation
    from family_cycles import dyndep_text
    ddv = Variant("v0", [Stmt("dd", ex=["dd.in"], copy=True), Stmt("x", ex=["s"], pool="pp"), Stmt("w", ex=["t"], pool="pp"),
                         Stmt("out", ex=["in"], oo=["dd"], dyndep="dd", extra_reads=["x"], extra_outs=["out.mod"]),
                         Stmt("top", ex=["out", "w"])], pools={"pp": 1},
                  extra_files={"dd.in": dyndep_text([("out", ["out.mod"], ["x"], False)])})
    shapes.append(("dyndep_pool", ddv))
    shapes.append(("console_validation", Variant("v0", [Stmt("c1", ex=["s"], pool="console"), Stmt("chk", ex=["c1"]),
                                                        Stmt("use", ex=["c1"], val=["chk"]), Stmt("top", ex=["use"])],
                                                 defaults=["top"])))
    # a project that binds `builddir`: lock file, both logs and an output live there; the directory itself is created by ninja
    shapes.append(("builddir_gcc_rsp", Variant("v0", [Stmt("bd/obj", ex=["src"], hidden=["hdr"], deps="gcc"),
                                                       Stmt("lib", ex=["bd/obj"], rsp=("bd/lib.rsp", "bd/obj")), Stmt("exe", ex=["lib"])],
                                                header="builddir = bd")))
    for name, v in shapes:
        ops, plain, crash = _ops(v)
        bd = "bd" if name.startswith("builddir") else ""
        # from a fresh tree: kill the very first build; from a built tree: kill an incremental build
        T.append(scenario("c07/" + name + "/fresh", "c07", [v], ops=ops, init=[], depth=2, tags=["crash", "fresh"], builddir=bd))
        # (the thorough depth of 5 is kept for projects of two statements: the larger ones exceed the memory budget there)
        T.append(scenario("c07/" + name + "/built", "c07", [v], ops=ops, init=[plain], depth=d if len(v.stmts) <= 2 else min(d, 4),
                          tags=["crash", "built"], builddir=bd))
    # a restat statement with recorded dependencies whose command, after a manifest change, reports one dependency more
    # while leaving its output untouched (copy tool): the build-log record and the deps-log record are two appends
    for kind in ("gcc", "msvc"):
        def rv(name, hidden, kind=kind):
            return Variant(name, [Stmt("obj", ex=["src"], hidden=hidden, deps=kind, restat=True, copy=True), Stmt("exe", ex=["obj"])])
        v0, v1 = rv("v0", ["h1"]), rv("v1", ["h1", "h2"])
        ops, plain, crash = _ops(v0)
        ops = [{"op": "variant", "to": 1, "label": "manifest:=v1 (obj's command now also reads h2)"},
               {"op": "edit", "path": "h2", "label": "edit h2"}] + ops
        T.append(scenario("c07/restat_deps_%s_list_changes/built" % kind, "c07", [v0, v1], files={"h2": "h2-v0\n"}, ops=ops,
                          init=[plain + 2], depth=d, tags=["crash", "built", "restat", "deps"]))

    # a command line that changes and changes back around a build that dies (hand-edited manifest, a branch switched twice)
    for nm, mk in (("chain_plain", lambda ver: [Stmt("a", ex=["s"], ver=ver), Stmt("b", ex=["a"])]),
                   ("deps_gcc", lambda ver: [Stmt("obj", ex=["src"], hidden=["hdr"], deps="gcc", ver=ver), Stmt("exe", ex=["obj"])]),
                   ("restat", lambda ver: [Stmt("gen", ex=["tmpl"], restat=True, ver=ver), Stmt("use", ex=["gen"])])):
        v0, v1 = Variant("v0", mk(0)), Variant("v1", mk(1))
        ops, plain, crash = _ops(v0)
        ops = [{"op": "variant", "to": 1, "label": "manifest:=v1 (first command line changed)"},
               {"op": "variant", "to": 0, "label": "manifest:=v0"}] + ops
        T.append(scenario("c07/%s_command_changes_and_back/built" % nm, "c07", [v0, v1], ops=ops, init=[plain + 2], depth=d,
                          tags=["crash", "built", "command-change"]))

    # the manifest itself is an output (generator statement): interrupts and deaths while it is being regenerated
    def regen(name, ver):
        return Variant(name, [Stmt("build.ninja", ex=["build.ninja.in"], generator=True, copy=True),
                              Stmt("a", ex=["s"], ver=ver), Stmt("b", ex=["a"])], defaults=["b"])
    va, vb = regen("m0", 0), regen("m1", 1)
    rops = [{"op": "write", "path": "build.ninja.in", "content": vb.manifest(), "label": "build.ninja.in:=m1"},
            {"op": "write", "path": "build.ninja.in", "content": va.manifest(), "label": "build.ninja.in:=m0"},
            {"op": "edit", "path": "s", "label": "edit s"},
            ninja_op(j=1), ninja_op(j=2),
            dict(ninja_op(j=2, subsets=False, label="ninja -j2 [killed at every operation]"), crash=True),
            ninja_op(j=2, interrupt=True),
            ninja_op(j=2, faults={"build.ninja": {"signal": True, "touch": True}},
                     label="ninja -j2 child build.ninja dies of SIGINT after touching its output"),
            ninja_op(j=2, faults={"build.ninja": {"signal": True}},
                     label="ninja -j2 child build.ninja dies of SIGINT before touching its output")]
    T.append(scenario("c07/manifest_regen/built", "c07", [va, vb], files={"build.ninja.in": va.manifest(), "s": "s-v0\n"}, ops=rops,
                      init=[3], depth=d, tags=["crash", "built", "manifest-regen"]))

    # log recompaction: a build log with > 100 dead entries and a deps log with > 1000 dead records
    v = Variant("v0", [Stmt("obj", ex=["src"], hidden=["hdr"], deps="gcc"), Stmt("exe", ex=["obj"])])
    log = "# ninja log v7\n" + "".join("0\t1\t1700000000000000000\tdead%d\tabcdef%d\n" % (i, i) for i in range(130))
    ops, plain, crash = _ops(v)
    T.append(scenario("c07/recompact_buildlog/fresh", "c07", [v], files={".ninja_log": log}, ops=ops, init=[], depth=2,
                      tags=["crash", "recompaction"]))
    return T
