"""Trace conformance: engine-A executions replayed on the real ninja binary (engine B).

A deterministic selection of histories per scenario (first build under the default and the reversed
schedule, every edit / deletion / manifest variant followed by a rebuild, failing commands followed
by a retry) is executed (a) in process by nx and (b) by the unmodified executable with gated helper
commands; exit status, started commands, "no work to do" and all file contents must agree.  A
disagreement means that the simulator or the seams misrepresent ninja (a harness defect) -- it is
recorded in the evidence and printed, never turned into a property verdict."""
import multiprocessing
import os

import nxcheck
import rb


def histories(sc, limit):
    ops = sc["ops"]
    if "no-conformance" in sc.get("tags", []):
        return []
    ninjas = [i for i, o in enumerate(ops) if o["op"] == "ninja" and not o.get("tool") and not o.get("crash")
              and not o.get("interrupt") and not o.get("edits_during") and not o.get("expect_error")]
    plain = [i for i in ninjas if not ops[i].get("faults") and not ops[i]["targets"] and not ops[i].get("dry_run")]
    if not plain:
        return []
    b0, bl = plain[0], plain[-1]
    init = [{"op": i, "choices": []} for i in sc.get("init", [])]
    H = []
    H.append(init + [{"op": bl, "choices": []}, {"op": b0, "choices": []}])
    H.append(init + [{"op": bl, "choices": [-2] * 8}, {"op": b0, "choices": []}])
    simple = [i for i, o in enumerate(ops) if o["op"] in ("edit", "touch", "rm", "variant", "write")]
    for i in simple:
        H.append(init + [{"op": bl, "choices": []}, {"op": i}, {"op": bl, "choices": [-2] * 8}, {"op": b0, "choices": []}])
    faulty = [i for i in ninjas if ops[i].get("faults") and not any(f.get("signal") or f.get("baddep") or f.get("trimdep") or f.get("depdir") for f in ops[i]["faults"].values())]
    for i in faulty[:4]:
        H.append(init + [{"op": i, "choices": []}, {"op": bl, "choices": []}])
        H.append(init + [{"op": bl, "choices": []}] + ([{"op": simple[0]}] if simple else []) + [{"op": i, "choices": [-2] * 8}, {"op": bl, "choices": []}])
    targeted = [i for i in ninjas if ops[i]["targets"] and not ops[i].get("faults")]
    for i in targeted[:2]:
        H.append(init + [{"op": i, "choices": []}, {"op": bl, "choices": []}])
    return H[:limit]


def _one(args):
    sc, hist, ninja, vcmd, nx = args
    try:
        try:
            a = rb.nx_replay(sc, hist, nx)
        except RuntimeError:
            a = rb.nx_replay(sc, hist, nx)     # (a loaded machine: one more try before calling it a harness problem)
        b = rb.replay(sc, hist, ninja, vcmd)
        d = rb.compare(a, b)
        if d:
            # real processes: one retry to rule out a timing artefact of the quiescence detection
            b = rb.replay(sc, hist, ninja, vcmd)
            d = rb.compare(a, b)
        return (sc["name"], [sc["ops"][h["op"]]["label"] for h in hist], d, len(a))
    except Exception as e:   # noqa
        return (sc["name"], [], ["exception: %r" % (e,)], 0)


def run(scenarios, per_scenario=3, jobs=None):
    ninja, vcmd = rb.build_tools()
    nx = nxcheck.nx_exe()
    work = []
    for sc in scenarios:
        if sc.get("twin_variants") is not None and False:
            continue
        for h in histories(sc, per_scenario):
            work.append((sc, h, ninja, vcmd, nx))
    if not work:
        return {"traces": 0, "invocations": 0, "disagreements": []}
    with multiprocessing.Pool(jobs or min(16, os.cpu_count() or 4)) as pool:
        res = pool.map(_one, work, chunksize=1)
    dis = [{"scenario": n, "history": h, "diffs": d[:3]} for (n, h, d, k) in res if d]
    return {"traces": len(res), "invocations": sum(k for (_, _, _, k) in res), "disagreements": dis}
